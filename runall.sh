#!/bin/sh
# ./runall.sh [tier] [seed]  - run every registered check, print one line per property
TIER=${1:-quick}; SEED=${2:-0}
for p in $(/venv/bin/python -c "import json;print(' '.join(c['property_id'] for c in json.load(open('MANIFEST.json'))['checks']))"); do
  START=$(date +%s); OUT=$(VERIF_SEED=$SEED ./check $p $TIER 2>&1); RC=$?; END=$(date +%s)
  echo "$p rc=$RC $((END-START))s $(echo "$OUT" | grep -c '^VIOLATION') viol $(echo "$OUT" | grep -c '^INCONCLUSIVE') inc $(echo "$OUT" | grep -c '^KNOWN-FINDING') known | $(echo "$OUT" | grep -v '^WARNING' | head -1 | cut -c1-110)"
  echo "$OUT" | grep '^VIOLATION\|^INCONCLUSIVE' | sed 's/replay=[^ ]* //' | cut -c1-240 | head -5
done
