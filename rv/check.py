"""CLI: ./check <ID> <quick|thorough> [--replay PATH]

Parent: split the tier's workload over shard subprocesses (one subprocess.run per shard, never a
multiprocessing.Pool), merge their summaries, classify mismatches against known_findings.json,
write evidence/<ID>.json, print KNOWN-FINDING / VIOLATION / INCONCLUSIVE lines.
Exit 0 held, 1 violated, 2 inconclusive."""
from __future__ import annotations

import collections
import concurrent.futures
import importlib
import json
import os
import subprocess
import sys
import tempfile
import time
import traceback

VERIF = os.path.dirname(os.path.dirname(os.path.abspath(__file__)))
REPO = os.path.realpath(os.environ.get('VERIF_REPO_ROOT', '/repo'))
PKG = os.path.join(REPO, 'bitstring')
PY = sys.executable
SHARD_TIMEOUT = {'quick': 900, 'thorough': 5400}
MAX_PROCS = int(os.environ.get('VERIF_PROCS', '16'))


def child_env():
    env = dict(os.environ)
    env['PYTHONPATH'] = REPO + os.pathsep + VERIF
    env['PYTHONHASHSEED'] = '0'
    env['PYTHONDONTWRITEBYTECODE'] = '1'
    env.pop('NO_COLOR', None)
    env['VERIF_REPO_ROOT'] = REPO
    return env


def load_module(prop: str):
    return importlib.import_module(f'rv.props.{prop.lower()}')


def load_findings(prop: str):
    path = os.path.join(VERIF, 'known_findings.json')
    try:
        with open(path) as f:
            data = json.load(f)
    except FileNotFoundError:
        return {}, []
    by_mech = {}
    for ent in data.get('findings', []):
        if ent.get('status') != 'open':
            continue
        if prop != ent.get('property') and prop not in ent.get('also', []):
            continue
        for m in ent.get('mechanisms', []):
            by_mech[m] = ent
    return by_mech, data.get('findings', [])


# -------------------------------------------------------------------------------------------------
def run_shard(prop, tier, seed, shard, nshards, out):
    """Executed in the shard subprocess."""
    from rv.core import Ctx
    try:
        # a tree under test that allocates without bound (a shared store that doubles on every use ...) must surface as a
        # MemoryError inside the case that triggers it - which the judge reports with the case - not as a shard killed by the OS
        import resource
        lim = 12 * 1024 ** 3
        resource.setrlimit(resource.RLIMIT_AS, (lim, lim))
    except Exception:  # noqa: BLE001 - no such limit on this platform
        pass
    ctx = Ctx(prop, tier, seed, shard, nshards)
    ctx.ambient = getattr(load_module(prop), 'AMBIENT', None)
    result = {'fatal': None}
    try:
        import bitstring
        where = os.path.realpath(bitstring.__file__)
        if not where.startswith(PKG + os.sep):
            raise RuntimeError(f'bitstring imported from {where}, expected under {PKG}')
        from rv import reach, sentinels
        reach.start(PKG)
        mod = load_module(prop)
        if getattr(mod, 'SENTINELS', True):
            sentinels.install(ctx)
        mod.run(ctx)
        result.update(ctx.summary())
        result['reached'] = sorted(reach.reached())
    except BaseException:  # noqa: BLE001 - report, parent decides
        result.update(ctx.summary())
        result['fatal'] = traceback.format_exc()[-3000:]
    with open(out, 'w') as f:
        json.dump(result, f, default=str)


def launch(prop, tier, seed, shard, nshards, tmpdir):
    out = os.path.join(tmpdir, f'shard{shard}.json')
    cmd = [PY, '-m', 'rv.check', '--shard', prop, tier, str(seed), str(shard), str(nshards), out]
    try:
        p = subprocess.run(cmd, cwd=VERIF, env=child_env(), capture_output=True, text=True,
                           timeout=SHARD_TIMEOUT[tier])
    except subprocess.TimeoutExpired:
        return {'fatal': f'shard {shard} exceeded wall-clock watchdog {SHARD_TIMEOUT[tier]}s', 'shard': shard}
    try:
        with open(out) as f:
            res = json.load(f)
    except Exception:  # noqa: BLE001
        return {'fatal': f'shard {shard} died rc={p.returncode}: {p.stderr[-1500:]}', 'shard': shard}
    res['stderr'] = p.stderr[-500:] if p.stderr else ''
    return res


def merge(results):
    m = {'evaluations': 0, 'events': 0, 'keys': set(), 'ops': collections.Counter(),
         'outcomes': collections.Counter(), 'tol': collections.Counter(), 'samples': [],
         'mech_counts': collections.Counter(), 'mech_cases': {}, 'states': 0, 'extra': {},
         'inconclusive': [], 'foreign_trips': collections.Counter(),
         'sentinel_evals': collections.Counter(), 'reached': set(), 'exhaustive': {}, 'fatal': []}
    for r in results:
        if r.get('fatal'):
            m['fatal'].append(r['fatal'])
        m['evaluations'] += r.get('evaluations', 0)
        m['events'] += r.get('events', 0)
        m['keys'].update(r.get('keys', []))
        for k in ('ops', 'outcomes', 'tol', 'mech_counts', 'foreign_trips', 'sentinel_evals'):
            m[k].update(r.get(k, {}))
        for mech, cases in r.get('mech_cases', {}).items():
            m['mech_cases'].setdefault(mech, []).extend(cases)
        m['samples'].extend(r.get('samples', [])[:2])
        m['states'] += r.get('states', 0)
        m['inconclusive'].extend(r.get('inconclusive', []))
        m['reached'].update(r.get('reached', []))
        for k, v in r.get('extra', {}).items():
            if isinstance(v, (int, float)) and not isinstance(v, bool):
                m['extra'][k] = m['extra'].get(k, 0) + v
            elif isinstance(v, dict):
                d = m['extra'].setdefault(k, {})
                for kk, vv in v.items():
                    if isinstance(vv, (int, float)) and not isinstance(vv, bool):
                        d[kk] = d.get(kk, 0) + vv
                    else:
                        d[kk] = vv
            elif isinstance(v, list):
                m['extra'].setdefault(k, [])
                m['extra'][k] = (m['extra'][k] + v)[:40]
            else:
                m['extra'][k] = v
        for k, v in r.get('exhaustive', {}).items():
            m['exhaustive'][k] = m['exhaustive'].get(k, True) and bool(v)
    return m


def classify(prop, mech_counts, mech_cases):
    by_mech, _ = load_findings(prop)
    known = collections.OrderedDict()
    violations = []
    for mech in sorted(mech_counts):
        ent = by_mech.get(mech)
        if ent is not None:
            k = known.setdefault(ent['id'], {'entry': ent, 'count': 0, 'mechanisms': []})
            k['count'] += mech_counts[mech]
            k['mechanisms'].append(mech)
        else:
            violations.append(mech)
    return known, violations


def write_replays(prop, violations, mech_cases):
    d = os.path.join(VERIF, 'replays' if REPO == '/repo' else os.path.join('.scratch', 'replays_mutants'), prop)
    os.makedirs(d, exist_ok=True)
    for old in os.listdir(d):              # witnesses of earlier runs would only confuse
        if old.endswith('.json'):
            os.unlink(os.path.join(d, old))
    paths = []
    for i, mech in enumerate(violations):
        cases = mech_cases.get(mech) or [{'case': None, 'detail': ''}]
        safe = ''.join(c if c.isalnum() else '_' for c in mech)[:80]
        path = os.path.join(d, f'{i:02d}_{safe}.json')
        with open(path, 'w') as f:
            json.dump({'property': prop, 'mechanism': mech, 'case': cases[0]['case'],
                       'detail': cases[0]['detail'], 'more': cases[1:]}, f, indent=1, default=str)
        paths.append((mech, path))
    return paths


def main(argv):
    if argv and argv[0] == '--shard':
        _, prop, tier, seed, shard, nshards, out = argv
        run_shard(prop, tier, int(seed), int(shard), int(nshards), out)
        return 0
    if not argv:
        print(__doc__)
        return 2
    prop = argv[0].upper()
    tier = os.environ.get('VERIF_TIER') or 'quick'
    replay = None
    rest = argv[1:]
    while rest:
        a = rest.pop(0)
        if a in ('quick', 'thorough'):
            tier = a
        elif a == '--replay':
            replay = rest.pop(0)
    if tier not in ('quick', 'thorough'):
        tier = 'quick'
    seed = int(os.environ.get('VERIF_SEED', '0') or 0)
    if replay:
        return do_replay(prop, replay)
    t0 = time.time()
    # metadata is read in a throw-away subprocess-free way: the module's constants only.
    try:
        os.environ.update({'PYTHONHASHSEED': '0'})
        sys.path.insert(0, REPO)
        mod = load_module(prop)
    except Exception:  # noqa: BLE001
        print(f'INCONCLUSIVE property={prop} reason=cannot import monitor or repository: '
              f'{traceback.format_exc()[-400:]!r}')
        return 2
    nshards = mod.SHARDS[tier] if isinstance(mod.SHARDS, dict) else mod.SHARDS
    with tempfile.TemporaryDirectory(prefix=f'rv_{prop}_') as tmp:
        with concurrent.futures.ThreadPoolExecutor(max_workers=min(nshards, MAX_PROCS)) as ex:
            results = list(ex.map(lambda i: launch(prop, tier, seed, i, nshards, tmp), range(nshards)))
    m = merge(results)
    known, violations = classify(prop, m['mech_counts'], m['mech_cases'])

    # ---- conclusiveness ---------------------------------------------------------------------
    reasons = list(m['inconclusive'])
    for f in m['fatal']:
        reasons.append('shard failure: ' + f[-400:].replace('\n', ' | '))
    from rv import reach
    present = reach.all_qualnames(PKG)
    anchors = {}
    for a in getattr(mod, 'ANCHORS', []):
        anchors[a] = {'present': a in present, 'reached': a in m['reached']}
        if a in present and a not in m['reached']:
            reasons.append(f'anchor {a} present but never entered')
    for opname in getattr(mod, 'REQUIRED_OPS', []):
        if m['ops'].get(opname, 0) == 0:
            reasons.append(f'planned op class {opname!r} had zero observations')
    min_evals = getattr(mod, 'MIN_EVALS', {}).get(tier, 1)
    if m['evaluations'] < min_evals:
        reasons.append(f'only {m["evaluations"]} evaluations (< {min_evals})')
    for sid in getattr(mod, 'REQUIRED_SENTINELS', []):
        if m['sentinel_evals'].get(sid, 0) == 0:
            reasons.append(f'sentinel {sid} never evaluated')

    # ---- evidence ---------------------------------------------------------------------------
    wall = round(time.time() - t0, 2)
    cov = {
        'evaluations': int(m['evaluations']),
        'distinct_nontrivial': len(m['keys']),
        'rule': getattr(mod, 'RULE', ''),
        'samples': m['samples'][:8] or [{'note': 'no sample recorded'}],
        'events': int(m['events']),
        'op_histogram': dict(sorted(m['ops'].items())),
        'outcome_histogram': dict(sorted(m['outcomes'].items())),
        'distinct_model_states': int(m['states']),
        'tolerance_hits': dict(m['tol']),
        'sentinel_evaluations': dict(m['sentinel_evals']),
        'foreign_sentinel_trips': dict(m['foreign_trips']),
        'anchors': anchors,
        'functions_reached': len(m['reached']),
        'functions_reached_names': sorted(m['reached']),
        'known_findings_seen': {k: {'cases': v['count'], 'mechanisms': v['mechanisms']} for k, v in known.items()},
        'unlisted_mismatch_mechanisms': {k: m['mech_counts'][k] for k in violations},
        'shards': nshards,
        'verdict': 'violated' if violations else ('inconclusive' if reasons else 'held'),
        'inconclusive_reasons': reasons[:10],
    }
    if m['exhaustive']:
        cov['exhaustive_subspaces'] = m['exhaustive']
        cov['exhaustive'] = False
    cov.update({k: v for k, v in m['extra'].items() if k not in cov})
    ev = {
        'property_id': prop, 'tier': tier, 'seed': seed, 'level': 'exploration', 'coverage': cov,
        'assumptions': getattr(mod, 'ASSUMPTIONS', []) + [
            'verdict is "held on the executions observed"; contents and histories are sampled',
            'oracle = independent executable model in /verif/rv (stdlib only); CPython 3.12, bitarray 3.11.0, little-endian host',
        ],
        'wall_s': wall, 'violations': int(sum(m['mech_counts'][k] for k in violations)),
    }
    evdir = os.path.join(VERIF, 'evidence') if REPO == '/repo' else os.path.join(VERIF, '.scratch', 'evidence_mutants')
    os.makedirs(evdir, exist_ok=True)
    with open(os.path.join(evdir, f'{prop}.json'), 'w') as f:
        json.dump(ev, f, indent=1, default=str)

    # ---- report -----------------------------------------------------------------------------
    print(f'{prop} {tier} seed={seed}: {m["evaluations"]} evaluations, {len(m["keys"])} distinct case classes, '
          f'{m["events"]} API events, {len(m["reached"])} repo functions reached, {wall}s')
    for k, v in known.items():
        print(f'KNOWN-FINDING: property={prop} {v["entry"]["what_fails"]} [{k}; {v["count"]} cases]')
    if violations:
        for mech, path in write_replays(prop, violations, m['mech_cases']):
            d = (m['mech_cases'].get(mech) or [{}])[0].get('detail', '')
            print(f'VIOLATION property={prop} replay={path} mechanism={mech} cases={m["mech_counts"][mech]} :: {d[:200]}')
        return 1
    if reasons:
        for r in reasons[:6]:
            print(f'INCONCLUSIVE property={prop} reason={r}')
        return 2
    return 0


def do_replay(prop, path):
    from rv.core import Ctx
    with open(path) as f:
        rec = json.load(f)
    sys.path.insert(0, REPO)
    mod = load_module(prop)
    ctx = Ctx(prop, 'quick', 0)
    ctx.ambient = getattr(load_module(prop), 'AMBIENT', None)
    ctx.replaying = True
    from rv import sentinels
    if getattr(mod, 'SENTINELS', True):
        sentinels.install(ctx)
    mod.replay(ctx, rec['case'])
    known, violations = classify(prop, ctx.mech_counts, ctx.mech_cases)
    for k, v in known.items():
        print(f'KNOWN-FINDING: property={prop} {v["entry"]["what_fails"]} [{k}]')
    for mech in violations:
        d = ctx.mech_cases[mech][0]['detail']
        print(f'VIOLATION property={prop} replay={path} mechanism={mech} :: {d[:300]}')
    if not violations:
        print(f'replay of {path}: no unlisted mismatch ({ctx.evaluations} evaluations)')
    return 1 if violations else 0


if __name__ == '__main__':
    sys.exit(main(sys.argv[1:]))
