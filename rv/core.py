"""Shared run-time context for every property monitor.

A property module generates *cases* (plain JSON-serialisable data), executes them against the
real library and judges the observations with its oracle.  Everything it learns goes through a
Ctx: evaluations, distinct case keys, op / outcome histograms, tolerance hits, samples and
mismatches (each with a *mechanism key* that the parent classifies against known_findings.json).
"""
from __future__ import annotations

import collections
import contextlib
import json
import os
import random
import signal
import time


class WatchdogTimeout(BaseException):
    """Raised by the per-call alarm; never an oracle verdict (=> inconclusive)."""


def _alarm(signum, frame):
    raise WatchdogTimeout()


MAX_STORED_PER_MECH = 4
MAX_SAMPLES = 6


class Ctx:
    def __init__(self, prop: str, tier: str, seed: int, shard: int = 0, nshards: int = 1):
        self.prop, self.tier, self.seed, self.shard, self.nshards = prop, tier, seed, shard, nshards
        self.rng = random.Random(f"{prop}:{seed}:{shard}")
        self.quick = tier == 'quick'
        self.evaluations = 0
        self.events = 0
        self.keys: set = set()
        self.ops = collections.Counter()
        self.outcomes = collections.Counter()
        self.tol = collections.Counter()
        self.samples: list = []
        self._nsampled = 0
        self.mech_counts = collections.Counter()
        self.mech_cases: dict = {}
        self.states: set = set()
        self.extra: dict = {}
        self.inconclusive: list = []
        self.foreign_trips = collections.Counter()
        self.sentinel_evals = collections.Counter()
        self.exhaustive: dict = {}
        self.t0 = time.time()
        self.replaying = False
        self.ambient = None        # option names the property does not depend on (module attribute AMBIENT)
        self._amb_n = 0

    # ---- budget helpers -------------------------------------------------------------------
    def scale(self, quick: int, thorough: int) -> int:
        """Per-shard share of a tier-wide case budget."""
        n = quick if self.quick else thorough
        return max(1, n // self.nshards)

    def mine(self, i: int) -> bool:
        """Deterministic partition of an enumerated space over shards."""
        return i % self.nshards == self.shard

    # ---- observations ---------------------------------------------------------------------
    def ok(self, key=None, nontrivial: bool = True, n: int = 1) -> None:
        """n oracle comparisons were made and held; key is the canonical case-class key."""
        self.evaluations += n
        if key is not None and nontrivial:
            self.keys.add(key if isinstance(key, str) else repr(key))

    def op(self, name: str, outcome: str = 'ok') -> None:
        self.events += 1
        self.ops[name] += 1
        self.outcomes[outcome] += 1

    def tolerate(self, zone: str) -> None:
        self.tol[zone] += 1

    def state(self, *parts) -> None:
        if len(self.states) < 2_000_000:
            self.states.add(hash(parts))

    def sample(self, case) -> None:
        """Reservoir sample of concrete cases for the evidence file."""
        self._nsampled += 1
        if len(self.samples) < MAX_SAMPLES:
            self.samples.append(case)
        else:
            j = self.rng.randrange(self._nsampled)
            if j < MAX_SAMPLES:
                self.samples[j] = case

    def mismatch(self, mech: str, case, detail: str = '') -> None:
        """An observation contradicts the oracle.  mech = mechanism key (no random values)."""
        self.evaluations += 1
        self.mech_counts[mech] += 1
        lst = self.mech_cases.setdefault(mech, [])
        if len(lst) < MAX_STORED_PER_MECH:
            lst.append({'case': case, 'detail': str(detail)[:600]})

    def inconclusive_because(self, reason: str) -> None:
        if len(self.inconclusive) < 20:
            self.inconclusive.append(reason)

    # ---- watchdog -------------------------------------------------------------------------
    @contextlib.contextmanager
    def watch(self, case=None, seconds: float = 60.0):
        old = signal.signal(signal.SIGALRM, _alarm)
        signal.setitimer(signal.ITIMER_REAL, seconds)
        try:
            yield
        except WatchdogTimeout:
            self.inconclusive_because(f"watchdog fired after {seconds}s on case {json.dumps(case, default=str)[:300]}")
            try:        # keep the whole case for diagnosis (git-ignored scratch)
                d = os.path.join(os.path.dirname(os.path.dirname(os.path.abspath(__file__))), '.scratch', 'watchdog')
                os.makedirs(d, exist_ok=True)
                with open(os.path.join(d, f'{self.prop}_{self.tier}_{self.seed}_{self.shard}.json'), 'w') as f:
                    json.dump({'property': self.prop, 'case': jsonable(case)}, f)
            except Exception:  # noqa: BLE001
                pass
        finally:
            signal.setitimer(signal.ITIMER_REAL, 0)
            signal.signal(signal.SIGALRM, old)

    # ---- guarded execution -----------------------------------------------------------------
    def run_case(self, judge, case) -> None:
        """Execute one case under the watchdog.  An exception escaping the judge means the
        library raised where the harness (silent on the unchanged tree) expects no raise."""
        import traceback
        from rv import util
        self.current_case = case
        amb = None
        if self.ambient and isinstance(case, dict):
            if '_amb' in case:
                amb = case['_amb']
            else:
                self._amb_n += 1
                if self._amb_n % 4 == 0:
                    amb = {k: AMBIENT_VALUES[k] for k in self.ambient}
                    case['_amb'] = amb
        util.AMBIENT = amb or {}
        # how "on" is spelt when a judge switches lsb0 on (the option is documented as a bool; any truthy value must do the same)
        if isinstance(case, dict):
            if '_on' in case:
                util.LSB0_ON = case['_on']
            else:
                self._on_n = getattr(self, '_on_n', 0) + 1
                util.LSB0_ON = self._on_n % 5 if self._on_n % 3 == 0 else 0
                if util.LSB0_ON:
                    case['_on'] = util.LSB0_ON
        # what was done with a str operand's text before it is used (see util._str_operand)
        if isinstance(case, dict):
            if '_sh' in case:
                util.STR_HISTORY = case['_sh']
            else:
                self._sh_n = getattr(self, '_sh_n', 0) + 1
                util.STR_HISTORY = (self._sh_n // 4) % 7 if self._sh_n % 4 == 0 else 0
                if util.STR_HISTORY:
                    case['_sh'] = util.STR_HISTORY
        before = util.get_options()
        try:
            with self.watch(case):
                judge(self, case)
        except Exception as e:  # noqa: BLE001
            self.mismatch(f'harness|unexpected-exception|{type(e).__name__}', case,
                          traceback.format_exc()[-500:])
        finally:
            util.AMBIENT = {}
            if util.STR_HISTORY:
                self.ops['str-operand-text-used-before:' + ('', 'by-a-mutable-object-then-changed', 'two-tokens', 'three-tokens', 'line-breaks-inside', 'plain-group-inside', 'nested-groups')[util.STR_HISTORY]] += 1
            util.STR_HISTORY = 0
            if util.LSB0_ON:
                self.ops['lsb0-switched-on-with:' + ('True', '1', '2', "'yes'", 'numpy.bool_(True)')[util.LSB0_ON]] += 1
            util.LSB0_ON = 0
            if amb:
                util.set_options(before)
                self.ops['ambient:' + '+'.join(sorted(amb))] += 1

    # ---- serialisation --------------------------------------------------------------------
    def summary(self) -> dict:
        return {
            'shard': self.shard,
            'evaluations': self.evaluations,
            'events': self.events,
            'keys': sorted(self.keys),
            'ops': dict(self.ops),
            'outcomes': dict(self.outcomes),
            'tol': dict(self.tol),
            'samples': self.samples,
            'mech_counts': dict(self.mech_counts),
            'mech_cases': self.mech_cases,
            'states': len(self.states),
            'state_hashes': sorted(self.states)[:0],  # not shipped; count only
            'extra': self.extra,
            'inconclusive': self.inconclusive,
            'foreign_trips': dict(self.foreign_trips),
            'sentinel_evals': dict(self.sentinel_evals),
            'exhaustive': self.exhaustive,
            'wall_s': round(time.time() - self.t0, 3),
        }


AMBIENT_VALUES = {'bytealigned': True, 'mxfp_overflow': 'overflow'}


def jsonable(x):
    """Best-effort conversion of a case to JSON-serialisable data."""
    try:
        json.dumps(x)
        return x
    except TypeError:
        if isinstance(x, dict):
            return {str(k): jsonable(v) for k, v in x.items()}
        if isinstance(x, (list, tuple, set, frozenset)):
            return [jsonable(v) for v in x]
        if isinstance(x, (bytes, bytearray)):
            return {'__bytes__': bytes(x).hex()}
        if isinstance(x, slice):
            return {'__slice__': [x.start, x.stop, x.step]}
        if isinstance(x, range):
            return {'__range__': [x.start, x.stop, x.step]}
        if isinstance(x, float):
            return repr(x)
        return repr(x)
