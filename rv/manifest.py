"""Regenerate /verif/MANIFEST.json from the property modules that exist (python -m rv.manifest)."""
from __future__ import annotations

import importlib
import json
import os
import sys

VERIF = os.path.dirname(os.path.dirname(os.path.abspath(__file__)))
sys.path.insert(0, os.environ.get('VERIF_REPO_ROOT', '/repo'))

BASELINE_OFF = ("cd /repo && env -u BITSTRING_VERIF /venv/bin/python -m pytest -ra -q -p no:cacheprovider "
                "--timeout=900 --continue-on-collection-errors")

DEFAULT_NOTE = ("Trusted base: CPython 3.12 + stdlib (str/int/struct/array/fractions as the definition of the "
                "expected result), the independent models in /verif/rv/model, bitarray 3.11.0 as shipped. "
                "Held = no contradiction on the executions observed; inputs and histories are sampled except "
                "where the evidence marks a sub-space exhaustive.")


def main():
    props = [json.loads(l) for l in open(os.path.join(VERIF, 'properties.jsonl'))]
    checks, na = [], []
    for p in props:
        pid = p['id']
        path = os.path.join(VERIF, 'rv', 'props', pid.lower() + '.py')
        if not os.path.exists(path):
            na.append({'property_id': pid, 'reason': 'monitor not built yet in this round (planned in DESIGN.md section 4)'})
            continue
        mod = importlib.import_module(f'rv.props.{pid.lower()}')
        if getattr(mod, 'NOT_CLAIMED', None):
            na.append({'property_id': pid, 'reason': mod.NOT_CLAIMED})
            continue
        checks.append({
            'property_id': pid,
            'quick_cmd': f'./check {pid} quick',
            'thorough_cmd': f'./check {pid} thorough',
            'evidence_file': f'evidence/{pid}.json',
            'replay_cmd_template': f'./check {pid} --replay {{path}}',
            'engine': 'rv',
            'level_claimed': {
                'category': 'exploration',
                'text': getattr(mod, 'LEVEL_TEXT', None) or (
                    'Runtime monitoring: the real code is driven with generated, boundary-biased and adversarial '
                    'workloads while an independent executable oracle judges every observation at the public API. '
                    + getattr(mod, 'RULE', '')),
                'design_ref': f'DESIGN.md section 4, {pid}',
            },
            'level_note': getattr(mod, 'LEVEL_NOTE', DEFAULT_NOTE),
            'technique': getattr(mod, 'TECHNIQUE', 'runtime monitoring: API-boundary recorder + executable reference model (differential oracle), class-wide invariant sentinels, sys.monitoring reach tracking'),
        })
    man = {
        'version': 1,
        'setup_cmd': "/venv/bin/python -c \"import bitarray, sys; assert sys.version_info[:2] >= (3, 12); print('rv framework: pure stdlib, nothing to build')\"",
        'hooks': {
            'guard': 'BITSTRING_VERIF',
            'enable': 'no hooks in /repo: monitors are installed from the harness at run time (class-wide wrappers, sys.monitoring); the guard name is reserved and unused',
            'baseline_off_cmd': BASELINE_OFF,
            'source_commits': [],
            'add_only': True,
        },
        'engines': [{
            'name': 'rv', 'path': 'rv/',
            'serves_properties': [c['property_id'] for c in checks],
            'kind_free_text': 'pure-Python runtime-monitoring framework: sharded workload drivers, reference models, '
                              'sentinels (invariant hooks), reach tracker, known-findings classifier, evidence writer',
        }],
        'checks': checks,
        'not_applicable': na,
        'notes': 'Exit codes: 0 held, 1 violation (VIOLATION line + replay file), 2 inconclusive (INCONCLUSIVE line, never on the unchanged tree). '
                 'Known genuine defects are listed in known_findings.json and reported as KNOWN-FINDING lines.',
    }
    with open(os.path.join(VERIF, 'MANIFEST.json'), 'w') as f:
        json.dump(man, f, indent=1)
    print(f'{len(checks)} checks, {len(na)} not_applicable')


if __name__ == '__main__':
    main()
