"""List-of-items model for bitstring.Array: (items, trailing bits, dtype descriptor) with
data == concat(encode(item)) + trailing.  Values in cases are JSON-able; to_py() converts them to
what the library is handed, norm() converts what the library returns to the comparable form."""
from __future__ import annotations

import math
import sys

from rv.model import codecs as K
from rv.model.bits import Expect

NATIVE = '<' if sys.byteorder == 'little' else '>'


class DT:
    def __init__(self, spec, name, n, family, width=None, struct_code=None):
        self.spec = spec            # string handed to Array(...)
        self.name = name            # canonical dtype name for codecs
        self.n = n                  # length in units
        self.family = family        # 'uint' 'int' 'float' 'str' 'bool' 'bits' 'bytes' 'exotic'
        self.width = width if width is not None else (n * 8 if name == 'bytes' else n)
        self.struct_code = struct_code

    def enc(self, v) -> str:
        if self.family == 'exotic':
            raise KeyError('exotic values are encoded by code')
        if self.family == 'bytes':
            return K.encode('bytes', self.n, bytes.fromhex(v['b']))
        return K.encode(self.name, self.n, v)

    def dec(self, bits):
        if self.family == 'bytes':
            return {'b': K.decode('bytes', bits).hex()}
        return K.decode(self.name, bits)

    def numeric(self):
        return self.family in ('uint', 'int', 'float')

    def signed(self):
        return self.family in ('int', 'float')

    def rng_value(self, rng, valid=True, raw=False):
        """In-range (valid) or just-out-of-range / wrongly sized (invalid) JSON-able value."""
        f = self.family
        if f in ('uint', 'int'):
            lo, hi = (0, (1 << self.n) - 1) if f == 'uint' else (-(1 << (self.n - 1)), (1 << (self.n - 1)) - 1)
            if valid:
                return rng.choice([lo, hi, 0 if lo <= 0 else lo, min(1, hi), rng.randint(lo, hi), rng.randint(lo, hi)])
            return rng.choice([lo - 1, hi + 1, hi + (1 << self.n), lo - (1 << self.n)])
        if f == 'float':
            if valid:
                if raw and rng.random() < 0.08:
                    # a value the format cannot hold exactly and that lies at or beyond its range: the encoder's overflow / saturation rule applies
                    return rng.choice([1e39, -1e39, 1e300, -1e300, -7e4, 7e4, 65519.0, -65520.0, 3.4028235e38, 1e-50, -1e-50, 5e5, -5e5])
                if self.name in K.MINI:
                    # any code of the format, or a common value rounded to it
                    v = K.decode(self.name, format(rng.getrandbits(self.n), f'0{self.n}b')) if rng.random() < 0.6 else rng.choice([0.0, -0.0, 1.0, -1.5, 0.3, 6.0, -448.0, 100.0, 1e-3])
                    return K.decode(self.name, K.encode(self.name, self.n, v))
                v = K.rand_float(rng, self.n)
                # store exactly representable values so that list equality is meaningful
                return K.decode(self.name, K.encode(self.name, self.n, v))
            return 'notafloat'
        if f == 'str':
            if valid:
                return K.rand_value(rng, self.name, self.n)
            bad = K.rand_value(rng, self.name, self.n)
            return rng.choice([bad + bad[:1] if bad else '0', bad[:-1], 'g' + bad[1:] if bad else 'g'])
        if f == 'bool':
            return rng.choice([True, False]) if valid else rng.choice([2, 'maybe'])
        if f == 'bits':
            b = K.rand_value(rng, 'bin', self.n)
            return b if valid else rng.choice([b + '1', b[:-1]])
        if f == 'bytes':
            raw = bytes(rng.getrandbits(8) for _ in range(self.n if valid else self.n + 1))
            return {'b': raw.hex()}
        raise KeyError(f)


def to_py(dt: DT, v):
    if dt.family == 'bytes':
        return bytes.fromhex(v['b'])
    if dt.family == 'bits':
        import bitstring
        return bitstring.Bits(bin=v) if v else bitstring.Bits()
    return v


def norm(dt: DT, v):
    """Library return value -> comparable model value."""
    if dt.family == 'bytes' and isinstance(v, (bytes, bytearray)):
        return {'b': bytes(v).hex()}
    if dt.family == 'bits' and hasattr(v, 'bin'):
        return v.bin if len(v) else ''
    return v


def same_item(a, b) -> bool:
    if isinstance(a, float) and isinstance(b, float):
        if math.isnan(a) and math.isnan(b):
            return True
        return a == b and math.copysign(1, a) == math.copysign(1, b)
    if isinstance(a, bool) != isinstance(b, bool):
        return False
    return a == b


def same_list(a, b) -> bool:
    return len(a) == len(b) and all(same_item(x, y) for x, y in zip(a, b))


def dtypes_pool():
    pool = []
    for n in (1, 2, 3, 5, 7, 8, 9, 12, 16, 17, 31, 32, 33, 64, 65, 70):
        pool.append(DT(f'uint{n}', 'uint', n, 'uint'))
        pool.append(DT(f'int{n}' if n % 2 else f'i{n}', 'int', n, 'int'))
    for n in (8, 16, 24, 32, 64):
        pool.append(DT(f'uintle{n}', 'uintle', n, 'uint'))
        pool.append(DT(f'intbe{n}', 'intbe', n, 'int'))
        pool.append(DT(f'uintne{n}', 'uintne', n, 'uint'))
        pool.append(DT(f'intle{n}', 'intle', n, 'int'))
    pool.append(DT('int8', 'int', 8, 'int'))
    pool.append(DT('int16', 'int', 16, 'int'))
    for n in (4, 8, 12):
        pool.append(DT(f'hex{n}', 'hex', n, 'str'))
    for n in (1, 3, 9):
        pool.append(DT(f'bin{n}', 'bin', n, 'str'))
    for n in (3, 6):
        pool.append(DT(f'oct{n}', 'oct', n, 'str'))
    pool.append(DT('bool', 'bool', 1, 'bool'))
    for n in (16, 32, 64):
        pool.append(DT(f'float{n}', 'float', n, 'float'))
        pool.append(DT(f'floatle{n}', 'floatle', n, 'float'))
    pool.append(DT('floatne32', 'floatne', 32, 'float'))
    pool.append(DT('bfloat', 'bfloat', 16, 'float'))
    pool.append(DT('bfloatle', 'bfloatle', 16, 'float'))
    for nm in K.MINI:
        pool.append(DT(nm, nm, K.mf.CODECS[nm].nbits, 'float'))
    pool.append(DT('bfloatne', 'bfloatne', 16, 'float'))
    for n in (1, 5, 8):
        pool.append(DT(f'bits{n}', 'bits', n, 'bits'))
    for n in (1, 3):
        pool.append(DT(f'bytes{n}', 'bytes', n, 'bytes'))
    codes = {'b': ('int', 8), 'B': ('uint', 8), 'h': ('int', 16), 'H': ('uint', 16), 'l': ('int', 32), 'L': ('uint', 32),
             'i': ('int', 32), 'I': ('uint', 32), 'q': ('int', 64), 'Q': ('uint', 64), 'e': ('float', 16), 'f': ('float', 32), 'd': ('float', 64)}
    for prefix in '<>=@':
        for c, (kind, n) in codes.items():
            big = prefix == '>' or (prefix in '=@' and NATIVE == '>')
            if n == 8:
                name = kind
            elif kind == 'float':
                name = 'float' if big else 'floatle'
            else:
                name = kind + ('be' if big else 'le')
            pool.append(DT(prefix + c, name, n, kind, struct_code=prefix + c))
    return pool


def decode_items(dt: DT, data: str):
    w = dt.width
    k = len(data) // w
    return [dt.dec(data[i * w:(i + 1) * w]) for i in range(k)], data[k * w:]


def chunks(dt: DT, data: str):
    """(list of item bit-chunks, trailing bits) of a data string under dtype dt"""
    w = dt.width
    k = len(data) // w
    return [data[i * w:(i + 1) * w] for i in range(k)], data[k * w:]


def promote(t1: DT, t2: DT):
    """Documented promotion: floats beat ints; signed beats unsigned; longer beats shorter; tie -> first."""
    def is_float(t): return t.family == 'float'
    def is_int(t): return t.family in ('uint', 'int', 'bool')
    if is_float(t1) + is_int(t1) + is_float(t2) + is_int(t2) != 2:
        raise Expect('ValueError')
    if K.canon(t1.name) == K.canon(t2.name):
        return t1 if t1.width > t2.width else t2
    if is_float(t1) and is_int(t2):
        return t1
    if is_int(t1) and is_float(t2):
        return t2
    if is_float(t1) and is_float(t2):
        return t2 if t2.width > t1.width else t1
    s1, s2 = t1.family == 'int', t2.family == 'int'
    if s1 and not s2:
        return t1
    if s2 and not s1:
        return t2
    return t2 if t2.width > t1.width else t1
