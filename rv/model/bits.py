"""Bit model: content is a str over {'0','1'}.  Written from the documentation, independent of
the library.  Mutators are pure functions (bits, op, args) -> (bits', return value) or raise
Expect(classes[, partial]) describing the acceptable exception classes."""
from __future__ import annotations


class Expect(Exception):
    """The documented outcome is an exception of one of `classes`.
    partial: content allowed after the raise in addition to 'unchanged' (T9), or None.
    anything: any outcome is tolerated (named tolerance zone in `zone`)."""

    def __init__(self, classes, partial=None, zone=None, alt=None, anything=False):
        super().__init__(classes)
        self.classes = (classes,) if isinstance(classes, str) else tuple(classes)
        self.partial = partial
        self.zone = zone          # tolerance zone label, e.g. 'T3'
        self.alt = alt            # alternative acceptable non-raising result (bits, ret) or None
        self.anything = anything  # unspecified: any outcome accepted (state invariants still apply)


def window(start, end, L):
    s = 0 if start is None else (start + L if start < 0 else start)
    e = L if end is None else (end + L if end < 0 else end)
    if not 0 <= s <= e <= L:
        raise Expect('ValueError')
    return s, e


def occ(d: str, p: str, s: int, e: int, aligned: bool):
    """Brute-force definition: p occurs at i iff d[i:i+len(p)] == p wholly inside [s, e)."""
    n = len(p)
    out = []
    i = d.find(p, s)
    while i != -1 and i + n <= e:
        if not aligned or i % 8 == 0:
            out.append(i)
        i = d.find(p, i + 1)
    return out


def occ_quadratic(d: str, p: str, s: int, e: int, aligned: bool):
    n = len(p)
    return [i for i in range(s, e - n + 1) if d[i:i + n] == p and (not aligned or i % 8 == 0)]


def nonoverlap(points, n, count=None):
    pts = []
    for i in points:
        if not pts or i >= pts[-1] + n:
            pts.append(i)
        if count is not None and len(pts) == count:
            break
    return pts


def split_model(d, p, s, e, aligned, count):
    if count == 0:
        return []
    o = occ(d, p, s, e, aligned)
    pts = nonoverlap(o, len(p))
    if not pts:
        out = [d[s:e]]
    else:
        out = [d[s:pts[0]]]
        for a, b in zip(pts, pts[1:] + [e]):
            out.append(d[a:b])
    return out if count is None else out[:count]


def cut_model(d, bits, s, e, count):
    ch = [d[i:min(i + bits, e)] for i in range(s, e, bits)]
    return ch if count is None else ch[:count]


def inv(b: str) -> str:
    return b.translate(str.maketrans('01', '10'))


def bitop(a: str, b: str, op: str) -> str:
    f = {'and': lambda x, y: x & y, 'or': lambda x, y: x | y, 'xor': lambda x, y: x ^ y}[op]
    return ''.join(str(f(int(x), int(y))) for x, y in zip(a, b))


def bitop_int(a: str, b: str, op: str) -> str:
    n = len(a)
    if n == 0:
        return ''
    x, y = int(a, 2), int(b, 2)
    r = {'and': x & y, 'or': x | y, 'xor': x ^ y}[op] & ((1 << n) - 1)
    return format(r, f'0{n}b')


def int_bits(val: int, n: int) -> str:
    """uint for val >= 0, two's complement int for val < 0, in n bits; Expect ValueError."""
    if n <= 0:
        raise Expect('ValueError')
    if val >= 0:
        if val >= 1 << n:
            raise Expect('ValueError')
        return format(val, f'0{n}b')
    if val < -(1 << (n - 1)):
        raise Expect('ValueError')
    return format(val + (1 << n), f'0{n}b')


def byteswap_sizes(fmt, s, e):
    """Byte sizes of one pattern; Expect ValueError for negative sizes / bad strings."""
    size = {'b': 1, 'B': 1, 'h': 2, 'H': 2, 'l': 4, 'L': 4, 'i': 4, 'I': 4, 'q': 8, 'Q': 8, 'e': 2, 'f': 4, 'd': 8}
    if fmt is None or fmt == 0:
        return [(e - s) // 8]
    if isinstance(fmt, int):
        if fmt < 0:
            raise Expect('ValueError')
        return [fmt]
    if isinstance(fmt, str):
        import re
        m = re.match(r'^[<>@=]?((?:\d*[bBhHlLiIqQefd])+)$', fmt)
        if not m:
            raise Expect('ValueError')
        out = []
        for f in re.findall(r'\d*[bBhHlLiIqQefd]', m.group(1)):
            out.extend([size[f[-1]]] * (int(f[:-1]) if len(f) > 1 else 1))
        return out
    sizes = list(fmt)
    if any((not isinstance(x, int)) or x < 0 for x in sizes):
        raise Expect('ValueError')
    return sizes


def apply(m: str, op: str, a):
    """Documented effect of mutator `op` with argument tuple `a` on content m (msb0)."""
    L = len(m)
    if op in ('append', 'iadd'):
        return m + a[0], None
    if op == 'prepend':
        return a[0] + m, None
    if op == 'insert':
        bs, pos = a
        if pos < 0:
            pos += L
        bad = not 0 <= pos <= L
        if not bs:
            if bad:
                raise Expect('ValueError', zone='T2', alt=(m, None))
            return m, None
        if bad:
            raise Expect('ValueError')
        return m[:pos] + bs + m[pos:], None
    if op == 'overwrite':
        bs, pos = a
        if pos < 0:
            pos += L
        bad = not 0 <= pos <= L
        if not bs:
            if bad:
                raise Expect('ValueError', zone='T2', alt=(m, None))
            return m, None
        if bad:
            raise Expect('ValueError')
        return m[:pos] + bs + m[pos + len(bs):], None
    if op == 'delitem':
        l = list(m)
        try:
            del l[a[0]]
        except IndexError:
            raise Expect('IndexError')
        return ''.join(l), None
    if op == 'setitem_bits':
        key, val = a
        l = list(m)
        if isinstance(key, int):
            k = key + L if key < 0 else key
            if not 0 <= k < L:
                raise Expect('IndexError')
            l[k:k + 1] = list(val)
        else:
            try:
                l[key] = list(val)
            except ValueError:
                raise Expect('ValueError')
        return ''.join(l), None
    if op == 'setitem_int':
        key, val = a
        l = list(m)
        if isinstance(key, int):
            k = key + L if key < 0 else key
            if not 0 <= k < L:
                if val not in (0, 1, -1):
                    raise Expect(('IndexError', 'ValueError'), zone='T1')
                raise Expect('IndexError')
            if val == 0:
                l[k] = '0'
            elif val in (1, -1):
                l[k] = '1'
            else:
                raise Expect('ValueError')
            return ''.join(l), None
        st = key.step
        if st not in (None, 1, -1):
            if val not in (0, 1):
                raise Expect('ValueError')
            for i in range(*key.indices(L)):
                l[i] = str(val)
            return ''.join(l), None
        idx = range(*key.indices(L))
        n = len(idx)
        if st == -1:
            # T7: undocumented; list semantics for the reversed slice, or ValueError + unchanged
            try:
                bits = int_bits(val, n)
            except Expect:
                raise Expect('ValueError')
            l2 = list(m)
            l2[key] = list(bits)
            raise Expect('ValueError', zone='T7', alt=(''.join(l2), None))
        bits = int_bits(val, n)
        l[key] = list(bits)
        return ''.join(l), None
    if op == 'reverse':
        s, e = window(a[0], a[1], L)
        return m[:s] + m[s:e][::-1] + m[e:], None
    if op in ('rol', 'ror'):
        bits, st, en = a
        if L == 0:
            raise Expect('Error')
        if bits < 0:
            try:
                window(st, en, L)
            except Expect:
                raise Expect(('ValueError',), zone='T1')
            raise Expect('ValueError')
        s, e = window(st, en, L)
        if e == s:
            raise Expect(('ValueError', 'Error'), zone='T3', alt=(m, None))
        w = m[s:e]
        k = bits % len(w)
        w = w[k:] + w[:k] if op == 'rol' else (w[-k:] + w[:-k] if k else w)
        return m[:s] + w + m[e:], None
    if op == 'set':
        val, pos = a
        v = '1' if val else '0'
        if pos is None:
            if L == 0:
                raise Expect('ValueError', zone='T4', alt=(m, None))
            return v * L, None
        l = list(m)
        if isinstance(pos, int):
            pos = [pos]
        for p in pos:
            k = p + L if p < 0 else p
            if not 0 <= k < L:
                raise Expect('IndexError', partial=''.join(l), zone='T9')
            l[k] = v
        return ''.join(l), None
    if op == 'invert':
        pos = a[0]
        if pos is None:
            return inv(m), None
        l = list(m)
        if isinstance(pos, int):
            pos = [pos]
        for p in pos:
            k = p + L if p < 0 else p
            if not 0 <= k < L:
                raise Expect('IndexError', partial=''.join(l), zone='T9')
            l[k] = '1' if l[k] == '0' else '0'
        return ''.join(l), None
    if op in ('ilshift', 'irshift'):
        n = a[0]
        if n < 0 or L == 0:
            raise Expect('ValueError')
        n = min(n, L)
        return (m[n:] + '0' * n if op == 'ilshift' else '0' * n + m[:L - n]), None
    if op == 'imul':
        n = a[0]
        if n < 0:
            raise Expect('ValueError')
        return m * n, None
    if op in ('iand', 'ior', 'ixor'):
        o = a[0]
        if len(o) != L:
            raise Expect('ValueError')
        return bitop(m, o, op[1:]), None
    if op == 'clear':
        return '', None
    if op == 'replace':
        old, new, st, en, count, ba = a
        if count == 0:
            # the library returns 0 before looking at anything else; with other invalid
            # arguments present either outcome is justified (T1)
            bad = (not old)
            try:
                window(st, en, L)
            except Expect:
                bad = True
            if bad:
                raise Expect('ValueError', zone='T1', alt=(m, 0))
            return m, 0
        if not old:
            raise Expect('ValueError')
        s, e = window(st, en, L)
        if count is not None and count < 0:
            pts = nonoverlap(occ(m, old, s, e, bool(ba)), len(old))
            out, prev = [], 0
            for p in pts:
                out.append(m[prev:p])
                out.append(new)
                prev = p + len(old)
            out.append(m[prev:])
            raise Expect('ValueError', zone='T5', alt=(''.join(out), len(pts)))
        pts = nonoverlap(occ(m, old, s, e, bool(ba)), len(old), count)
        out, prev = [], 0
        for p in pts:
            out.append(m[prev:p])
            out.append(new)
            prev = p + len(old)
        out.append(m[prev:])
        return ''.join(out), len(pts)
    if op == 'byteswap':
        fmt, st, en, rep = a
        try:
            s, e = window(st, en, L)
        except Expect:
            try:
                byteswap_sizes(fmt, 0, 0)
            except Expect:
                raise Expect('ValueError', zone='T1')
            raise
        sizes = byteswap_sizes(fmt, s, e)
        tot = 8 * sum(sizes)
        if tot == 0:
            return m, 0
        out, reps, p = [m[:s]], 0, s          # (pieces are collected and joined once: linear in the length)
        while p + tot <= e:
            q = p
            for z in sizes:
                chunk = m[q:q + 8 * z]
                out.append(''.join([chunk[i:i + 8] for i in range(0, len(chunk), 8)][::-1]))
                q += 8 * z
            reps += 1
            p += tot
            if not rep:
                break
        out.append(m[p:])
        return ''.join(out), reps
    raise KeyError(op)


LENGTH_CHANGING = {'append', 'iadd', 'prepend', 'insert', 'delitem', 'setitem_bits', 'imul', 'clear', 'replace', 'overwrite'}


# ---- LSB0 mirror --------------------------------------------------------------------------------
def rev(b: str) -> str:
    return b[::-1]


MIRROR_OPERAND_ARGS = {
    'append': (0,), 'iadd': (0,), 'prepend': (0,), 'insert': (0,), 'overwrite': (0,),
    'setitem_bits': (1,), 'iand': (0,), 'ior': (0,), 'ixor': (0,), 'replace': (0, 1),
}


def apply_lsb0(m: str, op: str, a):
    """mirror(op)(x, args) = rev(op_msb0(rev(x), rev(bit operands), same positions)).
    Shifts and rotations keep their direction relative to the MSB end; only [start,end) mirrors."""
    L = len(m)
    if op in ('rol', 'ror'):
        bits, st, en = a
        if L == 0:
            raise Expect('Error')
        if bits < 0:
            raise Expect('ValueError', zone='T1')
        s, e = window(st, en, L)
        if e == s:
            raise Expect(('ValueError', 'Error'), zone='T3', alt=(m, None))
        ms, me = L - e, L - s
        return apply(m, op, (bits, ms, me))
    if op in ('ilshift', 'irshift', 'imul', 'clear', 'iand', 'ior', 'ixor'):
        return apply(m, op, a)
    if op == 'setitem_int':
        key, val = a
        if isinstance(key, slice) and key.step == -1:
            raise Expect('ValueError', zone='T7', anything=True)
        if isinstance(key, slice) and key.step in (None, 1):
            # the integer is a whole-value interpretation: written MSB-first into the mirrored slice
            idx = range(*key.indices(L))
            n = len(idx)
            bits = int_bits(val, n)
            l = list(rev(m))
            l[key] = list(rev(bits))
            return rev(''.join(l)), None
    a2 = list(a)
    for i in MIRROR_OPERAND_ARGS.get(op, ()):
        a2[i] = rev(a2[i])
    try:
        nm, ret = apply(rev(m), op, tuple(a2))
    except Expect as ex:
        if ex.partial is not None:
            ex.partial = rev(ex.partial)
        if ex.alt is not None:
            ex.alt = (rev(ex.alt[0]), ex.alt[1])
        raise
    return rev(nm), ret
