"""Canonical encoders / decoders written from the definitions (DESIGN section 3), independent of the
library: two's complement via format(), byte reversal for little-endian, sys.byteorder for
native, struct as the *definition* of IEEE 754, H.264 / Dirac exp-Golomb."""
from __future__ import annotations

import math
import struct
import sys

from rv.model.bits import Expect
from rv.model import minifloat as mf

# the small float formats (their codes are modelled in rv.model.minifloat, which C11 checks code by code)
MINI = ('e4m3mxfp', 'e5m2mxfp', 'e3m2mxfp', 'e2m3mxfp', 'e2m1mxfp', 'p4binary', 'p3binary')


NATIVE_LE = sys.byteorder == 'little'

ALIASES = {'u': 'uint', 'i': 'int', 'h': 'hex', 'o': 'oct', 'b': 'bin', 'f': 'float', 'floatbe': 'float',
           'bfloatbe': 'bfloat',
           'uintne': 'uintle' if NATIVE_LE else 'uintbe', 'intne': 'intle' if NATIVE_LE else 'intbe',
           'floatne': 'floatle' if NATIVE_LE else 'float', 'bfloatne': 'bfloatle' if NATIVE_LE else 'bfloat'}

VARIABLE = ('ue', 'se', 'uie', 'sie')
FIXED_INT = ('uint', 'int', 'uintbe', 'intbe', 'uintle', 'intle')
FLOATS = ('float', 'floatle')


def canon(name: str) -> str:
    return ALIASES.get(name, name)


def valid_length(name: str, n) -> bool:
    """n in *bits* (for bytes: n is a byte count and any n >= 0 is fine)."""
    name = canon(name)
    if name in VARIABLE:
        return n is None
    if n is None:
        return name in ('bool', 'bfloat', 'bfloatle') or name in MINI
    if n < 0:
        return False
    if name in ('uint', 'int'):
        return n >= 1
    if name in ('uintbe', 'intbe', 'uintle', 'intle'):
        return n >= 8 and n % 8 == 0
    if name == 'hex':
        return n % 4 == 0
    if name == 'oct':
        return n % 3 == 0
    if name in ('bin', 'bits', 'pad', 'bytes'):
        return True
    if name in FLOATS:
        return n in (16, 32, 64)
    if name == 'bool':
        return n == 1
    if name in ('bfloat', 'bfloatle'):
        return n == 16
    if name in MINI:
        return n == mf.CODECS[name].nbits
    return False


def bytes_rev(bits: str) -> str:
    return ''.join(reversed([bits[i:i + 8] for i in range(0, len(bits), 8)]))


def int_to_bits(v: int, n: int, signed: bool) -> str:
    if signed:
        if not -(1 << (n - 1)) <= v < (1 << (n - 1)):
            raise Expect('ValueError')
        return format(v & ((1 << n) - 1), f'0{n}b')
    if not 0 <= v < (1 << n):
        raise Expect('ValueError')
    return format(v, f'0{n}b')


def bits_to_int(b: str, signed: bool) -> int:
    v = int(b, 2)
    if signed and b[0] == '1':
        v -= 1 << len(b)
    return v


def float_to_bits(f: float, n: int, big: bool = True) -> str:
    code = {16: 'e', 32: 'f', 64: 'd'}[n]
    try:
        raw = struct.pack('>' + code, f)
    except OverflowError:
        raw = struct.pack('>' + code, math.inf if f > 0 else -math.inf)
    if not big:
        raw = raw[::-1]
    return format(int.from_bytes(raw, 'big'), f'0{n}b')


def bits_to_float(b: str, big: bool = True) -> float:
    n = len(b)
    raw = int(b, 2).to_bytes(n // 8, 'big')
    if not big:
        raw = raw[::-1]
    return struct.unpack('>' + {16: 'e', 32: 'f', 64: 'd'}[n], raw)[0]


def bfloat_to_bits(f: float, big: bool = True) -> str:
    b32 = float_to_bits(f, 32, True)
    b = b32[:16]
    return b if big else bytes_rev(b)


def bits_to_bfloat(b: str, big: bool = True) -> float:
    if not big:
        b = bytes_rev(b)
    return bits_to_float(b + '0' * 16, True)


# ---- exp-Golomb ---------------------------------------------------------------------------------
def ue_encode(k: int) -> str:
    if k < 0:
        raise Expect('ValueError')
    x = bin(k + 1)[2:]
    return '0' * (len(x) - 1) + x


def se_encode(v: int) -> str:
    return ue_encode(2 * v - 1 if v > 0 else -2 * v)


def uie_encode(v: int) -> str:
    if v < 0:
        raise Expect('ValueError')
    x = bin(v + 1)[3:]              # bits after the leading one
    return ''.join('0' + c for c in x) + '1'


def sie_encode(v: int) -> str:
    if v == 0:
        return '1'
    return uie_encode(abs(v)) + ('1' if v < 0 else '0')


class Truncated(Exception):
    pass


def ue_decode(b: str, pos: int = 0):
    """(value, width) of the codeword starting at pos; Truncated if the data ends inside it."""
    z = 0
    n = len(b)
    while pos + z < n and b[pos + z] == '0':
        z += 1
    if pos + z >= n:
        raise Truncated
    if pos + 2 * z + 1 > n:
        raise Truncated
    val = int(b[pos + z:pos + 2 * z + 1], 2) - 1
    return val, 2 * z + 1


def se_decode(b: str, pos: int = 0):
    k, w = ue_decode(b, pos)
    m = (k + 1) // 2
    return (m if k % 2 else -m), w


def uie_decode(b: str, pos: int = 0):
    n = len(b)
    p = pos
    x = 1
    while True:
        if p >= n:
            raise Truncated
        if b[p] == '1':
            p += 1
            break
        if p + 1 >= n:
            raise Truncated
        x = (x << 1) | int(b[p + 1])
        p += 2
    return x - 1, p - pos


def sie_decode(b: str, pos: int = 0):
    v, w = uie_decode(b, pos)
    if v == 0:
        return 0, w
    if pos + w >= len(b):
        raise Truncated
    return (-v if b[pos + w] == '1' else v), w + 1


GOLOMB_ENC = {'ue': ue_encode, 'se': se_encode, 'uie': uie_encode, 'sie': sie_encode}
GOLOMB_DEC = {'ue': ue_decode, 'se': se_decode, 'uie': uie_decode, 'sie': sie_decode}


# ---- generic --------------------------------------------------------------------------------
def encode(name: str, n, value) -> str:
    """Canonical bits of (dtype, length n, value).  n is in bits except for 'bytes' (byte count).
    Raises Expect('ValueError') for anything the statement of C15 calls invalid."""
    name = canon(name)
    if name in MINI:
        import bitstring
        cd = mf.CODECS[name]
        if n not in (None, cd.nbits) or isinstance(value, (str, bytes)) or value is None:
            raise Expect('ValueError')
        code = cd.encode(float(value), bitstring.options.mxfp_overflow)
        if code is None:
            raise Expect('ValueError')
        return format(code, f'0{cd.nbits}b')
    if name in VARIABLE:
        if n is not None:
            raise Expect('ValueError')
        return GOLOMB_ENC[name](int(value))
    if name == 'bool':
        if n not in (None, 1):
            raise Expect('ValueError')
        if value in (1, True, '1', 'True'):
            return '1'
        if value in (0, False, '0', 'False'):
            return '0'
        raise Expect('ValueError')
    if name in ('bfloat', 'bfloatle'):
        if n not in (None, 16):
            raise Expect('ValueError')
        return bfloat_to_bits(float(value), name == 'bfloat')
    if n is None or not valid_length(name, n):
        raise Expect('ValueError')
    if name in ('uint', 'uintbe'):
        return int_to_bits(int(value), n, False)
    if name in ('int', 'intbe'):
        return int_to_bits(int(value), n, True)
    if name == 'uintle':
        return bytes_rev(int_to_bits(int(value), n, False))
    if name == 'intle':
        return bytes_rev(int_to_bits(int(value), n, True))
    if name == 'float':
        return float_to_bits(float(value), n, True)
    if name == 'floatle':
        return float_to_bits(float(value), n, False)
    if name == 'hex':
        v = tidy(value, '0x')
        if any(c not in '0123456789abcdef' for c in v) or 4 * len(v) != n:
            raise Expect('ValueError')
        return ''.join(format(int(c, 16), '04b') for c in v)
    if name == 'oct':
        v = tidy(value, '0o')
        if any(c not in '01234567' for c in v) or 3 * len(v) != n:
            raise Expect('ValueError')
        return ''.join(format(int(c, 8), '03b') for c in v)
    if name == 'bin':
        v = tidy(value, '0b')
        if any(c not in '01' for c in v) or len(v) != n:
            raise Expect('ValueError')
        return v
    if name == 'bytes':
        raw = bytes(value)
        if len(raw) != n:
            raise Expect('ValueError')
        return ''.join(format(x, '08b') for x in raw)
    if name == 'bits':
        if len(value) != n:
            raise Expect('ValueError')
        return value
    if name == 'pad':
        return '0' * n
    raise KeyError(name)


def tidy(s: str, prefix: str) -> str:
    return ''.join(s.split()).lower().replace('_', '').replace(prefix, '')


def decode(name: str, bits: str):
    """Value of a whole bit string under a fixed-length interpretation (caller ensures validity)."""
    name = canon(name)
    if name in MINI:
        return mf.to_float(mf.CODECS[name].decode(int(bits, 2)))
    if name in ('uint', 'uintbe'):
        return bits_to_int(bits, False)
    if name in ('int', 'intbe'):
        return bits_to_int(bits, True)
    if name == 'uintle':
        return bits_to_int(bytes_rev(bits), False)
    if name == 'intle':
        return bits_to_int(bytes_rev(bits), True)
    if name == 'float':
        return bits_to_float(bits, True)
    if name == 'floatle':
        return bits_to_float(bits, False)
    if name == 'bfloat':
        return bits_to_bfloat(bits, True)
    if name == 'bfloatle':
        return bits_to_bfloat(bits, False)
    if name == 'hex':
        return ''.join(format(int(bits[i:i + 4], 2), 'x') for i in range(0, len(bits), 4))
    if name == 'oct':
        return ''.join(format(int(bits[i:i + 3], 2), 'o') for i in range(0, len(bits), 3))
    if name == 'bin':
        return bits
    if name == 'bytes':
        return int(bits, 2).to_bytes(len(bits) // 8, 'big') if bits else b''
    if name == 'bool':
        return bits == '1'
    if name == 'bits':
        return bits
    if name == 'pad':
        return None
    if name in VARIABLE:
        v, w = GOLOMB_DEC[name](bits, 0)
        if w != len(bits):
            raise Expect('ValueError')
        return v
    raise KeyError(name)


def same_value(a, b) -> bool:
    """T11/T12: numeric equality; NaN equals NaN; Bits compared through their bin."""
    if isinstance(a, float) and isinstance(b, float) and math.isnan(a) and math.isnan(b):
        return True
    if hasattr(a, 'bin') and hasattr(a, '__len__') and not isinstance(a, (str, bytes)):
        a = a.bin if len(a) else ''
    if hasattr(b, 'bin') and hasattr(b, '__len__') and not isinstance(b, (str, bytes)):
        b = b.bin if len(b) else ''
    if isinstance(a, bool) != isinstance(b, bool) and (isinstance(a, bool) or isinstance(b, bool)):
        return a == b and {type(a), type(b)} <= {bool, int}
    return a == b


def _big_golomb(rng):
    """Integers beyond what a double holds exactly, and just below powers of two (where float logarithms round up)."""
    k = rng.choice([49, 53, 54, 63, 64, 65, 100])
    return rng.choice([(1 << 53) + 1, (1 << k) - 2, (1 << k) - 1, (1 << k), (1 << k) + 1, rng.getrandbits(70) | (1 << 69) | 1])


def rand_value(rng, name: str, n: int):
    """A boundary-biased in-range value for (dtype, n)."""
    name = canon(name)
    if name in ('uint', 'uintbe', 'uintle'):
        hi = (1 << n) - 1
        return rng.choice([0, 1, hi, hi - 1 if hi else 0, 1 << (n - 1), (1 << (n - 1)) - 1 if n > 1 else 0, rng.getrandbits(n), rng.getrandbits(n)])
    if name in ('int', 'intbe', 'intle'):
        lo, hi = -(1 << (n - 1)), (1 << (n - 1)) - 1
        return rng.choice([0, -1, 1 if hi >= 1 else 0, lo, hi, lo + 1 if n > 1 else lo, hi - 1 if hi > 0 else hi, rng.getrandbits(n) + lo, rng.getrandbits(n) + lo])
    if name in ('float', 'floatle'):
        return rand_float(rng, n)
    if name in ('bfloat', 'bfloatle'):
        return rand_float(rng, 32)
    if name == 'hex':
        return ''.join(rng.choice('0123456789abcdef') for _ in range(n // 4))
    if name == 'oct':
        return ''.join(rng.choice('01234567') for _ in range(n // 3))
    if name == 'bin':
        return format(rng.getrandbits(n), f'0{n}b') if n else ''
    if name == 'bytes':
        return bytes(rng.getrandbits(8) for _ in range(n))
    if name == 'bool':
        return rng.choice([True, False])
    if name == 'bits':
        return format(rng.getrandbits(n), f'0{n}b') if n else ''
    if name in ('ue', 'uie'):
        return rng.choice([0, 1, 2, 3, 6, 7, 8, 255, 256, rng.getrandbits(rng.choice([4, 12, 40])), _big_golomb(rng)])
    if name in ('se', 'sie'):
        return rng.choice([0, 1, -1, 2, -2, 7, -8, 255, -256, rng.getrandbits(rng.choice([4, 12, 40])) - (1 << 11), _big_golomb(rng) * rng.choice([1, -1])])
    raise KeyError(name)


def float_boundaries(n: int):
    """Inputs around every place where the rounding to an n-bit IEEE format changes regime: the largest finite value, the
    overflow threshold (max + half an ulp: below it rounds to max, at/above to inf), the smallest subnormal and its half,
    the smallest normal, and a few mantissa ties."""
    p, emax = {16: (11, 15), 32: (24, 127), 64: (53, 1023)}[n]
    fmax = (2.0 - 2.0 ** (1 - p)) * 2.0 ** emax
    out = []
    if n < 64:
        thr = fmax + 2.0 ** (emax - p)              # first value that rounds to infinity (tie goes to even = inf)
        for v in (fmax, thr, math.nextafter(thr, 0.0), math.nextafter(thr, math.inf), (fmax + thr) / 2, math.nextafter(fmax, math.inf),
                  fmax * 1.0000001, thr * 1.001, 2.0 ** (emax + 1)):
            out += [v, -v]
    tiny = 2.0 ** (2 - emax - p)                    # smallest subnormal
    for v in (tiny, tiny / 2, math.nextafter(tiny / 2, 1.0), math.nextafter(tiny / 2, 0.0), tiny * 1.5, tiny * 2.5, 2.0 ** (1 - emax),
              math.nextafter(2.0 ** (1 - emax), 0.0)):
        if v > 0:
            out += [v, -v]
    for m in (1.0, 1.5, 1000.0):
        ulp = 2.0 ** (math.floor(math.log2(m)) + 1 - p)
        out += [m + ulp / 2, m + 3 * ulp / 2, math.nextafter(m + ulp / 2, math.inf), math.nextafter(m + ulp / 2, 0.0)]
    return out


_FB = {}


def rand_float(rng, n: int) -> float:
    if rng.random() < 0.25:
        if n not in _FB:
            _FB[n] = float_boundaries(n)
        return rng.choice(_FB[n])
    specials = [0.0, -0.0, 1.0, -1.0, 0.5, 1.5, math.inf, -math.inf, math.nan, 65504.0, 65520.0, 1e-8, 5.96e-8,
                6.1e-5, 3.4028234663852886e38, 1e39, 1.17549435e-38, 1e-45, 1.7976931348623157e308, 5e-324,
                2.2250738585072014e-308, 0.1, 1 / 3, -2.75, 1e300, 123456.789]
    if rng.random() < 0.6:
        return rng.choice(specials)
    raw = rng.getrandbits(n).to_bytes(n // 8, 'big')
    return struct.unpack('>' + {16: 'e', 32: 'f', 64: 'd'}[n], raw)[0]
