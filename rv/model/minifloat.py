"""Exact-rational models of the small floating point formats (property C11).

Everything here is written from the *format definitions* (sign / biased exponent / mantissa /
subnormals / specials, as given in doc/exotic_floats.rst, the IEEE P3109 draft and the OCP MX v1.0
specification) with ``fractions.Fraction`` arithmetic.  Nothing is taken from the library's
lookup tables, and no binary floating point arithmetic takes part in a rounding decision.

A *value* is one of
    ('nan',)                      not a number
    ('inf', sign)                 sign 0 => +inf, 1 => -inf
    ('fin', sign, Fraction)       sign 0/1 (so that -0 is representable), magnitude >= 0
"""
from __future__ import annotations

import math
from fractions import Fraction as F

NAN = ('nan',)


def inf(sign: int):
    return ('inf', sign)


def fin(sign: int, mag):
    return ('fin', sign, F(mag))


# ---- python float <-> value -------------------------------------------------------------------
def from_float(x: float):
    """Exact value of a Python float."""
    x = float(x)
    if math.isnan(x):
        return NAN
    sign = 1 if math.copysign(1.0, x) < 0 else 0
    if math.isinf(x):
        return inf(sign)
    return fin(sign, F(abs(x)))


def to_float(v) -> float:
    """The Python float with exactly this value (the magnitude must be a binary64 number)."""
    if v[0] == 'nan':
        return math.nan
    if v[0] == 'inf':
        return -math.inf if v[1] else math.inf
    f = v[2].numerator / v[2].denominator
    assert F(f) == v[2], 'value is not a binary64 number'
    return -f if v[1] else f


def same(v, got) -> bool:
    """Does the Python float `got` have exactly the value v (sign of zero, which inf, NaN)?"""
    if not isinstance(got, float):
        return False
    if v[0] == 'nan':
        return math.isnan(got)
    if math.isnan(got):
        return False
    neg = math.copysign(1.0, got) < 0
    if v[0] == 'inf':
        return math.isinf(got) and neg == bool(v[1])
    return (not math.isinf(got)) and neg == bool(v[1]) and F(abs(got)) == v[2]


# ---- exact rounding ------------------------------------------------------------------------------
def floor_log2(x: F) -> int:
    """Largest e with 2**e <= x, for x > 0 (integer arithmetic on numerator / denominator)."""
    n, d = x.numerator, x.denominator
    e = n.bit_length() - d.bit_length()          # 2**(e-1) < n/d < 2**(e+1)
    if (n >= d << e) if e >= 0 else (n << -e >= d):
        return e
    return e - 1


def _half_even(num: int, den: int) -> int:
    """Nearest integer to num/den (den > 0), ties to the even integer."""
    fl, rem = divmod(num, den)
    if 2 * rem > den or (2 * rem == den and fl % 2 == 1):
        fl += 1
    return fl


def round_half_even(q: F) -> int:
    """Nearest integer to the rational q, ties to the even integer."""
    return _half_even(q.numerator, q.denominator)


def rne(x: F, mbits: int, emin: int) -> F:
    """x > 0 rounded to the nearest number with `mbits` explicit mantissa bits, smallest normal
    exponent `emin` (below it the spacing stays 2**(emin-mbits): subnormals), exponent unbounded
    above, ties to the even significand."""
    q = max(floor_log2(x), emin) - mbits          # the spacing (quantum) is 2**q
    n, d = x.numerator, x.denominator
    k = _half_even(n, d << q) if q >= 0 else _half_even(n << -q, d)
    return F(k << q) if q >= 0 else F(k, 1 << -q)


def round_ieee(v, ebits: int, mbits: int):
    """Round a value to the IEEE-754 interchange format with the given field widths
    (round to nearest even, overflow to infinity)."""
    if v[0] != 'fin':
        return v
    sign, x = v[1], v[2]
    if x == 0:
        return v
    bias = (1 << (ebits - 1)) - 1
    r = rne(x, mbits, 1 - bias)
    if r >= F(2) ** (bias + 1):
        return inf(sign)
    return fin(sign, r)


def round_binary16(v):
    return round_ieee(v, 5, 10)


def round_binary32(v):
    return round_ieee(v, 8, 23)


# ---- sign / exponent / mantissa formats --------------------------------------------------------------
class Format:
    """kind:
        'ieee'   exponent all ones: mantissa 0 => inf, else NaN (binary16, bfloat, OCP E5M2)
        'p3109'  IEEE P3109 draft binary8: single zero, 0x80 = NaN, 0x7f / 0xff = +-inf
        'e4m3'   OCP E4M3: no inf, S.1111.111 = NaN, signed zero
        'plain'  OCP E3M2 / E2M3 / E2M1: no specials, signed zero
    overflow (what 'out of range after rounding' and infinite inputs map to, from
    doc/exotic_floats.rst "Conversion"):
        'inf'    -> +-inf                        (p3109)
        'sat'    -> largest finite, always        (plain)
        'mode'   -> per mxfp_overflow: 'saturate' => largest finite;
                    'overflow' => +-inf when the format has infinities (e5m2), else NaN (e4m3)
    """

    def __init__(self, name: str, ebits: int, mbits: int, bias: int, kind: str, overflow: str):
        self.name, self.E, self.M, self.bias, self.kind, self.overflow = name, ebits, mbits, bias, kind, overflow
        self.nbits = 1 + ebits + mbits
        self.ncodes = 1 << self.nbits
        self.top = 1 << (self.nbits - 1)
        self.mode_sensitive = overflow == 'mode'
        self.nan_codes = frozenset(c for c in range(self.ncodes) if self.decode(c)[0] == 'nan')
        self.has_nan = bool(self.nan_codes)
        self._code_of = {}
        for c in range(self.top):
            d = self.decode(c)
            if d[0] == 'fin':
                assert d[2] not in self._code_of, 'two non-negative codes with one value'
                self._code_of[d[2]] = c
        self.max_finite = max(self._code_of)
        self.min_positive = min(m for m in self._code_of if m > 0)

    # -- code -> value
    def decode(self, c: int):
        sign = c >> (self.nbits - 1)
        e = (c >> self.M) & ((1 << self.E) - 1)
        m = c & ((1 << self.M) - 1)
        mag_bits = c & (self.top - 1)
        emax_field = (1 << self.E) - 1
        k = self.kind
        if k == 'p3109':
            if c == self.top:
                return NAN
            if mag_bits == self.top - 1:
                return inf(sign)
        elif k == 'e4m3':
            if mag_bits == self.top - 1:
                return NAN
        elif k == 'ieee':
            if e == emax_field:
                return inf(sign) if m == 0 else NAN
        if e == 0:
            mag = F(m, 1 << self.M) * F(2) ** (1 - self.bias)
        else:
            mag = (1 + F(m, 1 << self.M)) * F(2) ** (e - self.bias)
        return fin(sign, mag)

    def finite_magnitudes(self):
        """Ascending list of the representable non-negative magnitudes."""
        return sorted(self._code_of)

    # -- value -> code
    def _zero(self, sign: int) -> int:
        return 0 if self.kind == 'p3109' else sign * self.top

    def _inf_code(self, sign: int) -> int:
        return {'p3109': self.top - 1, 'ieee': ((1 << self.E) - 1) << self.M}[self.kind] | (sign * self.top)

    def canonical_nan(self) -> int:
        return self.top if self.kind == 'p3109' else self.ncodes - 1

    def _overflow(self, sign: int, mode: str) -> int:
        sat = self._code_of[self.max_finite] | (sign * self.top)
        if self.overflow == 'inf':
            return self._inf_code(sign)
        if self.overflow == 'sat':
            return sat
        if mode == 'saturate':
            return sat
        if self.kind == 'ieee':
            return self._inf_code(sign)
        return self.canonical_nan()

    def encode_value(self, v, mode: str = 'saturate'):
        """Code of the representable value nearest to the exact value v (ties to even), or None when
        the format cannot hold it at all (NaN into a format without NaN => ValueError)."""
        if v[0] == 'nan':
            return self.canonical_nan() if self.has_nan else None
        if v[0] == 'inf':
            return self._overflow(v[1], mode)
        sign, x = v[1], v[2]
        if x == 0:
            return self._zero(sign)
        r = rne(x, self.M, 1 - self.bias)
        if r > self.max_finite:
            return self._overflow(sign, mode)
        if r == 0:
            return self._zero(sign)
        return self._code_of[r] | (sign * self.top)

    def encode(self, x: float, mode: str = 'saturate'):
        """The statement of C11: nearest representable value to the float's binary16 rounding."""
        return self.encode_value(round_binary16(from_float(x)), mode)

    def acceptable(self, expected, got) -> bool:
        """Codes agree; any NaN code of the format is as good as another (payload is not specified)."""
        if expected is None or got is None:
            return expected is got
        return expected == got or (expected in self.nan_codes and got in self.nan_codes)


BINARY16 = Format('binary16', 5, 10, 15, 'ieee', 'inf')
BFLOAT = Format('bfloat', 8, 7, 127, 'ieee', 'inf')

P4BINARY = Format('p4binary', 4, 3, 8, 'p3109', 'inf')
P3BINARY = Format('p3binary', 5, 2, 16, 'p3109', 'inf')
E4M3 = Format('e4m3mxfp', 4, 3, 7, 'e4m3', 'mode')
E5M2 = Format('e5m2mxfp', 5, 2, 15, 'ieee', 'mode')
E3M2 = Format('e3m2mxfp', 3, 2, 3, 'plain', 'sat')
E2M3 = Format('e2m3mxfp', 2, 3, 1, 'plain', 'sat')
E2M1 = Format('e2m1mxfp', 2, 1, 1, 'plain', 'sat')

MINIFLOATS = {f.name: f for f in (P3BINARY, P4BINARY, E5M2, E4M3, E3M2, E2M3, E2M1)}


# ---- bfloat: float32 (round to nearest even, overflow to inf) truncated to its upper 16 bits -------------
def binary32_bits(v) -> int:
    """Bit pattern of a value that is already a binary32 number."""
    if v[0] == 'nan':
        return 0x7fc00000
    if v[0] == 'inf':
        return (v[1] << 31) | 0x7f800000
    sign, x = v[1], v[2]
    if x == 0:
        return sign << 31
    e = floor_log2(x)
    if e < -126:
        ef, mant = 0, x / F(2) ** -149
    else:
        ef, mant = e + 127, (x / F(2) ** e - 1) * (1 << 23)
    assert mant.denominator == 1 and 0 <= mant < (1 << 23) and 0 <= ef < 255, 'not a binary32 number'
    return (sign << 31) | (ef << 23) | int(mant)


def bfloat_encode(x: float) -> int:
    """16-bit big-endian code."""
    return binary32_bits(round_binary32(from_float(x))) >> 16


def bfloat_acceptable(expected: int, got: int) -> bool:
    return expected == got or (expected in BFLOAT.nan_codes and got in BFLOAT.nan_codes)


def swap16(c: int) -> int:
    return ((c & 0xff) << 8) | (c >> 8)


# ---- E8M0: unsigned exponent-only scale format ------------------------------------------------------
def e8m0_decode(c: int):
    return NAN if c == 0xff else fin(0, F(2) ** (c - 127))


def e8m0_encode(x: float):
    """Exact powers of two 2**-127 .. 2**127 only; NaN <-> 0xff; anything else None (ValueError)."""
    v = from_float(x)
    if v[0] == 'nan':
        return 0xff
    if v[0] != 'fin' or v[1] or v[2] == 0:
        return None
    k = floor_log2(v[2])
    if F(2) ** k != v[2] or not -127 <= k <= 127:
        return None
    return k + 127


# ---- MXINT8: two's complement integer with an implicit scale of 2**-6 -------------------------------------
def mxint_decode(c: int):
    i = c - 256 if c & 0x80 else c
    return fin(1 if i < 0 else 0, F(abs(i), 64))


def mxint_encode(x: float):
    """Nearest-even of 64x directly (no binary16 step), saturated to [-128, 127]; NaN None."""
    v = from_float(x)
    if v[0] == 'nan':
        return None
    if v[0] == 'inf':
        i = -128 if v[1] else 127
    else:
        i = round_half_even(-v[2] * 64 if v[1] else v[2] * 64)
        i = max(-128, min(127, i))
    return i & 0xff


# ---- generic access by dtype name --------------------------------------------------------------------
class Codec:
    """Uniform view used by the C11 monitor: nbits, decode(code) -> value, encode(float, mode) -> code|None."""

    def __init__(self, name, nbits, decode, encode, acceptable, mode_sensitive=False, little=False):
        self.name, self.nbits, self.decode, self.encode = name, nbits, decode, encode
        self.acceptable, self.mode_sensitive, self.little = acceptable, mode_sensitive, little
        self.ncodes = 1 << nbits


def _plain_ok(e, g):
    return e == g


def _mk_minifloat(fm: Format) -> Codec:
    return Codec(fm.name, fm.nbits, fm.decode, fm.encode, fm.acceptable, fm.mode_sensitive)


CODECS = {name: _mk_minifloat(fm) for name, fm in MINIFLOATS.items()}
CODECS['e8m0mxfp'] = Codec('e8m0mxfp', 8, e8m0_decode, lambda x, mode='saturate': e8m0_encode(x), _plain_ok)
CODECS['mxint'] = Codec('mxint', 8, mxint_decode, lambda x, mode='saturate': mxint_encode(x), _plain_ok)
CODECS['bfloat'] = Codec('bfloat', 16, BFLOAT.decode, lambda x, mode='saturate': bfloat_encode(x), bfloat_acceptable)
CODECS['bfloatle'] = Codec('bfloatle', 16, lambda c: BFLOAT.decode(swap16(c)),
                           lambda x, mode='saturate': swap16(bfloat_encode(x)),
                           lambda e, g: bfloat_acceptable(swap16(e), swap16(g)), little=True)
