"""Independent reader of bitstring's printable forms (C19).

* ``read_literal``  - reads the str() form ('0x1f, 0b101') back into a '0'/'1' string without
  using the library.
* ``verify``        - parses the text written by ``Bits.pp`` / ``Array.pp`` for the bin/hex/oct
  formats (header, body lines with optional offset column, one or two format columns separated by
  ' : ', closing line with the optional trailing-bits note) and returns the list of *faults*
  ``(shape, detail)`` with respect to the property: the digits read in order are exactly the data
  plus the reported trailing bits, no group is split, every line is within ``width`` unless it
  holds a single group (ungrouped: the smallest displayable unit), no escape sequences under
  no_color.

Reading of LSB0 mode (pinned by the repository's own ``TestPrettyPrinting_LSB0``): lines and groups
are printed in increasing LSB0 index order, i.e. the k-th printed group is ``s[k*g:(k+1)*g]`` in LSB0
indexing, its digits MSB first; the offset column is at the right (`` :<offset>``); trailing bits
are the highest-index bits.  In MSB0 terms:  data == trailing + G[n-1] + ... + G[1] + G[0].
"""
from __future__ import annotations

import re

BPC = {'bin': 1, 'oct': 3, 'hex': 4}
DIGITS = {'bin': '01', 'oct': '01234567', 'hex': '0123456789abcdef'}
ALIAS = {'b': 'bin', 'o': 'oct', 'h': 'hex', 'bin': 'bin', 'oct': 'oct', 'hex': 'hex'}
# documented in pp()'s docstring: "defaults to 8 for hex and bin, 12 for oct"
DOC_DEFAULT_GROUP = {'bin': 8, 'hex': 8, 'oct': 12}
ESC_RE = re.compile(r'\x1b\[[0-9;?]*[ -/]*[@-~]')
TRAIL = '] + trailing_bits = '
# ungrouped two-format lines: the library lays out in units of 24 bits (the smallest length that
# bin, oct and hex can all display); a line holding one such unit may exceed the width.
UNGROUPED_PAIR_UNIT = 24


def digits_to_bits(fmt: str, digits: str) -> str:
    w = BPC[fmt]
    table = DIGITS[fmt]
    return ''.join(format(table.index(ch), f'0{w}b') for ch in digits.lower())


def read_literal(text: str) -> str:
    """'0x1f, 0b101' -> '00011111101'.  ValueError when the text is not such a literal."""
    text = text.strip()
    if not text:
        return ''
    out = []
    for tok in text.split(','):
        tok = tok.strip()
        pre, body = tok[:2], tok[2:]
        f = {'0x': 'hex', '0b': 'bin', '0o': 'oct'}.get(pre.lower())
        if f is None or not body or any(ch not in DIGITS[f] for ch in body.lower()):
            raise ValueError(f'not a bit literal: {tok[:40]!r}')
        out.append(digits_to_bits(f, body))
    return ''.join(out)


def expressible(length: int, fmts, group) -> bool:
    """DESIGN C19-O: with no explicit group length (or 0) every used format's bits-per-character
    must divide the length; with an explicit group length g it must divide g."""
    unit = length if not group else group
    return all(unit % BPC[f] == 0 for f in fmts)


def strip_escapes(text: str) -> str:
    return ESC_RE.sub('', text)


def header_formats(header: str):
    """[(name, length|None), ...] parsed from fmt='...' / dtype='...' in a pp header, or None."""
    m = re.search(r"(?:fmt|dtype)='([^']*)'", header)
    if not m:
        return None
    out = []
    for tok in m.group(1).split(','):
        mm = re.fullmatch(r'\s*(bin|hex|oct)(\d+)?\s*', tok)
        if not mm:
            return None
        out.append((mm.group(1), int(mm.group(2)) if mm.group(2) else None))
    return out if len(out) in (1, 2) else None


def _tokens(part: str, sep: str, fmt: str):
    """Digit groups of one format column; None if a character is neither digit, separator nor padding."""
    p = part.strip(' ')
    if not p:
        return []
    core = sep.strip(' ')
    if sep == '':
        raw = [p.replace(' ', '')]      # a short final group is padded with spaces (right-aligned in LSB0)
    elif core == '':
        raw = p.split()
    else:
        raw = [x.strip(' ') for x in p.split(core)]
    ok = DIGITS[fmt]
    for x in raw:
        if not x or any(ch not in ok for ch in x.lower()):
            return None
    return raw


def verify(text: str, bits: str, *, f1: str, f2=None, g=None, default_g=None, sep: str = ' ',
           show_offset: bool = True, lsb0: bool = False, width: int = 120, no_color: bool = True,
           offset_factor: int = 1, header_len=None):
    """-> (faults, info).  g = explicit group length from the format string (None if absent, 0 =
    ungrouped); default_g = group length in effect when g is None (None if unknown)."""
    faults = []
    info = {'lines': 0, 'groups': 0, 'overwide_single': 0, 'trailing': 0, 'short_last_group': False,
            'width_rule_checked': True, 'data_checked': True}

    def fault(shape, detail=''):
        faults.append((shape, str(detail)[:300]))

    if '\x1b' in text or '\x9b' in text:
        if no_color:
            fault('escape-sequence-under-no_color', repr(text[:120]))
        text = strip_escapes(text)
    bad = sorted({c for c in text if c != '\n' and (ord(c) < 32 or 127 <= ord(c) < 160)})
    if bad:
        fault('control-character-in-output', repr(bad))
        return faults, info
    if not text.endswith('\n'):
        fault('no-final-newline', repr(text[-40:]))
        lines = text.split('\n')
    else:
        lines = text[:-1].split('\n')
    if len(lines) < 2:
        fault('structure', 'fewer than two lines')
        return faults, info
    header, closing, body = lines[0], lines[-1], lines[1:-1]
    if not (header.startswith('<') and header.endswith('> [')):
        fault('header-malformed', header[:120])
    if header_len is not None:
        m = re.search(r'length=(\d+) bits', header)
        if m and int(m.group(1)) != header_len:
            fault('header-wrong-length', header[:120])
    trailing = ''
    if closing == ']':
        pass
    elif closing.startswith(TRAIL):
        try:
            trailing = read_literal(closing[len(TRAIL):])
        except ValueError:
            fault('trailing-bits-unreadable', closing[:120])
            return faults, info
    else:
        fault('closing-line-malformed', closing[:120])
        return faults, info
    info['trailing'] = len(trailing)

    fmts = [f1] + ([f2] if f2 else [])
    G = g if g is not None else default_g          # None = unknown default
    ungrouped = (G == 0)
    if g and len(trailing) >= g:
        fault('trailing-bits-hold-a-whole-group', f'{len(trailing)} trailing bits with group {g}')
    inferred_cpg = {}                              # per format, when G is unknown and sep != ''
    consumed = 0
    units = []                                     # bit strings in print order (groups / lines)
    reconstructable = True
    nbody = len(body)
    for idx, line in enumerate(body):
        last_line = idx == nbody - 1
        rest = line
        if show_offset:
            m = re.match(r'^(.*) :(\d+) *$', line) if lsb0 else re.match(r'^ *(\d+): (.*)$', line)
            if not m:
                fault('offset-column-missing', line[:120])
                return faults, info
            off, rest = (int(m.group(2)), m.group(1)) if lsb0 else (int(m.group(1)), m.group(2))
            if off * offset_factor != consumed:
                fault('offset-value', f'line {idx}: offset {off} x{offset_factor} but {consumed} bits precede')
        parts = rest.split(' : ') if f2 else [rest]
        if len(parts) != len(fmts):
            fault('format-columns', line[:120])
            return faults, info
        line_bits = []
        line_groups = []
        for f, p in zip(fmts, parts):
            tk = _tokens(p, sep, f)
            if tk is None:
                fault('unexpected-characters', f'{f} column of line {idx}: {p[:100]!r}')
                return faults, info
            if not tk:
                fault('empty-body-line', f'line {idx}')
                return faults, info
            bpc = BPC[f]
            cpg = None
            if G:
                cpg = G // bpc if G % bpc == 0 else None
            elif G is None and sep != '':
                cpg = inferred_cpg.setdefault(f, len(tk[0]))
            if ungrouped:
                groups = [''.join(tk)]
            elif cpg is None:
                groups = list(tk) if sep != '' else [tk[0]]
                if sep == '':
                    reconstructable = reconstructable and not lsb0
                    info['width_rule_checked'] = False
            elif sep == '':
                run = tk[0]
                groups = [run[i:i + cpg] for i in range(0, len(run), cpg)]
            else:
                groups = list(tk)
            if cpg is not None and not ungrouped:
                for gi, x in enumerate(groups):
                    final = last_line and gi == len(groups) - 1
                    if len(x) == cpg:
                        continue
                    if len(x) < cpg and final and g is None:
                        info['short_last_group'] = True      # default group size: the data's tail
                        continue
                    fault('group-size', f'line {idx} {f} group {gi} has {len(x)} digits, a group is {cpg}: {line[:100]!r}')
            line_groups.append(groups)
            line_bits.append(''.join(digits_to_bits(f, x) for x in groups))
        if f2 and line_bits[0] != line_bits[1]:
            fault('formats-disagree', f'line {idx}: {line[:120]!r}')
        groups = line_groups[0]
        nb = len(line_bits[0])
        vis = len(line.rstrip(' '))
        if vis > width:
            if ungrouped:
                over = (len(groups[0]) > 1) if f2 is None else (nb > UNGROUPED_PAIR_UNIT)
                what = f'{len(groups[0])} digits' if f2 is None else f'{nb} bits'
            elif info['width_rule_checked']:
                over = len(groups) > 1
                what = f'{len(groups)} groups'
            else:
                over, what = False, ''
            if over:
                fault('line-over-width', f'line {idx} is {vis} > {width} wide and holds {what}: {line[:100]!r}')
            else:
                info['overwide_single'] += 1
        consumed += nb
        if ungrouped or (sep == '' and not G):
            units.append(line_bits[0])
        else:
            units.extend(digits_to_bits(f1, x) for x in groups)
        info['groups'] += len(groups)
    info['lines'] = nbody

    if not reconstructable:
        info['data_checked'] = False
        return faults, info
    data = (trailing + ''.join(reversed(units))) if lsb0 else (''.join(units) + trailing)
    if len(data) != len(bits):
        fault('digits-count', f'printed {len(data) - len(trailing)} data bits + {len(trailing)} trailing, value has {len(bits)}')
    elif data != bits:
        i = next(k for k in range(len(bits)) if data[k] != bits[k])
        fault('digits-content', f'first difference at bit {i} of {len(bits)}')
    return faults, info
