"""Stream model: (bits, pos).  Reads consume exactly the token's bits; overrun -> ReadError with
pos unchanged.  Tokens are JSON-able descriptors produced by gen_token()."""
from __future__ import annotations

from rv.model import codecs as K

SINGLE = {'bool': 1, 'bfloat': 16, 'bfloatle': 16, 'bfloatbe': 16, 'p4binary': 8, 'p3binary': 8, 'e4m3mxfp': 8, 'e5m2mxfp': 8,
          'e3m2mxfp': 6, 'e2m3mxfp': 6, 'e2m1mxfp': 4, 'e8m0mxfp': 8, 'mxint': 8}
EXOTIC = ('p4binary', 'p3binary', 'e4m3mxfp', 'e5m2mxfp', 'e3m2mxfp', 'e2m3mxfp', 'e2m1mxfp', 'e8m0mxfp', 'mxint')
SIZED = {
    'uint': [1, 3, 8, 13, 64, 65], 'int': [1, 4, 9, 33], 'u': [2, 8], 'i': [5], 'hex': [4, 8, 12], 'oct': [3, 6], 'bin': [1, 2, 7],
    'bits': [0, 1, 5, 8], 'bytes': [1, 2], 'pad': [1, 3, 8], 'uintle': [8, 16, 24], 'intle': [8, 16], 'uintbe': [8, 24],
    'intbe': [16], 'uintne': [16], 'intne': [8], 'float': [16, 32, 64], 'floatle': [16, 32], 'floatne': [64], 'f': [32],
}
STRETCHY = ['uint', 'int', 'hex', 'oct', 'bin', 'bits', 'bytes', 'float', 'uintle']
VARIABLE = ['ue', 'se', 'uie', 'sie']


def gen_token(rng, allow_int=True, allow_dtype=True):
    """{'kind', 'name', 'n' (units), 'fmt' (what is handed to the library)}"""
    r = rng.random()
    if r < 0.12 and allow_int:
        n = rng.choice([0, 1, 3, 8, 9, 64, -1, -3, 10 ** 6])
        return {'kind': 'count', 'name': 'bits', 'n': n, 'fmt': n}
    if r < 0.24:
        name = rng.choice(VARIABLE)
        return {'kind': 'variable', 'name': name, 'n': None, 'fmt': name}
    if r < 0.36:
        name = rng.choice(list(SINGLE))
        fmt = name if rng.random() < 0.6 else f'{name}{SINGLE[name]}' if rng.random() < 0.5 else f'{name}:{SINGLE[name]}'
        return {'kind': 'single', 'name': name, 'n': SINGLE[name], 'fmt': fmt}
    if r < 0.46:
        name = rng.choice(STRETCHY)
        return {'kind': 'stretchy', 'name': name, 'n': None, 'fmt': name}
    if r < 0.49:
        name = rng.choice(['uint', 'int'])
        return {'kind': 'sized', 'name': name, 'n': 0, 'fmt': f'{name}:0'}
    name = rng.choice(list(SIZED))
    n = rng.choice(SIZED[name])
    sp = rng.random()
    if sp < 0.15 and allow_dtype:
        fmt = {'dtype': [name, n]}
    elif sp < 0.55:
        fmt = f'{name}:{n}'
    elif sp < 0.9:
        fmt = f'{name}{n}'
    else:
        fmt = f' {name} : {n} ' if name not in ('u', 'i', 'f') else f'{name}{n}'
    return {'kind': 'sized', 'name': name, 'n': n, 'fmt': fmt}


def unit(name):
    return 8 if name == 'bytes' else 1


def value_of(name, seg, twin=None):
    """Interpretation of the bit string seg under dtype name."""
    cname = K.canon(name)
    if cname in EXOTIC or name in EXOTIC:
        return twin(name, seg)
    if cname == 'bytes':
        return K.decode('bytes', seg)
    return K.decode(cname, seg)


def read(bits, pos, tok, twin=None):
    """('ok', value, newpos) | ('exc', classes, zone-or-None).  Values of 'bits' are bit strings."""
    L = len(bits)
    rem = L - pos
    kind, name, n = tok['kind'], tok['name'], tok['n']
    if kind == 'count':
        if n < 0:
            return ('exc', ('ValueError',), None)
        if n > rem:
            return ('exc', ('ReadError',), None)
        return ('ok', bits[pos:pos + n], pos + n)
    if kind == 'variable':
        try:
            v, w = K.GOLOMB_DEC[name](bits, pos)
        except K.Truncated:
            return ('exc', ('ReadError',), None)
        return ('ok', v, pos + w)
    if kind == 'stretchy':
        u = unit(name)
        if rem % u:
            return ('exc', ('ValueError', 'ReadError'), 'T6')
        items = rem // u
        if not K.valid_length(name, items) or (items == 0 and K.canon(name) in ('uint', 'int', 'uintle', 'float')):
            return ('exc', ('ValueError', 'ReadError'), 'T6')
        return ('ok', value_of(name, bits[pos:]), L)
    width = n * unit(name)
    if kind == 'sized' and not K.valid_length(name, n):
        return ('exc', ('ValueError', 'ReadError') if width > rem else ('ValueError',), 'T1' if width > rem else None)
    if width > rem:
        return ('exc', ('ReadError',), None)
    return ('ok', value_of(name, bits[pos:pos + width], twin), pos + width)


def readlist(bits, pos, toks, twin=None):
    """('ok', [values without pads], newpos) | ('exc', classes, zone)."""
    nstretchy = sum(t['kind'] == 'stretchy' for t in toks)
    if nstretchy > 1:
        return ('exc', ('Error', 'ValueError'), None)
    after = 0
    seen = False
    for t in toks:
        if t['kind'] == 'stretchy':
            seen = True
        elif seen:
            if t['kind'] == 'variable':
                return ('exc', ('Error', 'ValueError'), None)
            if t['kind'] == 'count' and t['n'] < 0:
                return ('exc', ('ValueError', 'ReadError', 'Error'), 'T1')
            after += t['n'] * unit(t['name'])
    vals = []
    p = pos
    for t in toks:
        if t['kind'] == 'stretchy':
            avail = max(len(bits) - p - after, 0)
            sub = bits[:p + avail]
            r = read(sub, p, t, twin)
        else:
            r = read(bits, p, t, twin)
        if r[0] == 'exc':
            return r + (t,)
        if t['name'] != 'pad':
            vals.append(r[1])
        p = r[2]
    return ('ok', vals, p)
