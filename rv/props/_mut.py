"""Shared machinery for mutator histories (used by C03, C06, C12): step generator, executor on the
real object, input-class predicates for mechanism keys and the per-step judge."""
from __future__ import annotations

from rv import util
from rv.model import bits as M
from rv.util import B, build_operand, exc_matches, rb

OPS = ['append', 'iadd', 'prepend', 'insert', 'overwrite', 'delitem', 'setitem_bits', 'setitem_int',
       'reverse', 'rol', 'ror', 'set', 'invert', 'ilshift', 'irshift', 'imul', 'iand', 'ior', 'ixor',
       'clear', 'replace', 'byteswap']
OPERAND_KINDS = ['Bits', 'BitArray', 'ConstBitStream', 'BitStream', 'str', 'str', 'bytes', 'list', 'bitarray', 'tuple', 'truthy-iter'] * 3 + ['failing-iter']


# ---- JSON <-> python for keys / position iterables -------------------------------------------
def dec_key(k):
    if isinstance(k, list):
        return slice(*k)
    return k


def dec_pos(p, real=False):
    if isinstance(p, dict) and 'range' in p:
        return range(*p['range'])
    if isinstance(p, dict) and 'as' in p:
        # a list of positions handed over in another container; the operation is specified on the positions, whatever holds them
        # (the model gets the list, the library the container: an iterator / generator / map can be walked once only)
        items = list(p['items'])
        if p['as'] == 'keys':
            items = list(dict.fromkeys(items))      # a dict view holds every position once
        if not real:
            return items
        how = p['as']
        return iter(items) if how == 'iter' else (x for x in items) if how == 'gen' else map(int, items) if how == 'map' else \
            tuple(items) if how == 'tuple' else dict.fromkeys(items).keys()
    return p


def other_container(rng, p):
    """A third of the position lists are handed over as an iterator, a generator, a map, a tuple or a dict view instead."""
    if isinstance(p, list) and rng.random() < 0.34:
        return {'as': rng.choice(['iter', 'gen', 'map', 'tuple', 'keys']), 'items': p}
    return p


def enc_range(r):
    return {'range': [r.start, r.stop, r.step]}


# ---- generator -------------------------------------------------------------------------------
def rpos(rng, L, extra=True):
    c = [0, 1, L, L - 1, L // 2, -1, -L, 8, 16, 7, 9, 2, L - 8, L - 7]
    if extra:
        c += [L + 1, -L - 1, L + 9, -L - 9]
    return rng.choice(c)


def ropt(rng, L, extra=True):
    return rng.choice([None, None, rpos(rng, L, extra), rpos(rng, L, extra), rpos(rng, L, extra)])


def roperand(rng, L, kinds=None, allow_self=True):
    if allow_self and rng.random() < 0.06:
        return ['self']
    n = rng.choice([0, 1, 2, 3, 4, 7, 8, 9, 16, L, max(L - 1, 0), L + 1])
    if n > 4096:
        n = rng.choice([8, 64, 1000])
    return util.operand_spec(rng, rb(rng, n), kinds or OPERAND_KINDS)


def rstructfmt(rng):
    """A compact struct-style byteswap format: optional endian char, items with optional (also multi-digit and zero) factors."""
    items = []
    for _ in range(rng.choice([1, 1, 2, 3])):
        f = rng.choice(['', '', '1', '2', '3', '0', '10', '12', '11', '20', '03'])
        items.append(f + rng.choice('bBhHlLiIqQefd'))
    return rng.choice(['', '', '<', '>', '@', '=']) + ''.join(items)


def rkey(rng, L):
    if rng.random() < 0.4:
        return rpos(rng, L)
    return [ropt(rng, L), ropt(rng, L), rng.choice([None, None, 1, -1, 2, -2, 3, -3, 8, -8, 7])]


def gen_step(rng, L, ops=OPS, max_len=20000):
    """One random mutator step for an object of current length L, as JSON-able (op, args)."""
    op = rng.choice(ops)
    if L > max_len and op in ('imul', 'append', 'iadd', 'prepend', 'insert'):
        op = 'clear' if rng.random() < 0.3 else 'delitem'
    if op in ('append', 'iadd', 'prepend'):
        return op, [roperand(rng, L)]
    if op in ('insert', 'overwrite'):
        return op, [roperand(rng, L), rpos(rng, L)]
    if op == 'delitem':
        return op, [rkey(rng, L)]
    if op == 'setitem_bits':
        k = rkey(rng, L)
        if isinstance(k, list) and rng.random() < 0.6:
            n = len(range(*slice(*k).indices(L)))
            return op, [k, util.operand_spec(rng, rb(rng, n), OPERAND_KINDS)]
        return op, [k, roperand(rng, L)]
    if op == 'setitem_int':
        k = rkey(rng, L)
        if isinstance(k, list):
            n = len(range(*slice(*k).indices(L)))
            hi = max(n - 1, 0)
            v = rng.choice([0, 1, -1, 2, (1 << n) - 1, 1 << n, -(1 << hi), -(1 << hi) - 1, rng.getrandbits(max(n, 1)), -rng.getrandbits(max(hi, 1))])
        else:
            v = rng.choice([0, 1, -1, 2, -2, True, False])
        return op, [k, v]
    if op == 'reverse':
        return op, [ropt(rng, L), ropt(rng, L)]
    if op in ('rol', 'ror'):
        return op, [rng.choice([0, 1, 2, 7, 8, L, L + 1, -1, 3 * L + 1, 10 ** 6 + 1]), ropt(rng, L), ropt(rng, L)]
    if op == 'set':
        p = rng.choice([None, rpos(rng, L), [rpos(rng, L, False) for _ in range(3)], [rpos(rng, L) for _ in range(3)],
                        enc_range(range(0, L, 2)), enc_range(range(1, L, 3)), enc_range(range(L - 1, -1, -3)),
                        enc_range(range(0, L + 5, 3)), enc_range(range(-L, 0, 2)) if L else enc_range(range(0)),
                        # ranges that leave the object at the negative end: wholly below -L, starting below it, stepping down past it
                        enc_range(range(-L - 4, -L + L // 2)), enc_range(range(-L - 4, 0, 3)), enc_range(range(-L - 8, -L - 1)),
                        enc_range(range(-1, -L - 3, -2)), enc_range(range(-L, 0)) if L else enc_range(range(0)),
                        enc_range(range(0, L)), ['tuple', rpos(rng, L, False), rpos(rng, L, False)],
                        # empty ranges whose bounds would select something if they were read as a slice
                        enc_range(range(0, -1)), enc_range(range(2, -1)), enc_range(range(1, -L)), enc_range(range(L // 2, -2, 2)), enc_range(range(L, 0)),
                        # descending ranges inside the object, and ones whose first position is just past the end
                        enc_range(range(L - 1, 0, -1)), enc_range(range(L, 0, -1)), enc_range(range(L, L // 2, -2)), enc_range(range(L - 1, -1, -1))])
        if isinstance(p, list) and p and p[0] == 'tuple':
            p = p[1:]
        p = other_container(rng, p)
        return op, [rng.choice([0, 1, True, False, 5, '']), p]
    if op == 'invert':
        p = rng.choice([None, rpos(rng, L), [rpos(rng, L, False) for _ in range(3)], [rpos(rng, L) for _ in range(3)],
                        enc_range(range(0, L, 2)), enc_range(range(L - 1, -1, -2)), enc_range(range(0, -1)), enc_range(range(1, -L)), enc_range(range(L, 0)),
                        enc_range(range(-L - 3, 0, 2)), enc_range(range(0, L + 3)), enc_range(range(L, 0, -1)), enc_range(range(L - 1, 0, -1))])
        return op, [other_container(rng, p)]
    if op in ('ilshift', 'irshift'):
        return op, [rng.choice([0, 1, 2, 7, 8, L - 1, L, L + 1, -1, 1000, 10 ** 6])]
    if op == 'imul':
        return op, [rng.choice([0, 1, 2, 3, 5, -1, 2, 3])]
    if op in ('iand', 'ior', 'ixor'):
        if rng.random() < 0.08:
            return op, [['self']]
        n = rng.choice([L, L, L, L, L + 1, max(L - 1, 0), 0])
        return op, [util.operand_spec(rng, rb(rng, n), OPERAND_KINDS)]
    if op == 'clear':
        return op, []
    if op == 'replace':
        old = roperand(rng, 8, allow_self=False)
        if rng.random() < 0.7:
            old = util.operand_spec(rng, rb(rng, rng.choice([1, 2, 3, 8, 1, 2])), OPERAND_KINDS)
        new = roperand(rng, 8) if rng.random() < 0.9 else ['self']
        count = rng.choice([None, None, None, 0, 1, 2, 5, -1])
        if new == ['self'] and L > 512:
            # every occurrence is replaced by the whole receiver: bound the growth (L**2 otherwise), the harness must stay runnable
            count = rng.choice([1, 2]) if L <= max_len else 0
        return op, [old, new, ropt(rng, L), ropt(rng, L), count, rng.choice([None, None, False, True])]
    if op == 'byteswap':
        fmt = rng.choice([None, 0, 1, 2, 3, [1, 2], [2, 1, 1], -1, [1, -1], [0, 0], [], 'h', '>2h', '<hb', 'q', 'xx', '2', rstructfmt(rng),
                          rng.choice(['F', 'E', 'D', 'hF', '2Fh', '>hD', 'bE2b', 'e', '2f', '<d', 'ef', 'P', 'hs', '?', 'n'])])
        # a list of sizes may arrive as any iterable of integers: tuple, generator, iterator
        return op, [fmt, ropt(rng, L), ropt(rng, L), rng.choice([True, True, False]), rng.choice(['list', 'list', 'tuple', 'gen', 'iter'])]
    raise KeyError(op)


# ---- execution on the real object -------------------------------------------------------------
class Identity(Exception):
    pass


def do(s, op, a, retained=None):
    """Apply step to real object s; returns the call's return value.  Bitstring operands that were built for the call
    are appended to `retained` as (object, bits) so that the caller can keep watching them."""
    def O(spec):
        o = build_operand(spec, receiver=s)
        if retained is not None and o is not s and hasattr(o, 'tobitarray') and len(spec) > 1:
            retained.append((o, spec[1]))
        return o
    if op == 'append':
        return s.append(O(a[0]))
    if op == 'iadd':
        t = s
        t += O(a[0])
        if t is not s:
            raise Identity(op)
        return None
    if op == 'prepend':
        return s.prepend(O(a[0]))
    if op == 'insert':
        return s.insert(O(a[0]), a[1])
    if op == 'overwrite':
        return s.overwrite(O(a[0]), a[1])
    if op == 'delitem':
        del s[dec_key(a[0])]
        return None
    if op == 'setitem_bits':
        s[dec_key(a[0])] = O(a[1])
        return None
    if op == 'setitem_int':
        s[dec_key(a[0])] = a[1]
        return None
    if op == 'reverse':
        return s.reverse(a[0], a[1])
    if op == 'rol':
        return s.rol(a[0], a[1], a[2])
    if op == 'ror':
        return s.ror(a[0], a[1], a[2])
    if op == 'set':
        return s.set(a[0], dec_pos(a[1], True))
    if op == 'invert':
        return s.invert(dec_pos(a[0], True))
    if op in ('ilshift', 'irshift', 'imul'):
        t = s
        if op == 'ilshift':
            t <<= a[0]
        elif op == 'irshift':
            t >>= a[0]
        else:
            t *= a[0]
        if t is not s:
            raise Identity(op)
        return None
    if op in ('iand', 'ior', 'ixor'):
        t = s
        x = O(a[0])
        if op == 'iand':
            t &= x
        elif op == 'ior':
            t |= x
        else:
            t ^= x
        if t is not s:
            raise Identity(op)
        return None
    if op == 'clear':
        return s.clear()
    if op == 'replace':
        return s.replace(O(a[0]), O(a[1]), a[2], a[3], a[4], a[5])
    if op == 'byteswap':
        fmt = a[0]
        if isinstance(fmt, list) and len(a) > 4:
            fmt = {'list': list, 'tuple': tuple, 'gen': lambda x: (v for v in x), 'iter': iter}[a[4]](fmt)
        return s.byteswap(fmt, a[1], a[2], a[3])
    raise KeyError(op)


def model_args(m, op, a):
    """Arguments for the model: operand specs -> bit strings, keys/ranges decoded."""
    def bits(spec):
        return m if spec[0] == 'self' else spec[1]
    if op in ('append', 'iadd', 'prepend', 'iand', 'ior', 'ixor'):
        return (bits(a[0]),)
    if op in ('insert', 'overwrite'):
        return (bits(a[0]), a[1])
    if op == 'delitem':
        return (dec_key(a[0]),)
    if op == 'setitem_bits':
        return (dec_key(a[0]), bits(a[1]))
    if op == 'setitem_int':
        return (dec_key(a[0]), a[1])
    if op == 'set':
        return (a[0], dec_pos(a[1]))
    if op == 'invert':
        return (dec_pos(a[0]),)
    if op == 'replace':
        eff = util.get_options()[1] if a[5] is None else a[5]
        return (bits(a[0]), bits(a[1]), a[2], a[3], a[4], eff)
    if op == 'byteswap':
        return (a[0], a[1], a[2], a[3])
    return tuple(a)


def uses_failing(a):
    return any(isinstance(x, list) and x and x[0] == 'failing-iter' for x in a)


def uses_self(a):
    return any(isinstance(x, list) and x and x[0] == 'self' for x in a)


def input_class(m, op, a, ma, lsb0=False):
    """Coarse predicate over the *inputs* of a step; part of the mechanism key."""
    L = len(m)
    parts = []
    if uses_self(a):
        parts.append('self-operand')
    if op == 'byteswap':
        fmt, st, en, rep = ma[:4]
        if isinstance(a[0], list) and len(a) > 4 and a[4] in ('gen', 'iter'):
            parts.append('sizes-from-one-shot-iterable')
        try:
            s, e = M.window(st, en, L)
            sizes = M.byteswap_sizes(fmt, s, e)
            if not rep and 8 * sum(sizes) > e - s and sum(sizes) > 0:
                parts.append('norepeat-pattern-exceeds-end')
        except M.Expect:
            pass
    if op == 'overwrite' and uses_self(a):
        pos = ma[1] + L if ma[1] < 0 else ma[1]
        parts.append('pos>0' if pos > 0 else 'pos=0')
    if op in ('set', 'invert'):
        p = ma[-1]
        if isinstance(p, range):
            parts.append('range')
            if p.step < 0:
                parts.append('neg-step')
            if p.start < 0 or p.stop < 0:
                parts.append('neg-bounds')
            if len(p) and (max(p) >= L or min(p) < -L):
                parts.append('beyond')
        elif p is None:
            parts.append('all')
        elif isinstance(p, int):
            parts.append('int')
        else:
            parts.append('iterable')
            raw = a[-1]
            if isinstance(raw, dict) and 'as' in raw:
                parts.append('one-shot' if raw['as'] in ('iter', 'gen', 'map') else raw['as'])
    if op in ('setitem_int', 'setitem_bits', 'delitem'):
        k = ma[0]
        if isinstance(k, slice):
            st = k.step
            parts.append('slice' if st in (None, 1) else ('ext-slice-neg' if st < 0 else 'ext-slice-pos'))
            if lsb0:
                idx = range(*k.indices(L))
                if len(idx) == 0:
                    parts.append('empty-slice')
        else:
            parts.append('index')
    if op in ('rol', 'ror'):
        try:
            s, e = M.window(ma[1], ma[2], L)
            if s == e and L:
                parts.append('empty-range')
        except M.Expect:
            pass
    if op == 'replace':
        if ma[5]:
            parts.append('bytealigned')
    return '&'.join(parts) or 'plain'


def judge_step(ctx, prop, s, m, op, a, case, lsb0=False, extra_key='', retained=None):
    """Run one step on real object s whose content is m; compare with the model.
    Returns the real content afterwards (the caller resynchronises its model to it)."""
    L = len(m)
    ma = model_args(m, op, a)
    try:
        nm, ret = (M.apply_lsb0 if lsb0 else M.apply)(m, op, ma)
        exp = None
    except M.Expect as ex:
        exp = ex
        nm, ret = m, None
    if any(isinstance(x, list) and x and x[0] == 'failing-iter' for x in a) and not (op == 'replace' and a[4] == 0):   # replace(count=0) reads nothing
        # an operand that fails while it is being read: the caller's exception (or the documented one for another bad argument)
        # comes out and the receiver is what it was
        exp = M.Expect((exp.classes if exp is not None and not exp.anything else ()) + ('OperandFailure',))
        nm, ret = m, None
    ic = input_class(m, op, a, ma, lsb0)
    kind, got = util.call(lambda: do(s, op, a, retained))
    real = B(s)
    outcome = 'ok' if kind == 'ok' else type(got).__name__
    ctx.op(op, outcome)
    mech = None
    detail = ''
    if kind == 'exc' and isinstance(got, Identity):
        mech, detail = f'{prop}|{op}|{ic}|identity-not-preserved', 'in-place operator returned another object'
    elif exp is not None:
        if exp.zone:
            ctx.tolerate(exp.zone)
        if exp.anything:
            pass
        elif kind == 'ok':
            if exp.alt is not None and real == exp.alt[0] and got == exp.alt[1]:
                pass
            elif exp.alt is not None:
                mech, detail = f'{prop}|{op}|{ic}|tolerated-alt-mismatch', f'real={real[:80]} alt={exp.alt[0][:80]} ret={got!r}/{exp.alt[1]!r}'
            else:
                mech, detail = f'{prop}|{op}|{ic}|no-raise', f'expected {exp.classes}, content {"changed" if real != m else "unchanged"}'
        elif not exc_matches(got, exp.classes):
            mech, detail = f'{prop}|{op}|{ic}|wrong-exc:{type(got).__name__}', f'expected {exp.classes}: {got!s:.100}'
        elif real != m and not (exp.partial is not None and real == exp.partial):
            mech, detail = f'{prop}|{op}|{ic}|content-changed-after-raise', f'{m[:80]} -> {real[:80]}'
    else:
        if kind == 'exc':
            mech, detail = f'{prop}|{op}|{ic}|unexpected-exc:{type(got).__name__}', f'{got!s:.120}'
            if real != m:
                detail += ' (content also changed)'
        elif real != nm:
            mech, detail = f'{prop}|{op}|{ic}|content', f'real={real[:96]} model={nm[:96]} (len {len(real)} vs {len(nm)})'
        elif got != ret:
            mech, detail = f'{prop}|{op}|{ic}|return', f'got {got!r} expected {ret!r}'
    if mech:
        ctx.mismatch(mech, case, detail)
    else:
        changed = (kind == 'exc') or real != m
        ctx.ok((op, ic, outcome, util.lbucket(L), extra_key), changed)
    return real
