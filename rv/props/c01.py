"""C01 - every bitstring behaves as the Python sequence of its bits.

Oracle: the Python ``str`` of '0'/'1' characters.  ``len``, ``bool``, iteration, ``b[i]``,
``b[a:z:st]``, ``b1 + b2`` and ``b * n`` on the string are the definition of the expected
result; an index outside ``[-L, L)`` must raise IndexError, a negative repeat count ValueError,
a zero slice step ValueError (as for every built-in sequence).  The result class is the class of
the left operand when that is a bitstring, otherwise of the bitstring operand; streams returned
start at pos 0; operands keep their content; a mutable result never shares storage with an
operand (probed by mutating the result).
"""
from __future__ import annotations

import itertools

from rv import util
from rv.util import B, CLASSES, CLASS_NAMES, MUTABLE, STREAMS, call, exc_matches, lbucket, mk, rb

AMBIENT = ['bytealigned', 'mxfp_overflow']      # options this property does not depend on: a quarter of the cases run with them switched
PROP = 'C01'
SHARDS = {'quick': 4, 'thorough': 16}
RULE = ("cases: 4 classes x boundary length pool (0..8193, +20k/70k thorough) x content kinds x two routes "
        "(cls(bin=...); odd-offset slice of a larger object of the same class), streams with a random "
        "non-zero pos.  seq: len, bool, list(), two interleaved iterators, reversed(), every index in "
        "[-L-2, L+1] for L<=129 (pool + random beyond).  slice: (a) all contents x all (start,stop,step) "
        "with values in [-L-2, L+2] or None for tiny L, (b) full product position-pool x position-pool x "
        "step-pool for every pool length <= 33, (c) random pool triples for longer data.  add: every ordered "
        "pair over (4 classes + 11 promotable kinds) with at least one bitstring x length-pair shapes "
        "(empty, equal, shorter/longer by one, byte/word straddling, long), plus s+s with the same object.  "
        "mul: n in {-2..5,7,8,9,15..17,31..33,64,65,100,1000} both s*n and n*s.  "
        "key = (class, L-bucket, op, argument shape); non-trivial = L>0 and the expected result is "
        "non-empty or an exception")
ANCHORS = ['Bits.__getitem__', 'ConstBitStream.__getitem__', 'BitStore.getslice_withstep_msb0',
           'BitStore.getindex_msb0', 'Bits.__add__', 'Bits.__radd__', 'ConstBitStream.__add__',
           'Bits.__mul__', 'Bits.__rmul__', 'Bits._imul', 'Bits.__iter__', 'BitStore.__iter__',
           'Bits.__len__', 'Bits.__bool__']
REQUIRED_OPS = ['len', 'bool', 'iter', 'reversed', 'index', 'slice', 'add', 'radd', 'mul', 'rmul', 'alias-probe']
MIN_EVALS = {'quick': 300000, 'thorough': 4000000}
ASSUMPTIONS = ['indexing, slicing and iteration in MSB0 mode only (the LSB0 index mirror is judged by C12); + and * are also run with lsb0 on',
               'in-memory objects only: file-backed / length-limited stores are a construction route judged by C08',
               'Python str indexing, slicing, + and * are the trusted definition of the sequence operations',
               'a zero slice step must raise ValueError as it does for every built-in sequence']

PROMOTABLE = ['str', 'hexstr', 'bytes', 'bytearray', 'memoryview', 'list', 'tuple', 'gen', 'truthy', 'truthy-iter', 'bitarray', 'array', 'BytesIO', 'BytesIO-used', 'BytesIO-written'] + util.SUBCLASS_KINDS
BYTE_KINDS = ('bytes', 'bytearray', 'memoryview', 'array', 'BytesIO', 'BytesIO-used', 'BytesIO-written', 'bytes-sub', 'bytearray-sub', 'memoryview-ro', 'memoryview-strided', 'memoryview-reversed')
MUL_NS = [-2, -1, 0, 1, 2, 3, 4, 5, 7, 8, 9, 15, 16, 17, 31, 32, 33, 64, 65, 100, 255, 256, 257, 259, 300, 1000, 1001, 4099]
HUGE = [10 ** 6, -10 ** 6, 2 ** 63, -2 ** 63 - 1, 10 ** 30, -10 ** 30]
PRODUCT_LENGTHS = [x for x in util.LENGTHS if x <= 33]
SUBCLASS_OF = {('Bits', 'BitArray'), ('Bits', 'ConstBitStream'), ('Bits', 'BitStream'),
               ('BitArray', 'BitStream'), ('ConstBitStream', 'BitStream')}   # (base, strict subclass)


# ---- pools -----------------------------------------------------------------------------------
def pos_pool(L: int):
    c = [None, 0, 1, 2, L - 1, L, L + 1, L + 2, L // 2, -1, -2, -L + 1, -L, -L - 1, -L - 2,
         7, 8, 9, -7, -8, -9, 10 ** 6, -10 ** 6]
    return sorted(set(x for x in c if x is not None)) + [None]


def step_pool(L: int):
    c = [1, -1, 2, -2, 3, -3, 7, -7, 8, -8, 9, -9, 64, -64, L + 1, -(L + 1), L, -L]
    return sorted(set(x for x in c if x != 0)) + [None]


def tiny_values(L: int):
    return list(range(-L - 2, L + 3)) + [None]


def rand_triple(rng, L: int):
    def p():
        r = rng.random()
        if r < 0.3:
            return None
        if r < 0.8:
            return util.positions(rng, L)
        if r < 0.97:
            return rng.randint(-L - 2, L + 2)
        return rng.choice(HUGE)
    r = rng.random()
    st = util.steps(rng, L) if r < 0.8 else rng.randint(-L - 2, L + 2) if r < 0.97 else rng.choice(HUGE + [0])
    return [p(), p(), st]


# ---- construction ------------------------------------------------------------------------------
def rand_route(rng):
    """None = cls(bin=...); [pre, post] = slice of cls(bin=pre+bits+post) at an odd offset."""
    r = rng.random()
    if r < 0.5:
        return None
    if r < 0.62:
        return [rng.choice(['pickle', 'deepcopy', 'pickle-of-slice', 'file', 'file-limited', 'file-limited'])]      # back from a pickle / deep copy, or backed by a file
    return [rb(rng, rng.choice([1, 3, 5, 7, 9, 11, 63, 65])), rb(rng, rng.choice([0, 1, 2, 7, 8, 13]))]


def bs_spec(rng, cls: str, bits: str, route='rand'):
    if route == 'rand':
        route = rand_route(rng)
    return [cls, bits] + (list(route) if route else [])


def is_bs(spec) -> bool:
    return spec[0] in CLASSES


def build(spec, pos=None, receiver=None):
    """Real object for an operand spec.  Bitstring specs may carry [pre, post] for the slice route."""
    k = spec[0]
    if k == 'self':
        return receiver
    if k not in CLASSES:
        return util.build_operand(spec)
    bits = spec[1]
    if len(spec) >= 4:
        pre, post = spec[2], spec[3]
        s = mk(k, pre + bits + post)[len(pre):len(pre) + len(bits)]
    elif len(spec) == 3 and spec[2] in ('file', 'file-limited'):
        # backed by a file: the whole of it (length a multiple of 8), or the first len(bits) bits of a longer file
        import os as _os
        import tempfile as _tempfile
        tail = '' if (spec[2] == 'file' and len(bits) % 8 == 0 and bits) else '1' * (-len(bits) % 8) + '10110111' * 3
        raw = bits + tail
        fd, path = _tempfile.mkstemp(prefix='rv_c01_')
        try:
            _os.write(fd, int(raw, 2).to_bytes(len(raw) // 8, 'big'))
            _os.close(fd)
            with util.options(lsb0=False):
                s = CLASSES[k](filename=path) if not tail else CLASSES[k](filename=path, length=len(bits))
        finally:
            _os.unlink(path)
    elif len(spec) == 3:
        import copy as _copy
        import pickle as _pickle
        with util.options(lsb0=False):
            src = mk(k, '101' + bits + '1')[3:3 + len(bits)] if spec[2] == 'pickle-of-slice' else mk(k, bits)
        s = _copy.deepcopy(src) if spec[2] == 'deepcopy' else _pickle.loads(_pickle.dumps(src))
    else:
        s = mk(k, bits)
    if pos is not None and k in STREAMS:
        s.pos = max(0, min(pos, len(bits)))
    return s


def fit_bits(rng, kind: str, n: int) -> str:
    """Content of about n bits that `kind` can carry (whole bytes / whole nibbles)."""
    if kind in BYTE_KINDS:
        n = (n + 7) // 8 * 8
        if kind.startswith('BytesIO'):
            n = max(n, 8)
    elif kind == 'hexstr':
        n = max(4, (n + 3) // 4 * 4)
    return util.content(rng, n)


def snapshot(x):
    """Comparable snapshot of a mutable promotable operand (None when not applicable)."""
    if isinstance(x, (list, bytearray)):
        return type(x)(x)
    t = type(x).__name__
    if t == 'bitarray':
        return x.copy()
    if t == 'array':
        return x.tobytes()
    return None


def short(case):
    def cut(v):
        if isinstance(v, str) and len(v) > 96:
            return v[:64] + f'...({len(v)} bits)'
        if isinstance(v, list):
            return [cut(x) for x in v[:12]] + (['...'] if len(v) > 12 else [])
        if isinstance(v, dict):
            return {k: cut(x) for k, x in v.items()}
        return v
    return cut(case)


# ---- judging helpers ---------------------------------------------------------------------------
class Poisoned(Exception):
    """The alias probe changed an operand: the objects of this case can no longer be judged."""


def _exc(got):
    return type(got[1]).__name__


def check_result(ctx, c, op, ic, got, exp_cls, exp_bits, key, nontrivial, operands=(), probe=False):
    """A bitstring-valued result: class, content, length, pos 0, not aliasing an operand.
    operands: [(object, expected bits)] that must be untouched by a probe mutation."""
    ctx.op(op, 'ok' if got[0] == 'ok' else _exc(got))
    if got[0] != 'ok':
        ctx.mismatch(f'C01|{op}|{ic}|unexpected-exc:{_exc(got)}', c, f'{op} raised {got[1]!r}'[:300])
        return False
    r = got[1]
    good = True
    if type(r) is not exp_cls:
        good = False
        ctx.mismatch(f'C01|{op}|{ic}|result-class', c,
                     f'{op}: result is {type(r).__name__}, expected {exp_cls.__name__}')
    n = call(lambda: len(r))
    content = call(lambda: B(r))
    if content[0] != 'ok' or n[0] != 'ok':
        ctx.mismatch(f'C01|{op}|{ic}|result-unreadable', c, f'{n} {content}'[:300])
        return False
    if content[1] != exp_bits:
        good = False
        shape = 'length' if len(content[1]) != len(exp_bits) else 'content'
        ctx.mismatch(f'C01|{op}|{ic}|{shape}', c,
                     f'{op}: got {content[1][:80]!r} (len {len(content[1])}) expected {exp_bits[:80]!r} (len {len(exp_bits)})')
    if n[1] != len(exp_bits):
        good = False
        ctx.mismatch(f'C01|{op}|{ic}|len-of-result', c, f'{op}: len(result)={n[1]} expected {len(exp_bits)}')
    if type(r).__name__ in STREAMS:
        p = call(lambda: r.pos)
        if p != ('ok', 0):
            good = False
            ctx.mismatch(f'C01|{op}|{ic}|result-pos-nonzero', c, f'{op}: result.pos={p[1]!r}')
    if probe and type(r).__name__ in MUTABLE:
        # a mutable result must be a fresh object: changing it leaves every operand as it was
        m = call(lambda: (r.invert() if len(r) else None, r.append('0b1')))
        ctx.op('alias-probe', 'ok' if m[0] == 'ok' else _exc(m))
        bad = [i for i, (o, bits) in enumerate(operands) if call(lambda: B(o)) != ('ok', bits)]
        if m[0] != 'ok':
            good = False
            ctx.mismatch(f'C01|{op}|{ic}|result-not-mutable:{_exc(m)}', c, repr(m[1])[:200])
        elif bad:
            good = False
            ctx.mismatch(f'C01|{op}|{ic}|result-aliases-operand', c,
                         f'{op}: mutating the result changed operand #{bad[0]}')
            raise Poisoned()
        else:
            ctx.ok((key, 'fresh'), nontrivial)
    if good:
        ctx.ok(key, nontrivial)
    return good


def check_raises(ctx, c, op, ic, got, classes, key):
    ctx.op(op, 'ok' if got[0] == 'ok' else _exc(got))
    if got[0] == 'ok':
        ctx.mismatch(f'C01|{op}|{ic}|no-raise', c, f'{op}: returned {str(got[1])[:80]!r}, expected {classes}')
    elif not exc_matches(got[1], classes):
        ctx.mismatch(f'C01|{op}|{ic}|wrong-exc:{_exc(got)}', c, f'{op}: raised {got[1]!r}, expected {classes}'[:300])
    else:
        ctx.ok(key, True)


def check_operand(ctx, c, op, ic, s, bits, pos=None):
    """The operand still reads as its bits (and a stream operand kept its position)."""
    now = call(lambda: (len(s), B(s)))
    if now != ('ok', (len(bits), bits)):
        ctx.mismatch(f'C01|{op}|{ic}|operand-modified', c, f'operand now {str(now)[:120]} expected {bits[:80]!r}')
        return False
    ctx.ok()
    return True


# ---- seq: len, bool, iteration, indexing ---------------------------------------------------------
class _IntSub(int):
    pass


class _IndexOnly:
    """Not an int: implements __index__ (and is registered as numbers.Integral), like numpy's integer scalars."""
    def __init__(self, v):
        self.v = v

    def __index__(self):
        return self.v

    def __int__(self):
        return self.v

    def __lt__(self, o):
        return self.v < int(o)

    def __ge__(self, o):
        return self.v >= int(o)

    def __neg__(self):
        return _IndexOnly(-self.v)

    def __add__(self, o):
        return _IndexOnly(self.v + int(o))

    __radd__ = __add__


import numbers as _numbers  # noqa: E402
_numbers.Integral.register(_IndexOnly)
INDEX_KINDS = [('int-subclass', _IntSub), ('registered-Integral', _IndexOnly)]
try:
    import numpy as _np
    INDEX_KINDS.append(('numpy.int64', _np.int64))
except Exception:  # noqa: BLE001 - numpy is optional
    pass


def index_class(i: int, L: int) -> str:
    if abs(i) > 10 ** 9:
        return 'huge'
    if i >= L:
        return 'beyond-end'
    if i < -L:
        return 'beyond-start'
    return 'in-range-negative' if i < 0 else 'in-range'


def judge_seq(ctx, c):
    bits, L, cn = c['bits'], len(c['bits']), c['s'][0]
    s = build(c['s'], c.get('pos'))
    lb = lbucket(L)
    ec = 'empty' if L == 0 else 'nonempty'
    built = call(lambda: B(s))
    if built != ('ok', bits) or type(s) is not CLASSES[cn]:
        ctx.op('slice', 'ok')
        ctx.mismatch('C01|slice|route-slice-of-larger|content-or-class', c, f'built object reads {str(built)[:120]}')
        return
    got = call(lambda: len(s))
    ctx.op('len', got[0] if got[0] == 'ok' else _exc(got))
    if got == ('ok', L):
        ctx.ok((cn, lb, 'len'), L > 0)
    else:
        ctx.mismatch(f'C01|len|{ec}|value', c, f'len -> {got[1]!r} expected {L}')
    got = call(lambda: bool(s))
    ctx.op('bool', got[0] if got[0] == 'ok' else _exc(got))
    if got[0] == 'ok' and got[1] is (L > 0):
        ctx.ok((cn, lb, 'bool'), L > 0)
    else:
        ctx.mismatch(f'C01|bool|{ec}|value', c, f'bool -> {got[1]!r} expected {L > 0}')
    exp = [ch == '1' for ch in bits]
    got = call(lambda: list(s))
    ctx.op('iter', got[0] if got[0] == 'ok' else _exc(got))
    if got[0] == 'ok' and got[1] == exp:
        ctx.ok((cn, lb, 'iter', 'list'), L > 0)
    else:
        shape = 'value' if got[0] == 'ok' else 'unexpected-exc:' + _exc(got)
        ctx.mismatch(f'C01|iter|{ec}|{shape}', c, f'list(s) -> {str(got[1])[:120]}')
    # two independent iterators, interleaved, then exhausted -> StopIteration stays
    def two():
        i1, i2 = iter(s), iter(s)
        a, b2 = [], []
        for _ in range(min(L, 40) + 1):
            a.append(next(i1, 'end'))
            b2.append(next(i2, 'end'))
        return a, b2, sum(1 for _ in i1) + len(a) - (a[-1:] == ['end'])
    got = call(two)
    ctx.op('iter', got[0] if got[0] == 'ok' else _exc(got))
    e40 = (exp + ['end'])[:min(L, 40) + 1]
    if got[0] == 'ok' and got[1][0] == e40 and got[1][1] == e40 and got[1][2] == L:
        ctx.ok((cn, lb, 'iter', 'interleaved'), L > 0)
    else:
        shape = 'value' if got[0] == 'ok' else 'unexpected-exc:' + _exc(got)
        ctx.mismatch(f'C01|iter|{ec}-two-iterators|{shape}', c, f'-> {str(got[1])[:160]}')
    got = call(lambda: list(reversed(s)))
    ctx.op('reversed', got[0] if got[0] == 'ok' else _exc(got))
    if got == ('ok', exp[::-1]):
        ctx.ok((cn, lb, 'reversed'), L > 0)
    else:
        shape = 'value' if got[0] == 'ok' else 'unexpected-exc:' + _exc(got)
        ctx.mismatch(f'C01|reversed|{ec}|{shape}', c, f'-> {str(got[1])[:120]}')
    for i in c['idx']:
        got = call(lambda: s[i])
        ic = index_class(i, L)
        if -L <= i < L:
            ctx.op('index', got[0] if got[0] == 'ok' else _exc(got))
            if got[0] == 'ok' and (got[1] is True or got[1] is False) and got[1] == (bits[i] == '1'):
                ctx.ok((cn, lb, 'index', ic), True)
            else:
                shape = 'value' if got[0] == 'ok' else 'unexpected-exc:' + _exc(got)
                ctx.mismatch(f'C01|index|{ic}|{shape}', dict(c, idx=[i]), f's[{i}] -> {got[1]!r} expected {bits[i] == "1"}')
        else:
            check_raises(ctx, dict(c, idx=[i]), 'index', ic, got, 'IndexError', (cn, lb, 'index', ic))
    # the same indices given as other integer types (an int subclass, a numpy integer, a class that only implements __index__
    # and is registered as numbers.Integral): an index is an integer whatever its class
    sample = [i for i in c['idx'] if abs(i) < 10 ** 6][:: max(1, len(c['idx']) // 7)][:8]
    for i in sample:
        for kind, wrap in INDEX_KINDS:
            k = wrap(i)
            got = call(lambda: s[k])
            ic = index_class(i, L) + ',' + kind
            if -L <= i < L:
                ctx.op('index', got[0] if got[0] == 'ok' else _exc(got))
                if got[0] == 'ok' and (got[1] is True or got[1] is False) and got[1] == (bits[i] == '1'):
                    ctx.ok((cn, 'index', kind, index_class(i, L)), True)
                else:
                    shape = 'value' if got[0] == 'ok' else 'unexpected-exc:' + _exc(got)
                    ctx.mismatch(f'C01|index|{ic}|{shape}', dict(c, idx=[i]), f's[{kind}({i})] -> {got[1]!r:.80} expected {bits[i] == "1"}')
            else:
                check_raises(ctx, dict(c, idx=[i]), 'index', ic, got, 'IndexError', (cn, 'index', kind, index_class(i, L)))
    check_operand(ctx, c, 'seq', ec, s, bits)
    ctx.state(cn, L, 'seq', len(c['s']) > 2)


def idx_list(rng, L: int):
    if L <= 129:
        return list(range(-L - 2, L + 2)) + HUGE
    pool = [0, 1, 2, 7, 8, 9, 63, 64, 65, L // 2, L - 2, L - 1, L, L + 1, -1, -2, -8, -9, -64, -65,
            -L + 1, -L, -L - 1, -L - 2] + HUGE
    return pool + [rng.randint(-L - 2, L + 1) for _ in range(40)]


# ---- slices --------------------------------------------------------------------------------------
def slice_class(a, z, st, L):
    def pc(v):
        if v is None:
            return 'none'
        if abs(v) > L:
            return 'out+' if v > 0 else 'out-'
        return 'neg' if v < 0 else 'in'
    if st is None:
        sc = 'step-none'
    elif st == 0:
        sc = 'step-zero'
    elif st in (1, -1):
        sc = f'step{st:+d}'
    else:
        sc = 'step>1' if st > 0 else 'step<-1'
    return sc, pc(a), pc(z)


def judge_slices(ctx, c, s, bits, triples, probe_every):
    L, cn = len(bits), c['s'][0]
    cls = CLASSES[cn]
    lb = lbucket(L)
    for j, (a, z, st) in enumerate(triples):
        sc, ac, zc = slice_class(a, z, st, L)
        got = call(lambda: s[a:z:st])
        one = dict(c, k='slice', triples=[[a, z, st]])
        if st == 0:
            check_raises(ctx, one, 'slice', 'step-zero', got, 'ValueError', (cn, lb, 'slice', sc))
            continue
        e = bits[a:z:st]
        ic = f'{sc},{"expected-empty" if not e else "expected-nonempty"}'
        probe = bool(e) and cn in MUTABLE and (j % probe_every == 0 or len(e) == L)
        check_result(ctx, one, 'slice', ic, got, cls, e, (cn, lb, 'slice', sc, ac, zc), L > 0 and bool(e),
                     operands=[(s, bits)], probe=probe)


def judge_slice(ctx, c):
    bits = c['bits']
    s = build(c['s'], c.get('pos'))
    if call(lambda: B(s)) != ('ok', bits):
        ctx.op('slice', 'ok')
        ctx.mismatch('C01|slice|route-slice-of-larger|content-or-class', c, 'built object does not read as its bits')
        return
    if c['k'] == 'sliceprod':
        L = len(bits)
        triples = itertools.product(pos_pool(L), pos_pool(L), step_pool(L))
        every = 16
    elif c['k'] == 'slicetiny':
        v = tiny_values(len(bits))
        triples = ((a, z, st) for a in v for z in v for st in v if st != 0)
        every = 8
    else:
        triples = c['triples']
        every = 4
    judge_slices(ctx, c, s, bits, triples, every)
    check_operand(ctx, c, 'slice', 'any', s, bits)
    ctx.state(c['s'][0], len(bits), c['k'], len(c['s']) > 2)


# ---- concatenation ---------------------------------------------------------------------------------
def add_input_class(ls, rs):
    """(op, input class) of an addition case from the operand specs."""
    if rs[0] == 'self':
        return 'add', 'same-object'
    lb_, rb_ = is_bs(ls), is_bs(rs)
    ll, rl = len(ls[1]), len(rs[1])
    if lb_ and rb_:
        if rl > ll:
            rel = 'subclass-of-left' if (ls[0], rs[0]) in SUBCLASS_OF else \
                  'same-class' if ls[0] == rs[0] else 'not-subclass-of-left'
            return 'add', f'right-operand-longer,{rel}'
        rel = 'subclass-of-left' if (ls[0], rs[0]) in SUBCLASS_OF else \
              'same-class' if ls[0] == rs[0] else 'not-subclass-of-left'
        return 'add', f'right-operand-not-longer,{rel}'
    if lb_:
        return 'add', 'promotable-right-' + ('longer' if rl > ll else 'not-longer')
    return 'radd', 'promotable-left-' + ('shorter' if ll < rl else 'not-shorter')


def judge_add(ctx, c):
    ls, rs = c['left'], c['right']
    left = build(ls, c.get('lpos'))
    right = build(rs, c.get('rpos'), receiver=left)
    lbits = ls[1]
    rbits = lbits if rs[0] == 'self' else rs[1]
    op, ic = add_input_class(ls, rs)
    exp_cls = CLASSES[ls[0]] if is_bs(ls) else CLASSES[rs[0]]
    operands = []
    if is_bs(ls):
        operands.append((left, lbits))
    if is_bs(rs):
        operands.append((right, rbits))
    lsnap, rsnap = snapshot(left), snapshot(right)
    lpos = left.pos if ls[0] in STREAMS else None
    rpos = right.pos if rs[0] in STREAMS else None
    lsb0 = bool(c.get('lsb0'))
    with util.options(lsb0=lsb0):      # + takes no position: its result is the same in both bit-numbering modes
        got = call(lambda: left + right)
    if lsb0:
        ic += ',lsb0'
    key = (ls[0], rs[0], op, lbucket(len(lbits)), 'r>l' if len(rbits) > len(lbits) else 'r<=l', lsb0)
    nontrivial = bool(lbits or rbits)
    # the catalogued defect gets its own, narrow failure shape: the result has the *right* operand's class
    if (got[0] == 'ok' and is_bs(ls) and is_bs(rs) and type(got[1]) is not exp_cls
            and type(got[1]) is CLASSES[rs[0]]):
        ctx.mismatch(f'C01|{op}|{ic}|result-class-of-right-operand', c,
                     f'{ls[0]}(len {len(lbits)}) + {rs[0]}(len {len(rbits)}) is a {type(got[1]).__name__}')
        exp_cls = type(got[1])       # content / pos / aliasing are still judged
    check_result(ctx, c, op, ic, got, exp_cls, lbits + rbits,
                 key, nontrivial, operands=operands, probe=True)
    # operands (bitstrings and mutable promotables) are as before; stream operands keep their position
    for o, b in operands:
        check_operand(ctx, c, op, ic, o, b)
    for o, snap, side in ((left, lsnap, 'left'), (right, rsnap, 'right')):
        if snap is not None:
            now = snapshot(o)
            if now != snap:
                ctx.mismatch(f'C01|{op}|{ic}|promotable-operand-modified', c, f'{side} {type(o).__name__} changed')
            else:
                ctx.ok()
    for o, p, side in ((left, lpos, 'left'), (right, rpos, 'right')):
        if p is not None and call(lambda: o.pos) != ('ok', p):
            ctx.mismatch(f'C01|{op}|{ic}|operand-pos-moved', c, f'{side} operand pos {p} -> {o.pos}')
    ctx.state(ls[0], rs[0], len(lbits), len(rbits))


# ---- repetition ----------------------------------------------------------------------------------------
def mul_class(n: int) -> str:
    if n < 0:
        return 'n<0'
    if n in (0, 1, 2):
        return f'n={n}'
    return 'n-power-of-two' if n & (n - 1) == 0 else 'n-power-of-two-plus-one' if (n - 1) & (n - 2) == 0 else 'n-other'


def judge_mul(ctx, c):
    bits, L, cn = c['bits'], len(c['bits']), c['s'][0]
    s = build(c['s'], c.get('pos'))
    cls = CLASSES[cn]
    if call(lambda: B(s)) != ('ok', bits):
        ctx.op('slice', 'ok')
        ctx.mismatch('C01|slice|route-slice-of-larger|content-or-class', c, 'built object does not read as its bits')
        return
    pos = s.pos if cn in STREAMS else None
    for n in c['ns']:
        ic = mul_class(n) + (',empty' if L == 0 else '')
        if c.get('lsb0'):
            ic += ',lsb0'
        for op, f in (('mul', lambda: s * n), ('rmul', lambda: n * s)):
            with util.options(lsb0=bool(c.get('lsb0'))):
                got = call(f)
            one = dict(c, ns=[n])
            key = (cn, lbucket(L), op, mul_class(n), len(c['s']) > 2, bool(c.get('lsb0')))
            if n < 0:
                check_raises(ctx, one, op, ic, got, 'ValueError', key)
            else:
                check_result(ctx, one, op, ic, got, cls, bits * n, key, L > 0 and n > 0,
                             operands=[(s, bits)], probe=True)
    check_operand(ctx, c, 'mul', 'any', s, bits)
    if pos is not None and call(lambda: s.pos) != ('ok', pos):
        ctx.mismatch('C01|mul|any|operand-pos-moved', c, f'pos {pos} -> {s.pos}')
    ctx.state(cn, L, 'mul', len(c['s']) > 2)


JUDGES = {'seq': judge_seq, 'slice': judge_slice, 'sliceprod': judge_slice, 'slicetiny': judge_slice,
          'add': judge_add, 'mul': judge_mul}


def judge(ctx, c):
    with util.options(lsb0=False, bytealigned=False):
        try:
            JUDGES[c['k']](ctx, c)
        except Poisoned:
            pass


# ---- workload ----------------------------------------------------------------------------------------------
def rpos(rng, L):
    return rng.choice([None, 0, min(1, L), L // 2, L, max(L - 1, 0), rng.randint(0, L)])


def directed(ctx):
    """Hand-aimed shapes every run must see, incl. the reproducer of the catalogued defect
    (left operand shorter than a right operand whose class is a subclass of the left's)."""
    cases = [{'k': 'add', 'left': ['Bits', '1'], 'right': ['BitArray', '101']}]           # C01-D1 reproducer
    for base, sub in sorted(SUBCLASS_OF):
        cases.append({'k': 'add', 'left': [base, '10'], 'right': [sub, '0110'], 'lpos': 1, 'rpos': 3})
        cases.append({'k': 'add', 'left': [base, '0110'], 'right': [sub, '10'], 'lpos': 1, 'rpos': 1})   # adjacent: not longer
        cases.append({'k': 'add', 'left': [sub, '10'], 'right': [base, '0110'], 'lpos': 1, 'rpos': 3})   # adjacent: longer, not a subclass
    for cn in CLASS_NAMES:
        cases.append({'k': 'add', 'left': [cn, '1011'], 'right': ['self'], 'lpos': 2})
        cases.append({'k': 'add', 'left': [cn, ''], 'right': ['self']})
        cases.append({'k': 'add', 'left': [cn, '1011', '1', '00'], 'right': ['str', '']})
        cases.append({'k': 'add', 'left': ['list', ''], 'right': [cn, '1011'], 'rpos': 4})
        cases.append({'k': 'mul', 's': [cn, '101'], 'bits': '101', 'pos': 2, 'ns': MUL_NS})
        cases.append({'k': 'mul', 's': [cn, ''], 'bits': '', 'ns': [-1, 0, 1, 2, 1000]})
        cases.append({'k': 'seq', 's': [cn, ''], 'bits': '', 'idx': [0, -1, 1]})
        cases.append({'k': 'seq', 's': [cn, '1'], 'bits': '1', 'pos': 1, 'idx': [0, -1, 1, -2]})
        cases.append({'k': 'slice', 's': [cn, '00110'], 'bits': '00110', 'pos': 3,
                      'triples': [[1, 4, None], [None, None, None], [None, None, -1], [-1, None, -2], [None, None, 0], [4, 1, 1]]})
    for c in cases:
        ctx.run_case(judge, c)


def run(ctx):
    rng = ctx.rng
    if ctx.shard == 0:
        directed(ctx)

    # (a) tiny lengths: all contents x all triples with values in [-L-2, L+2] or None
    tmax = 4 if ctx.quick else 6
    i = 0
    for L in range(tmax + 1):
        for v in range(2 ** L):
            bits = format(v, f'0{L}b') if L else ''
            for cn in CLASS_NAMES:
                i += 1
                if ctx.mine(i):
                    route = [rb(rng, 3), rb(rng, 2)] if (v + L) % 2 else None
                    ctx.run_case(judge, {'k': 'slicetiny', 's': bs_spec(rng, cn, bits, route), 'bits': bits, 'pos': rpos(rng, L)})
    ctx.exhaustive[f'slice: L<={tmax}, all contents, 4 classes, all start/stop/step in [-L-2,L+2] or None'] = True

    # (b) pool product for every pool length <= 33, 4 classes, both routes
    reps = 2 if ctx.quick else 40
    i = 0
    for rep in range(reps):
        for L in PRODUCT_LENGTHS:
            for cn in CLASS_NAMES:
                for route in (None, 'slice'):
                    i += 1
                    if ctx.mine(i):
                        bits = util.content(rng, L) if rep else rb(rng, L)
                        r = [rb(rng, rng.choice([1, 3, 5, 7, 9, 11])), rb(rng, rng.choice([0, 1, 5, 8]))] if route else None
                        c = {'k': 'sliceprod', 's': bs_spec(rng, cn, bits, r), 'bits': bits, 'pos': rpos(rng, L)}
                        ctx.run_case(judge, c)
                        if i % 29 == 0:
                            ctx.sample(short(c))
    ctx.exhaustive['slice: position-pool x position-pool x step-pool product for every pool length <= 33, 4 classes, 2 routes'] = True

    # (c) seq: len / bool / iteration / every index
    big = [65536, 131072] if ctx.quick else [20000, 70001, 65536, 65536 * 2, 65536 * 3, 65535, 65537, 1 << 20]      # exact multiples of 64 Kibit and their neighbours
    i = 0
    for rep in range(2 if ctx.quick else 6):
        for L in util.LENGTHS + (big if rep == 0 or not ctx.quick else []):
            for cn in CLASS_NAMES:
                for route in (None, 'slice'):
                    i += 1
                    if ctx.mine(i):
                        bits = util.content(rng, L)
                        r = rand_route(rng) or [rb(rng, 5), ''] if route else None
                        c = {'k': 'seq', 's': bs_spec(rng, cn, bits, r), 'bits': bits, 'pos': rpos(rng, L), 'idx': idx_list(rng, L)}
                        ctx.run_case(judge, c)
                        if i % 97 == 0:
                            ctx.sample(short(c))
    ctx.exhaustive['index: every i in [-L-2, L+1] for every pool length <= 129, 4 classes, 2 routes'] = True

    # (d) random slices over the whole length pool
    for i in range(ctx.scale(6000, 150000)):
        r = rng.random()
        L = rng.choice(util.LENGTHS) if r < 0.9 or ctx.quick else rng.choice([20000, 70001])
        if r < 0.3:
            L = rng.randint(0, 140)
        bits = util.content(rng, L)
        cn = rng.choice(CLASS_NAMES)
        c = {'k': 'slice', 's': bs_spec(rng, cn, bits), 'bits': bits, 'pos': rpos(rng, L),
             'triples': [rand_triple(rng, L) for _ in range(40 if L > 4097 else 100)]}
        ctx.run_case(judge, c)
        if i % 499 == 0:
            ctx.sample(short(c))

    # (e) concatenation: every ordered kind pair with at least one bitstring x length-pair shapes
    kinds = CLASS_NAMES + PROMOTABLE
    pairs = [(a, b) for a in kinds for b in kinds if a in CLASSES or b in CLASSES] + [(a, 'self') for a in CLASS_NAMES]
    i = 0
    for rep in range(8 if ctx.quick else 60):
        for (ka, kb) in pairs:
            n = rng.choice([1, 2, 3, 7, 8, 9, 16, 31, 32, 33, 63, 64, 65, 128, 1000])
            shapes = [(0, 0), (0, n), (n, 0), (n, n), (n, n + 1), (n + 1, n), (1, 3), (3, 1), (7, 9), (9, 7), (8, 16), (16, 8),
                      (n, rng.choice(util.MID_LENGTHS)), (rng.choice(util.MID_LENGTHS), n),
                      (rng.choice(util.LENGTHS), rng.choice(util.LENGTHS))]
            if not ctx.quick:
                shapes += [(rng.randint(0, 70), rng.randint(0, 70)), (20000, 8), (8, 20000)]
            for (la, lb_) in shapes:
                i += 1
                if not ctx.mine(i):
                    continue
                lbits = fit_bits(rng, ka, la)
                left = bs_spec(rng, ka, lbits) if ka in CLASSES else [ka, lbits]
                if kb == 'self':
                    right = ['self']
                else:
                    rbits = fit_bits(rng, kb, lb_)
                    right = bs_spec(rng, kb, rbits) if kb in CLASSES else [kb, rbits]
                c = {'k': 'add', 'left': left, 'right': right, 'lpos': rpos(rng, len(lbits)),
                     'rpos': rpos(rng, len(right[1])) if kb != 'self' else None, 'lsb0': i % 4 == 3}
                ctx.run_case(judge, c)
                if i % 499 == 0:
                    ctx.sample(short(c))
    ctx.exhaustive['add: every ordered operand-kind pair (4 classes + 11 promotable kinds, >=1 bitstring; s+s) x every length-pair shape'] = True

    # (f) repetition
    i = 0
    for rep in range(2 if ctx.quick else 8):
        for L in util.LENGTHS + big:
            for cn in CLASS_NAMES:
                i += 1
                if ctx.mine(i):
                    bits = util.content(rng, L)
                    ns = [n for n in MUL_NS if L * n <= 300000]
                    if L > 2000:
                        ns = [n for n in ns if n <= 9] if ctx.quick else ns
                    ns = ns + [rng.randint(2, 70)]
                    c = {'k': 'mul', 's': bs_spec(rng, cn, bits), 'bits': bits, 'pos': rpos(rng, L), 'ns': ns, 'lsb0': i % 4 == 3}
                    ctx.run_case(judge, c)
                    if i % 41 == 0:
                        ctx.sample(short(c))


def replay(ctx, case):
    ctx.run_case(judge, case)
