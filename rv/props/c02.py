"""C02 - value <-> bits round trip and canonical encoding for every fixed dtype."""
from __future__ import annotations

import math

import bitstring
from bitstring import Array, BitArray, Bits, BitStream, ConstBitStream, Dtype, pack

from rv import util
from rv.model import codecs as K
from rv.util import B, CLASSES, call, mk, rb

AMBIENT = ['bytealigned']      # an option this property does not depend on: a quarter of the cases run with it switched on
PROP = 'C02'
SHARDS = {'quick': 4, 'thorough': 16}
RULE = ("for (dtype, n, value) with dtype in uint/int (+u/i), their be/le/ne forms, hex/oct/bin (+h/o/b), bytes, bool, bits, "
        "float 16/32/64 in be/le/ne (+f), n over 1..72 and {100,127,128,129,255,256,257,300,512,1000} (whole bytes for endian "
        "types), boundary-biased values (0, +-1, min, max, min+1, max-1, 2^k, 2^k+-1, random; floats incl. +-0.0, "
        "subnormals, inf, nan, values needing rounding / overflowing): every creation route (keyword+length, keyword with "
        "length in the name, property assignment with/without length in the name, two token-string spellings, "
        "Dtype(name, n).build, Dtype('namen').build, pack positional / '=v' / keyword length / keyword value, Array) must "
        "give exactly the canonical bits and every reading route (property, property with length, Dtype.parse, unpack "
        "sized and stretchy, read, peek, readlist, Array item) the value; plus pattern -> interpret -> rebuild == pattern "
        "for random patterns and every pattern of n <= 10 (thorough). key = (dtype, n class, value class, route); "
        "non-trivial = value != 0 / pattern not all-zero")
ANCHORS = ['int2bitstore', 'intle2bitstore', 'float2bitstore', 'hex2bitstore', 'oct2bitstore', 'bin2bitstore', 'Bits._initialise',
           'Bits.__getattr__', 'BitArray.__setattr__', 'Dtype.build', 'Dtype.parse', 'DtypeDefinition.get_dtype', 'Bits._getuintle',
           'Bits._getintle', 'Bits._getfloatle', 'Bits._getfloatbe', 'BitStore.slice_to_int', 'BitStore.slice_to_uint']
REQUIRED_OPS = ['create', 'read', 'pattern-roundtrip']
MIN_EVALS = {'quick': 20000, 'thorough': 300000}
ASSUMPTIONS = ['struct.pack is the definition of the IEEE 754 encodings (as the statement says)', 'NaN payload bits are not judged']

INT_NAMES = ['uint', 'int', 'u', 'i']
ENDIAN_NAMES = ['uintbe', 'intbe', 'uintle', 'intle', 'uintne', 'intne']
STR_NAMES = ['hex', 'oct', 'bin', 'h', 'o', 'b']
FLOAT_NAMES = ['float', 'floatbe', 'floatle', 'floatne', 'f']
N_ANY = list(range(1, 73)) + [100, 127, 128, 129, 255, 256, 257, 300, 512, 1000]
N_BYTES = list(range(8, 81, 8)) + [128, 256, 1000]


def family(name):
    c = K.canon(name)
    if c in ('uint', 'int'):
        return 'int'
    if c in ('uintbe', 'intbe', 'uintle', 'intle'):
        return 'endian-int'
    if c in ('float', 'floatle'):
        return 'float'
    return c


def fmtval(name, v):
    """value as written after '=' in a token string"""
    if family(name) == 'float':
        return repr(v)
    if K.canon(name) == 'bits':
        return '0b' + v
    return str(v)


def pyv(name, v):
    if isinstance(v, dict):
        return bytes.fromhex(v['b'])
    if K.canon(name) == 'bits':
        return mk(Bits, v)
    return v


def gen_case(ctx):
    rng = ctx.rng
    r = rng.random()
    if r < 0.3:
        name = rng.choice(INT_NAMES)
        n = rng.choice(N_ANY)
    elif r < 0.5:
        name = rng.choice(ENDIAN_NAMES)
        n = rng.choice(N_BYTES)
    elif r < 0.65:
        name = rng.choice(STR_NAMES)
        unit = {'hex': 4, 'h': 4, 'oct': 3, 'o': 3, 'bin': 1, 'b': 1}[name]
        n = unit * rng.choice([1, 2, 3, 5, 8, 16, 33])
    elif r < 0.85:
        name = rng.choice(FLOAT_NAMES)
        n = rng.choice([16, 32, 64])
    elif r < 0.9:
        name, n = 'bytes', rng.choice([1, 2, 3, 8, 17])
    elif r < 0.95:
        name, n = 'bool', 1
    else:
        name, n = 'bits', rng.choice([1, 5, 8, 13, 64])
    c = K.canon(name)
    v = K.rand_value(rng, c, n)
    if family(name) == 'int' or family(name) == 'endian-int':
        signed = c.startswith('int')
        extra = [1 << k for k in range(n - (1 if signed else 0))] + [(1 << k) - 1 for k in range(1, n)]
        if rng.random() < 0.3 and extra:
            v = rng.choice(extra)
            if signed and rng.random() < 0.5:
                v = -v
    if isinstance(v, bytes):
        v = {'b': v.hex()}
    return {'name': name, 'n': n, 'value': v, 'cls': rng.choice(util.CLASS_NAMES), 'mcls': rng.choice(util.MUTABLE)}


def vclass(name, v):
    if isinstance(v, float):
        return 'nan' if v != v else 'inf' if math.isinf(v) else 'zero' if v == 0 else 'finite'
    if isinstance(v, bool):
        return str(v)
    if isinstance(v, int):
        return 'zero' if v == 0 else 'neg' if v < 0 else 'pos'
    return 'str'


def judge(ctx, case):
    name, n, v = case['name'], case['n'], case['value']
    cls = CLASSES[case['cls']]
    mcls = CLASSES[case['mcls']]
    c = K.canon(name)
    fam = family(name)
    pv = pyv(name, v)
    exp = K.encode(c, n, pv if not isinstance(pv, Bits) else v)
    nbits = len(exp)
    nontrivial = '1' in exp
    has_len_in_name = fam not in ('bool',)
    sv = fmtval(name, v)
    with util.options(lsb0=False):
        # ---------------- creation routes ---------------------------------------------------------------------------
        routes = {}
        if fam == 'bytes':
            routes['kw'] = lambda: cls(bytes=pv)
            # the value handed over in a writable buffer that the caller goes on to change
            routes['kw-bytearray-changed-afterwards'] = lambda: _then_scribble(bytearray(pv), lambda b: cls(bytes=b))
            routes['auto-memoryview-changed-afterwards'] = lambda: _then_scribble(bytearray(pv), lambda b: cls(memoryview(b)))
            routes['prop+len'] = lambda: _assign(mcls(), f'bytes{n}', pv)
            # the length of 'bytes' counts bytes in a keyword or Dtype name and bits in the length argument
            routes['kw-len-in-name'] = lambda: cls(**{f'bytes{n}': pv})
            routes['kw+length'] = lambda: cls(bytes=pv, length=8 * n)
            routes['prop'] = lambda: _assign(mcls(8 * n), 'bytes', pv)
            routes['Array'] = lambda: Array(f'bytes{n}', [pv]).data
            routes['Array-Dtype'] = lambda: Array(Dtype('bytes', n), [pv, pv]).data[8 * n:]
            routes['Dtype(name,n).build'] = lambda: Dtype('bytes', n).build(pv)
            routes["Dtype('namen').build"] = lambda: Dtype(f'bytes{n}').build(pv)
            routes['pack-pos'] = lambda: pack(f'bytes:{n}', pv)
            routes['pack-kwlen'] = lambda: pack('bytes:k', pv, k=n)
            routes['pack-kwval'] = lambda: pack(f'bytes:{n}=x', x=pv)
        elif fam == 'bool':
            routes['kw'] = lambda: cls(bool=pv)
            routes['token'] = lambda: cls(f'bool={pv}')
            routes['token-1'] = lambda: cls(f'bool:1={int(pv)}')
            routes['prop'] = lambda: _assign(mcls(1), 'bool', pv)
            routes['Dtype(name,n).build'] = lambda: Dtype('bool', 1).build(pv)
            routes["Dtype('namen').build"] = lambda: Dtype('bool').build(pv)
            routes['pack-pos'] = lambda: pack('bool', pv)
            routes['pack-eq'] = lambda: pack(f'bool={pv}')
            routes['Array'] = lambda: Array('bool', [pv]).data
            routes['kw-after-prop-target-mutated'] = lambda: (_mutated(_assign(mcls(1), 'bool', pv)), cls(bool=pv))[1]
        elif fam == 'bits':
            routes['Dtype(name,n).build'] = lambda: Dtype('bits', n).build(pv)
            routes['pack-pos'] = lambda: pack(f'bits:{n}', pv)
            routes['pack-kwval'] = lambda: pack(f'bits:{n}=x', x=pv)
            routes['token'] = lambda: cls(f'bits:{n}={sv}')
            routes['Array'] = lambda: Array(f'bits{n}', [pv]).data
            # the value given as an iterable of arbitrary objects, each standing for bool(item); as a list and as iterators that can be walked once only
            routes['kw-truthy-list'] = lambda: cls(bits=util.truthy_items(v))
            routes['kw-one-shot-iterable'] = lambda: cls(bits=iter(util.truthy_items(v)))
            routes['prop-one-shot-iterable'] = lambda: _assign(mcls(), 'bits', (x for x in util.truthy_items(v)))
            routes['build-one-shot-iterable'] = lambda: Dtype('bits', n).build(map(lambda x: x, util.truthy_items(v)))
        else:
            routes['kw+length'] = lambda: cls(**{name: pv, 'length': n})
            routes['kw-len-in-name'] = lambda: cls(**{f'{name}{n}': pv})
            routes['prop'] = lambda: _assign(mcls(n), name, pv)
            routes['prop+len'] = lambda: _assign(mcls(), f'{name}{n}', pv)
            routes['token-colon'] = lambda: cls(f'{name}:{n}={sv}')
            routes['token-nocolon'] = lambda: cls(f'{name}{n}={sv}')
            routes['Dtype(name,n).build'] = lambda: Dtype(name, n).build(pv)
            routes["Dtype('namen').build"] = lambda: Dtype(f'{name}{n}').build(pv)
            routes['pack-pos'] = lambda: pack(f'{name}:{n}', pv)
            routes['pack-eq'] = lambda: pack(f'{name}:{n}={sv}')
            routes['pack-kwlen'] = lambda: pack(f'{name}:k', pv, k=n)
            routes['pack-kwval'] = lambda: pack(f'{name}:{n}=x', x=pv)
            # a list of format strings, then its first item alone again: the value of a creation call does not depend on earlier calls
            routes['pack-list'] = lambda: pack([f'{name}:{n}={sv}', 'uint:3=5', f'{name}:{n}'], pv)[:nbits]
            routes['pack-list-tail'] = lambda: pack([f'{name}:{n}={sv}', 'uint:3=5', f'{name}:{n}'], pv)[nbits + 3:]
            routes['pack-eq-after-list'] = lambda: pack(f'{name}:{n}={sv}')
            routes['Array'] = lambda: Array(f'{name}{n}', [pv]).data
            # the value assigned to a mutable object, that object changed in place, then the value created afresh
            routes['kw-after-prop-target-mutated'] = lambda: (_mutated(_assign(mcls(n), name, pv)), cls(**{name: pv, 'length': n}))[1]
            routes['prop+len-after-prop-target-mutated'] = lambda: (_mutated(_assign(mcls(), f'{name}{n}', pv)), _assign(mcls(), f'{name}{n}', pv))[1]
            # ... and a snapshot taken of that object BEFORE it is changed: still the value
            routes['snapshot-of-prop-target-then-target-mutated'] = lambda: _snapshot_then_mutate(_assign(mcls(n), name, pv), Bits)
            routes['snapshot-of-prop+len-target-then-target-mutated'] = lambda: _snapshot_then_mutate(_assign(mcls(), f'{name}{n}', pv), ConstBitStream)
            routes['copy-of-prop+len-target-then-target-mutated'] = lambda: _snapshot_then_mutate(_assign(mcls(), f'{name}{n}', pv), lambda t: t.copy())
            routes['snapshot-of-kw-object-then-object-mutated'] = lambda: _snapshot_then_mutate(mcls(**{name: pv, 'length': n}), Bits)
            # the token text (or an immutable object holding the value) assigned through the 'bits' property of a mutable object
            # which is then changed in place: the text still means the value, the immutable object still holds it
            routes['token-after-text-assigned-to-bits-prop-and-target-mutated'] = lambda: (
                _mutated(_assign(mcls(), 'bits', f'{name}:{n}={sv}')), cls(f'{name}:{n}={sv}'))[1]
            routes['token-after-text-assigned-to-bitsN-prop-and-target-mutated'] = lambda: (
                _mutated(_assign(mcls(), f'bits{nbits}', f'{name}{n}={sv}')), cls(f'{name}{n}={sv}'))[1]
            routes['kw-object-assigned-to-bits-prop-then-target-mutated'] = lambda: _source_of_mutated_target(Bits(**{name: pv, 'length': n}), mcls)
            if isinstance(pv, str) and pv.isidentifier():
                # a value that happens to be spelt like the name of an unrelated keyword argument is still a value
                routes['pack-pos-value-spelt-like-a-keyword'] = lambda: pack(f'{name}:{n}, uint:k_', pv, 0, k_=2, **{pv: 3})[:nbits]
                routes['pack-eq-kw-then-pos-value-spelt-like-it'] = lambda: pack(f'uint:3={pv}, {name}:{n}', pv, **{pv: 5})[3:]
            if fam in ('hex', 'oct', 'bin'):
                routes['kw-no-length'] = lambda: cls(**{name: pv})
                routes['kw-prefixed'] = lambda: cls(**{name: {'hex': '0x', 'oct': '0o', 'bin': '0b'}[fam] + pv})
        for rname, f in routes.items():
            got = call(f)
            ctx.op('create', 'ok' if got[0] == 'ok' else type(got[1]).__name__)
            isnan = isinstance(pv, float) and pv != pv
            if got[0] == 'ok' and isnan and len(got[1]) == nbits and math.isnan(K.decode(c, B(got[1]))):
                ctx.tolerate('T11')         # NaN payload bits are not judged
                ctx.ok((name, _nclass(n), 'nan', 'create:' + rname), True)
            elif got[0] == 'ok' and B(got[1]) == exp and len(got[1]) == nbits:
                ctx.ok((name, _nclass(n), vclass(name, v), 'create:' + rname), nontrivial)
            else:
                shape = 'unexpected-exc:' + type(got[1]).__name__ if got[0] == 'exc' else ('length' if len(got[1]) != nbits else 'bits')
                ctx.mismatch(f'C02|create:{rname}|{fam}|{shape}', case, f'{name}{n}={v!r:.40}: got {(B(got[1]) if got[0] == "ok" else got[1])!s:.80} expected {exp[:80]}')
        # ---------------- reading routes ----------------------------------------------------------------------------
        expv = K.decode(c, exp)
        s = mk(cls, exp)
        tok = f'{name}:{n}' if fam != 'bool' else 'bool'
        reads = {
            'prop': lambda: getattr(s, name),
            'Dtype.parse': lambda: (Dtype(name, n) if fam != 'bool' else Dtype('bool')).parse(s),
            'unpack-sized': lambda: s.unpack(tok)[0],
            'read': lambda: ConstBitStream(s).read(tok),
            'peek': lambda: BitStream(s).peek(tok),
            'readlist': lambda: ConstBitStream(s).readlist([tok])[0],
            'read-Dtype': lambda: ConstBitStream(s).read(Dtype(name, n) if fam != 'bool' else Dtype('bool')),
        }
        if fam not in ('bool', 'bytes'):
            # Dtype objects as items of a format list; the plain Dtype read right after a scaled one of the same name and length
            reads['readlist-[Dtype]-after-scaled'] = lambda: (call(lambda: ConstBitStream(s).readlist([Dtype(name, n, scale=4)])),
                                                              ConstBitStream(s).readlist([Dtype(name, n)])[0])[1]
            reads['unpack-[Dtype]'] = lambda: s.unpack([Dtype(name, n)])[0]
        if fam != 'bool':
            reads['unpack-kwlen'] = lambda: s.unpack(f'{name}:k', k=n)[0]
            # several keyword arguments, given in an order that is not the alphabetical one
            reads['unpack-kwlen-among-others'] = lambda: s.unpack(f'{name}:zk', zk=n, mk=n + 1, ak=3)[0]
            reads['readlist-kwlen-among-others'] = lambda: ConstBitStream(s).readlist(f'{name}:n', n=n, a=1, z=2)[0]
            reads['peeklist-kwlen-among-others'] = lambda: BitStream(s).peeklist([f'{name}:w'], w=n, b=5)[0]
            reads['readlist-kwlen'] = lambda: ConstBitStream(s).readlist(f'{name}:k', k=n)[0]
            reads['peeklist-kwlen'] = lambda: BitStream(s).peeklist([f'{name}:k'], k=n)[0]
            reads['prop+len'] = lambda: getattr(s, f'{name}{n}')
            reads['unpack-stretchy'] = lambda: s.unpack(name)[0]
            reads['read-stretchy'] = lambda: ConstBitStream(s).read(name)
        reads['Array-item'] = lambda: Array(f'{name}{n}' if fam != 'bool' else 'bool', s)[0]
        if fam == 'bits':
            reads.pop('prop', None)
            reads['prop'] = lambda: s.bits
        for rname, f in reads.items():
            got = call(f)
            ctx.op('read', 'ok' if got[0] == 'ok' else type(got[1]).__name__)
            if got[0] == 'ok' and K.same_value(got[1], expv) and _same_type(got[1], expv):
                ctx.ok((name, _nclass(n), vclass(name, v), 'read:' + rname), nontrivial)
            else:
                shape = 'unexpected-exc:' + type(got[1]).__name__ if got[0] == 'exc' else 'value'
                ctx.mismatch(f'C02|read:{rname}|{fam}|{shape}', case, f'{name}{n} bits {exp[:60]}: got {got[1]!r:.60} expected {expv!r:.60}')
        # the value of a whole bitstring does not depend on the bit numbering in force when it is read
        with util.options(lsb0=True):
            for rname in ('prop', 'Dtype.parse', 'unpack-sized', 'prop+len', 'read', 'read-Dtype'):
                if rname not in reads:
                    continue
                got = call(reads[rname])
                ctx.op('read', 'ok' if got[0] == 'ok' else type(got[1]).__name__)
                if got[0] == 'ok' and K.same_value(got[1], expv) and _same_type(got[1], expv):
                    ctx.ok((name, _nclass(n), vclass(name, v), 'read-under-lsb0:' + rname), nontrivial)
                else:
                    shape = 'unexpected-exc:' + type(got[1]).__name__ if got[0] == 'exc' else 'value'
                    ctx.mismatch(f'C02|read-under-lsb0:{rname}|{fam}|{shape}', case, f'{name}{n} bits {exp[:60]}: got {got[1]!r:.60} expected {expv!r:.60}')
        # value round trip (what was put in comes out; floats after rounding to the width)
        if fam == 'float':
            rt = K.decode(c, K.encode(c, n, pv))
            if not K.same_value(rt, expv):
                ctx.mismatch(f'C02|model|{fam}|self-check', case, '')
        elif fam not in ('bits',) and not K.same_value(expv, pv if fam not in ('hex', 'oct', 'bin') else K.tidy(pv, '')):
            ctx.mismatch(f'C02|model|{fam}|self-check', case, f'{expv!r} vs {pv!r}')
    ctx.state(name, n, exp if nbits < 80 else hash(exp))


def _then_scribble(buf, make):
    o = make(buf)
    for i in range(len(buf)):
        buf[i] ^= 0xff
    return o


def _mutated(o):
    if len(o):
        o.invert()
    o.append('0b1')
    return o


def _snapshot_then_mutate(t, snap):
    b = snap(t)
    _mutated(t)
    return b


def _source_of_mutated_target(src, mcls):
    _mutated(_assign(mcls(), 'bits', src))
    _mutated(_assign(mcls(), f'bits{len(src)}', src))
    return src


def _assign(o, attr, v):
    setattr(o, attr, v)
    return o


def _same_type(a, b):
    if isinstance(b, bool) or isinstance(a, bool):
        return isinstance(a, bool) == isinstance(b, bool)
    if isinstance(b, int):
        return isinstance(a, int)
    if isinstance(b, float):
        return isinstance(a, float)
    if isinstance(b, bytes):
        return isinstance(a, bytes)
    return True


def _nclass(n):
    return 'n1' if n == 1 else 'n<8' if n < 8 else 'n%8=0' if n % 8 == 0 else 'n>8' if n < 64 else 'n>=64'


def _flip0(m):
    m[0] = not m[0]


READ_HISTORY = [('reverse', lambda m: m.reverse()), ('invert', lambda m: m.invert()), ('ror', lambda m: m.ror(1)), ('setitem', _flip0),
                ('invert-last', lambda m: m.invert(-1)), ('rol', lambda m: m.rol(3)), ('set-all', lambda m: m.set(1)),
                ('reverse-under-lsb0', lambda m: _under_lsb0(m.reverse)), ('setitem-under-lsb0', lambda m: _under_lsb0(lambda: _flip0(m))),
                ('ixor', lambda m: m.__ixor__(~Bits(len(m)))), ('ilshift', lambda m: m.__ilshift__(1)), ('overwrite', lambda m: m.overwrite('0b1', 0)),
                ('byteswap', lambda m: m.byteswap() if len(m) % 8 == 0 else m.invert(0)), ('setslice', lambda m: m.__setitem__(slice(0, 1), '0b1')),
                ('prop-assign', lambda m: setattr(m, 'bin', '1' * len(m)))]


def _under_lsb0(f):
    with util.options(lsb0=True):
        return f()


def judge_pattern(ctx, case):
    """interpret any bit pattern of a valid length and rebuild from the result -> the pattern (NaN payloads excepted)"""
    name, pat = case['name'], case['pattern']
    n = len(pat)
    c = K.canon(name)
    fam = family(name)
    units = n // 8 if fam == 'bytes' else n
    with util.options(lsb0=False):
        s = mk(Bits, pat)
        got = call(lambda: getattr(s, name))
        ctx.op('pattern-roundtrip', 'ok' if got[0] == 'ok' else type(got[1]).__name__)
        if got[0] != 'ok':
            ctx.mismatch(f'C02|pattern-roundtrip|{fam}|interpret-unexpected-exc:{type(got[1]).__name__}', case, f'{got[1]!s:.80}')
            return
        v = got[1]
        if not K.same_value(v, K.decode(c, pat)):
            ctx.mismatch(f'C02|pattern-roundtrip|{fam}|interpret-value', case, f'got {v!r:.60} expected {K.decode(c, pat)!r:.60}')
            return
        if fam == 'bool':
            back = call(lambda: Bits(bool=v))
        elif fam == 'bytes':
            back = call(lambda: Bits(bytes=v))
        elif fam == 'bits':
            back = call(lambda: Dtype('bits', n).build(v))
        else:
            back = call(lambda: Bits(**{name: v, 'length': n}))
        isnan = isinstance(v, float) and v != v
        if back[0] == 'ok' and (B(back[1]) == pat or (isnan and len(back[1]) == n and math.isnan(K.decode(c, B(back[1]))))):
            if isnan:
                ctx.tolerate('T11')
            ctx.ok((name, _nclass(n), 'pattern'), '1' in pat)
        else:
            ctx.mismatch(f'C02|pattern-roundtrip|{fam}|rebuild', case, f'{name}: {pat[:60]} -> {v!r:.40} -> {(B(back[1]) if back[0] == "ok" else back[1])!s:.60}')
        # what every reading route returns is the interpretation of the bits the object holds NOW: a mutable object that was read,
        # changed in place (same length) and read again
        hsel = (hash(pat) ^ n) % len(READ_HISTORY)
        for mcls in (BitArray, BitStream) if n <= 512 else ():
            m = mk(mcls, pat)
            call(lambda: (getattr(m, name), m.tobytes()))
            for step in range(2):
                how, f = READ_HISTORY[(hsel + step * 3) % len(READ_HISTORY)]
                g = call(lambda: f(m))
                now = call(lambda: B(m))
                if g[0] != 'ok' or now[0] != 'ok' or len(now[1]) != n:
                    break
                expv = K.decode(c, now[1])
                tok = f'{name}:{units}' if fam != 'bool' else 'bool'
                dt = Dtype(name, units) if fam != 'bool' else Dtype('bool')
                reads = {'prop': lambda: getattr(m, name), 'Dtype.parse': lambda: dt.parse(m), 'unpack-sized': lambda: m.unpack(tok)[0],
                         'read': lambda: ConstBitStream(m).read(tok)}
                if fam != 'bool':
                    reads['prop+len'] = lambda: getattr(m, f'{name}{units}')
                if fam == 'bits':
                    reads['prop'] = lambda: m.bits
                ctx.op('read-after-in-place-change:' + how)
                for rname, rf in reads.items():
                    got = call(rf)
                    if got[0] == 'ok' and K.same_value(got[1], expv) and _same_type(got[1], expv):
                        ctx.ok((name, _nclass(n), 'read-after-change:' + rname), True)
                    else:
                        shape = 'unexpected-exc:' + type(got[1]).__name__ if got[0] == 'exc' else 'value'
                        ctx.mismatch(f'C02|read-after-in-place-change:{rname}|{fam}|{shape}', case,
                                     f'{name} after {how}: bits {now[1][:60]}: got {got[1]!r:.60} expected {expv!r:.60}')


def run(ctx):
    n = ctx.scale(20000, 300000)
    for i in range(n):
        c = gen_case(ctx)
        ctx.run_case(judge, c)
        if i % 999 == 0:
            ctx.sample(c)
    # patterns
    rng = ctx.rng
    names = INT_NAMES + ENDIAN_NAMES + STR_NAMES + FLOAT_NAMES + ['bytes', 'bool', 'bits']
    for i in range(ctx.scale(60000, 600000)):
        name = rng.choice(names)
        fam = family(name)
        if fam == 'bool':
            nn = 1
        elif fam == 'float':
            nn = rng.choice([16, 32, 64])
        elif fam in ('endian-int', 'bytes'):
            nn = 8 * rng.choice([1, 2, 3, 5, 8, 16])
        elif fam == 'hex':
            nn = 4 * rng.choice([1, 2, 3, 8, 17])
        elif fam == 'oct':
            nn = 3 * rng.choice([1, 2, 3, 8, 17])
        else:
            nn = rng.choice(N_ANY[:80])
        pat = rng.choice([rb(rng, nn), rb(rng, nn), '0' * nn, '1' * nn, '0' * (nn - 1) + '1', '1' + '0' * (nn - 1)])
        ctx.run_case(judge_pattern, {'name': name, 'pattern': pat})
    if not ctx.quick:
        # every pattern of n <= 10 for the integer / text interpretations
        k = 0
        for nn in range(1, 11):
            for x in range(1 << nn):
                k += 1
                if not ctx.mine(k):
                    continue
                pat = format(x, f'0{nn}b')
                for name in ('uint', 'int', 'bin') + (('hex',) if nn % 4 == 0 else ()) + (('oct',) if nn % 3 == 0 else ()) + (('uintle', 'intbe', 'bytes') if nn == 8 else ()):
                    ctx.run_case(judge_pattern, {'name': name, 'pattern': pat})
        ctx.exhaustive['all patterns of length <= 10 (uint, int, bin, hex, oct)'] = True
        k = 0
        for x in range(1 << 16):
            k += 1
            if ctx.mine(k):
                pat = format(x, '016b')
                for name in ('float', 'floatle'):
                    ctx.run_case(judge_pattern, {'name': name, 'pattern': pat})
        ctx.exhaustive['all 65536 float16 patterns (be, le)'] = True


def replay(ctx, case):
    ctx.run_case(judge_pattern if 'pattern' in case else judge, case)
