"""C03 - in-place mutations equal their sequence-level specification; nothing else moves."""
from __future__ import annotations

from rv import util
from rv.props import _mut
from rv.util import CLASSES, mk, rb

PROP = 'C03'
SHARDS = {'quick': 4, 'thorough': 16}
RULE = ("episodes: class in {BitArray, BitStream} x initial content from the length/content pools, then 4-12 "
        "(quick) / up to 40 (thorough) random mutator steps on the SAME object (22 operations; positions in, at "
        "and beyond the ends, negative indices, all steps, empty operands, the receiver itself as operand, "
        "integers at the range limits, every byteswap format kind, iterables and ranges of positions); after "
        "each step the full content, the return value and the exception class are compared with the str-of-bits "
        "model, then the model is resynchronised. key = (op, input class, outcome, length bucket); non-trivial "
        "= the step changed the content or raised")
ANCHORS = ['BitArray.append', 'BitArray.prepend', 'BitArray.insert', 'BitArray.overwrite', 'BitArray.__delitem__',
           'BitArray.__setitem__', 'BitArray._setitem_int', 'BitArray._setitem_slice', 'BitArray.replace',
           'BitArray._replace', 'BitArray.reverse', 'BitArray.rol', 'BitArray.ror', 'BitArray._rol_msb0',
           'BitArray._ror_msb0', 'BitArray.set', 'BitArray.invert', 'BitArray.byteswap', 'BitArray.__ilshift__',
           'BitArray.__irshift__', 'BitArray.__imul__', 'BitArray.__iand__', 'BitArray.__ior__', 'BitArray.__ixor__',
           'BitArray.clear', 'BitArray.__iadd__', 'Bits._imul', 'Bits._reversebytes', 'Bits._overwrite', 'Bits._insert',
           'BitStream.insert', 'BitStream.replace', 'BitStream.__setitem__', 'BitStream.__delitem__', 'ConstBitStream.overwrite']
REQUIRED_OPS = list(_mut.OPS) + ['mutate-operand', 'hold:findall-bytealigned', 'hold:split', 'hold:cut']
MIN_EVALS = {'quick': 20000, 'thorough': 300000}
ASSUMPTIONS = ['MSB0 mode (LSB0 mutators are judged by C12); stream positions are judged by C06']


def episode(ctx, case, nsteps=0):
    """Replay the recorded steps of `case`; then (when nsteps > 0) generate further steps on the fly."""
    cls = CLASSES[case['cls']]
    m = case['init']
    with util.options(lsb0=False):
        s = util.mk_via(cls, m, case.get('made', 'bin'))       # what a mutator does cannot depend on how the receiver came to hold its bits
    steps = case['steps']
    i = 0
    watched = []          # operands handed to earlier steps: [object, expected bits, op that used it]
    held = []             # suspended generators over the receiver
    with util.options(lsb0=False, bytealigned=case.get('oba', False)):
        while True:
            if i < len(steps):
                op, a = steps[i]
            elif i < nsteps and len(m) <= 400000:     # beyond that the episode costs more than the harness can afford to model
                if watched and ctx.rng.random() < 0.12:
                    op, a = 'mutate-operand', [ctx.rng.randrange(len(watched)), ctx.rng.choice(['invert', 'append', 'clear'])]
                elif ctx.rng.random() < 0.05:
                    op, a = 'hold', [ctx.rng.choice(['findall-bytealigned', 'findall', 'split', 'split-bytealigned', 'cut', 'iter', 'findall-count'])]
                else:
                    op, a = _mut.gen_step(ctx.rng, len(m))
                steps.append([op, a])
            else:
                break
            i += 1
            if op == 'hold':
                # a search over the receiver is started and left suspended (its generator stays referenced to the end of the episode):
                # every later mutator must still do its documented job
                pat = ('0x' + format(int(m[:8], 2), '02x')) if len(m) >= 8 else '0b1'
                mk_gen = {'findall-bytealigned': lambda: s.findall(pat, bytealigned=True), 'findall': lambda: s.findall('0b1'), 'split': lambda: s.split(pat),
                          'split-bytealigned': lambda: s.split(pat, bytealigned=True), 'cut': lambda: s.cut(8), 'iter': lambda: iter(s),
                          'findall-count': lambda: s.findall(pat, count=3, bytealigned=True)}[a[0]]
                got = util.call(lambda: (lambda g: (next(g, None), g)[1])(mk_gen()))
                if got[0] == 'ok':
                    held.append(got[1])
                ctx.op('hold:' + a[0])
                if util.B(s) != m:
                    ctx.mismatch(f'C03|hold|{a[0]}|receiver-changed-by-starting-a-search', case, f'{m[:60]} -> {util.B(s)[:60]}')
                    m = util.B(s)
                continue
            if op == 'mutate-operand':
                # "nothing else moves", in both directions: changing an operand of an EARLIER step must not reach the receiver
                if a[0] < len(watched) and type(watched[a[0]][0]).__name__ in util.MUTABLE:
                    w = watched[a[0]]
                    o = w[0]
                    if a[1] == 'invert' and len(o):
                        o.invert()
                    elif a[1] == 'clear':
                        o.clear()
                    else:
                        o.append('0b1')
                    w[1] = util.B(o)
                    ctx.op('mutate-operand')
                    if util.B(s) != m:
                        ctx.mismatch(f'C03|aliasing|operand-of:{w[2]}|receiver-changed-when-operand-mutated-later', case,
                                     f'{m[:60]} -> {util.B(s)[:60]}')
                        m = util.B(s)
                    else:
                        ctx.ok(('mutate-operand', w[2]), True)
                continue
            retained = []
            m = _mut.judge_step(ctx, PROP, s, m, op, a, case, extra_key=case['cls'] if i == 1 else '', retained=retained)
            for o, bits in retained:
                watched.append([o, bits, op])
            del watched[:-6]
            for w in watched:
                if util.B(w[0]) != w[1]:
                    ctx.mismatch(f'C03|aliasing|operand-of:{w[2]}|operand-changed-by-later-step:{op}', case,
                                 f'operand {type(w[0]).__name__} {w[1][:50]} -> {util.B(w[0])[:50]}')
                    w[1] = util.B(w[0])
            ctx.state(m if len(m) < 200 else hash(m))


DIRECTED = [
    # reproducers of the design-time defects (each must be observed on every run) + neighbours that must hold
    ('BitArray', '0' * 8 + '1' * 8 + '0101' * 4, [['byteswap', [2, None, 8, False]]]),        # D(i) pattern exceeds end
    ('BitArray', '0' * 8 + '1' * 8 + '0101' * 4, [['byteswap', [2, None, 16, False]]]),       # neighbour: fits
    ('BitArray', '0' * 8 + '1' * 8 + '0101' * 4, [['byteswap', [2, 0, 24, True]]]),           # neighbour: repeat
    ('BitArray', '0' * 16, [['set', [1, {'range': [15, -1, -3]}]]]),                          # D(ii) negative step
    ('BitArray', '0' * 16, [['set', [1, {'range': [-16, 0, 2]}]]]),                           # D(ii) negative bounds
    ('BitArray', '0' * 16, [['set', [1, {'range': [0, 21, 3]}]]]),                            # D(ii) beyond the end
    ('BitArray', '0' * 16, [['set', [1, {'range': [0, 16, 2]}]]]),                            # neighbour: plain range
    ('BitArray', '0' * 16, [['set', [1, {'range': [-20, -12, 1]}]]]),                         # starts below -len: IndexError, nothing set
    ('BitStream', '0' * 16, [['set', [1, {'range': [-20, 0, 3]}]], ['invert', [{'range': [-17, -1, 1]}]]]),
    ('BitArray', '0' * 16, [['set', [1, {'range': [-16, -12, 1]}]], ['set', [0, {'range': [-16, 0, 1]}]]]),   # neighbours: valid negative ranges
    ('BitArray', '0' * 16, [['setitem_int', [[None, None, -2], 1]]]),                         # D(iii)
    ('BitArray', '0' * 16, [['setitem_int', [[None, None, 2], 1]]]),                          # neighbour
    ('BitArray', '0110' * 4, [['overwrite', [['self'], 4]]]),                                 # D(iv)
    ('BitStream', '0110' * 4, [['overwrite', [['self'], 4]]]),
    ('BitArray', '0110' * 4, [['overwrite', [['self'], 0]]]),                                 # neighbour
    ('BitArray', '0110' * 4, [['rol', [3, 5, 5]]]),                                           # D(v)
    ('BitArray', '0110' * 4, [['ror', [3, 5, 5]]]),
    ('BitArray', '0110' * 4, [['rol', [3, 5, 9]]]),                                           # neighbour
    ('BitStream', '1' * 9, [['insert', [['self'], 3]], ['append', [['self']]], ['prepend', [['self']]], ['iand', [['self']]]]),
    ('BitArray', '10' * 20, [['replace', [['str', '10'], ['self'], None, None, 2, None]]]),
    ('BitArray', '0000000100000010' * 2, [['byteswap', [[2], None, None, True, 'iter']]]),          # F49: sizes from a one-shot iterable
    ('BitStream', '0000000100000010' * 3, [['byteswap', [[1, 2], None, None, True, 'gen']]]),
    ('BitArray', '', [['set', [1, None]], ['invert', [None]], ['reverse', [None, None]], ['byteswap', [None, None, None, True]], ['imul', [3]], ['clear', []]]),
]


def run(ctx):
    if ctx.shard == 0:
        for cls, init, steps in DIRECTED:
            case = {'cls': cls, 'init': init, 'steps': [list(x) for x in steps]}
            ctx.run_case(lambda c, k: episode(c, k), case)
    # sizes and argument shapes at which a bulk path could take over: kilobytes of data swapped in items of 2..8 bytes, hundreds of positions
    # (with repeats) inverted or set at once, a byte-aligned replace whose match lies across a 64 KiB edge
    rng = ctx.rng
    for i in range(12 if ctx.quick else 240):
        if not ctx.mine(i):
            continue
        kind = ('byteswap', 'positions', 'replace-far')[i % 3]
        if kind == 'byteswap':
            nbytes = rng.choice([1024, 1028, 2048, 4096, 8200, 65536 + 24, 65536 * 3 + 6])
            m = util.rb(rng, 8 * nbytes)
            steps = [['byteswap', [rng.choice([4, 2, 8, 3, 5, 6, 'l', '>I', 'f', 'h', 'q', [4], [2, 4]]), rng.choice([None, 0, 8, 32]), None, True, 'list']],
                     ['byteswap', [rng.choice([4, 3, 7, 'L']), None, rng.choice([None, 8 * nbytes - 8]), rng.choice([True, False]), 'list']]]
        elif kind == 'positions':
            L = rng.choice([1, 2, 9, 300, 5000])
            m = util.content(rng, L)
            k = rng.choice([128, 129, 150, 256, 1000])
            base = [rng.randrange(-L, L) for _ in range(rng.choice([1, 3, k]))]
            pos = (base * k)[:k] if rng.random() < 0.6 else [rng.randrange(-L, L) for _ in range(k)]
            steps = [['invert', [pos]], ['set', [rng.choice([0, 1]), pos]], ['invert', [{'range': [-L, L, 1]}]] if L > 1 else ['invert', [[0] * k]]]
        else:
            block = 65536
            old = '00001101' + '00001010'
            nbytes = block * rng.choice([1, 2]) + rng.choice([1, 2, 40])
            st = rng.choice([0, 0, 8, 800])
            at = st + 8 * block - 8
            m = '0' * 16 + old + '0' * (at - 32) + old + '0' * (8 * nbytes - at - 16)
            m = m[:8 * nbytes]
            steps = [['replace', [['Bits', old], ['Bits', rng.choice(['1' * 16, '1' * 8, ''])], st or None, None, rng.choice([None, None, 5]), True]]]
        ctx.run_case(lambda c, k_: episode(c, k_), {'cls': rng.choice(util.MUTABLE), 'init': m, 'steps': steps, 'oba': False, 'made': 'bin'})
    n = ctx.scale(80000, 1600000)
    lengths = util.SHORT_LENGTHS + [255, 256, 257, 1000, 1024] + ([] if ctx.quick else [4097, 8193])
    for i in range(n):
        L = ctx.rng.choice(lengths)
        nsteps = ctx.rng.randint(4, 12) if ctx.quick else ctx.rng.randint(4, 40)
        case = {'cls': ctx.rng.choice(util.MUTABLE), 'init': util.content(ctx.rng, L), 'steps': [],
                'oba': ctx.rng.random() < 0.15, 'made': ctx.rng.choice(util.MADE_ROUTES)}
        ctx.run_case(lambda c, k: episode(c, k, nsteps), case)
        if i % 499 == 0:
            ctx.sample({'cls': case['cls'], 'init': case['init'][:64], 'steps': case['steps'][:6]})


def replay(ctx, case):
    ctx.run_case(lambda c, k: episode(c, k), case)
