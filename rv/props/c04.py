"""C04 - value isolation: immutable objects never change, mutable ones never share state."""
from __future__ import annotations

import array
import copy
import pickle
import io

import bitarray
import bitstring
from bitstring import Array, BitArray, Bits, BitStream, ConstBitStream, Dtype, pack

from rv import util
from rv.util import B, CLASSES, call, rb

AMBIENT = ['bytealigned', 'mxfp_overflow']      # options this property does not depend on: a quarter of the cases run with them switched
PROP = 'C04'
SHARDS = {'quick': 4, 'thorough': 16}
RULE = ("history monitor over a population: every object an episode creates is registered with its observable value; "
        "a step is a derivation (49 routes: constructors of every class from members / token strings / external "
        "bytearray, memoryview, array, bitarray, BytesIO; bits= keyword and property; copy; slices; operators; join; "
        "fromstring; pack; cut/split; read/peek/unpack; Dtype.build/parse; Array data/slices/copies/trailing bits; "
        "tobitarray) or a mutation (18 kinds) of one mutable member, external buffer or obtained bitarray; after "
        "every mutation ALL members are re-read: only the mutated one may differ; every token string used is "
        "re-parsed and must still give its bits. pair episodes (root -> one derivation -> mutate either side) give "
        "exact attribution; population episodes of 10-40 steps reach multi-hop sharing. key = (route, source "
        "class, target class, mutation kind); non-trivial = the mutation changed its target while >= 1 other "
        "member was watching")
ANCHORS = ['BitStore.copy', 'BitStore._copy', 'Bits._setauto_no_length_or_offset', 'Bits._setbits', 'Bits.tobitarray',
           'Bits.fromstring', 'BitArray.__init__', 'BitStream.__init__', 'Bits._addleft', 'BitStream.__copy__',
           'ConstBitStream.__copy__', 'str_to_bitstore', 'BitArray.__copy__', 'Bits._copy', 'Array.__copy__']
REQUIRED_OPS = ['derive', 'mutate', 'cache-probe', 'immutable-op-sweep']
REQUIRED_SENTINELS = ['S1', 'S6']
MIN_EVALS = {'quick': 20000, 'thorough': 300000}

TC = ['Bits', 'BitArray', 'ConstBitStream', 'BitStream']


def buf_id(o):
    """Identity of the backing buffer - used only as a *label* to attribute a break to the derivation
    edge that introduced the sharing; degrades to None if privates are renamed."""
    try:
        return id(o._bitstore._bitarray)
    except AttributeError:
        return None


# ---- derivation routes: name -> f(src object, target class, token string of the root) -------------------------
def _read_bits(s, tc, tok):
    return (ConstBitStream(s) if tc in (Bits, ConstBitStream) else BitStream(s)).read(len(s))


_SUBCLASSES = {}


def _subclass(cls):
    """A user subclass of one of the four classes (made once per class)."""
    if cls not in _SUBCLASSES:
        _SUBCLASSES[cls] = globals()['My' + cls.__name__] = type('My' + cls.__name__, (cls,), {'__module__': __name__})   # importable, so that it pickles
    return _SUBCLASSES[cls]


ROUTES = {
    'ctor': lambda s, tc, tok: tc(s),
    'ctor-bits=': lambda s, tc, tok: tc(bits=s),
    'copy.copy': lambda s, tc, tok: copy.copy(s),
    'copy()': lambda s, tc, tok: s.copy(),
    'copy.deepcopy': lambda s, tc, tok: copy.deepcopy(s),
    'pickle': lambda s, tc, tok: pickle.loads(pickle.dumps(s)),
    'deepcopy-in-list': lambda s, tc, tok: copy.deepcopy([s, s])[1],       # the memo makes both items one new object
    'subclass-ctor': lambda s, tc, tok: _subclass(tc)(s),
    'subclass-slice': lambda s, tc, tok: _subclass(type(s))(s)[:],
    'slice-full': lambda s, tc, tok: s[:],
    'slice-part': lambda s, tc, tok: s[1:-1],
    'slice-step': lambda s, tc, tok: s[::2],
    'slice-neg': lambda s, tc, tok: s[::-1],
    'add-empty': lambda s, tc, tok: s + tc(),
    'radd-empty': lambda s, tc, tok: tc() + s,
    'add-str': lambda s, tc, tok: s + '0b1',
    'radd-str': lambda s, tc, tok: '0b1' + s,
    # the text another member may have been built from, combined with an EMPTY object of the target class (nothing to concatenate)
    'tok-radd-empty': lambda s, tc, tok: tok + tc(),
    'empty-add-tok': lambda s, tc, tok: tc() + tok,
    'tok-radd-empty-slice': lambda s, tc, tok: tok + tc('0b1')[1:],
    'source-add-empty-str': lambda s, tc, tok: s + '',
    'empty-str-radd-source': lambda s, tc, tok: '' + s,
    'radd-long-str': lambda s, tc, tok: ('0b' + '10' * (len(s) // 2 + 1)) + s,          # the promoted left operand is the longer one
    'radd-long-bytes': lambda s, tc, tok: (b'\xa5' * (len(s) // 8 + 1)) + s,
    'radd-long-list': lambda s, tc, tok: ([1, 0] * (len(s) // 2 + 1)) + s,
    'add-long-str': lambda s, tc, tok: s + ('0b' + '10' * (len(s) // 2 + 1)),
    'mul1': lambda s, tc, tok: s * 1,
    'rmul2': lambda s, tc, tok: 2 * s,
    'and-self': lambda s, tc, tok: s & s,
    'or-self': lambda s, tc, tok: s | s,
    'xor-zeros': lambda s, tc, tok: s ^ Bits(len(s)),
    'and-ones': lambda s, tc, tok: s & ~Bits(len(s)),
    'invert': lambda s, tc, tok: ~s,
    'lshift0': lambda s, tc, tok: s << 0,
    'rshift0': lambda s, tc, tok: s >> 0,
    'rshift1': lambda s, tc, tok: s >> 1,
    'join-empty': lambda s, tc, tok: tc().join([s]),
    'join-sep': lambda s, tc, tok: tc('0b1').join([s, s]),
    'fromstring': lambda s, tc, tok: tc.fromstring(tok),
    'ctor-str': lambda s, tc, tok: tc(tok),
    'pack-bits': lambda s, tc, tok: pack('bits', s),
    'pack-kw': lambda s, tc, tok: pack('x', x=s),
    'pack-bits=': lambda s, tc, tok: pack('bits=x', x=s),
    'cut-whole': lambda s, tc, tok: next(s.cut(len(s))),
    'split-first': lambda s, tc, tok: next(iter(s.split('0xfedcba9876543210f'))),
    'read-n': _read_bits,
    'read-bits': lambda s, tc, tok: (ConstBitStream(s) if tc in (Bits, ConstBitStream) else BitStream(s)).read('bits'),
    'peek-bits': lambda s, tc, tok: ConstBitStream(s).peek('bits'),
    'readlist-bits': lambda s, tc, tok: BitStream(s).readlist('bits')[0],
    'unpack-bits': lambda s, tc, tok: s.unpack('bits')[0],
    'Dtype-build': lambda s, tc, tok: Dtype('bits').build(s),
    'Dtype-parse': lambda s, tc, tok: Dtype('bits').parse(s),
    'bits-getter': lambda s, tc, tok: s.bits,
    'Array-data': lambda s, tc, tok: Array('u1', s).data,
    'Array-slice-data': lambda s, tc, tok: Array('u1', s)[:].data,
    'Array-copy-data': lambda s, tc, tok: copy.copy(Array('u1', s)).data,
    'Array-trailing': lambda s, tc, tok: Array('u3', s).trailing_bits,
    'Array-from-Array-data': lambda s, tc, tok: Array('u1', Array('u1', s)).data,
    # two Arrays, one obtained from the other: BOTH data buffers join the population
    'pair:Array-astype-same-format': lambda s, tc, tok: _array_pair(s, lambda a: a.astype(('u1', 'uint1', 'uint:1', Dtype('uint', 1), a.dtype)[len(s) % 5])),
    'pair:Array-astype-bool': lambda s, tc, tok: _array_pair(s, lambda a: a.astype('bool')),
    'pair:Array-copy': lambda s, tc, tok: _array_pair(s, copy.copy),
    'pair:Array-slice': lambda s, tc, tok: _array_pair(s, lambda a: a[:]),
    'pair:Array-from-Array': lambda s, tc, tok: _array_pair(s, lambda a: Array('u1', a)),
    'pair:Array-add-zero': lambda s, tc, tok: _array_pair(s, lambda a: a + 0),
    'pair:Array-and-one': lambda s, tc, tok: _array_pair(s, lambda a: a & '0b1'),
}


class Pair(tuple):
    pass


def _array_pair(s, derive):
    a = Array('u1', s)
    return Pair((a.data, derive(a).data))

def _into(method):
    def f(s, tc, tok):
        if method == 'prepend-empty':
            t = tc(); t.prepend(s)
        elif method == 'append-empty':
            t = tc(); t.append(s)
        elif method == 'iadd-empty':
            t = tc(); t += s
        elif method == 'insert-empty':
            t = tc(); t.insert(s, 0)
        elif method == 'setslice-empty':
            t = tc(); t[0:0] = s
        elif method == 'setslice-all':
            t = tc('0b101'); t[:] = s
        elif method == 'prepend':
            t = tc('0b1'); t.prepend(s)
        elif method == 'append':
            t = tc('0b1'); t.append(s)
        elif method == 'overwrite':
            t = tc(len(s)); t.overwrite(s, 0)
        elif method == 'replace-new':
            t = tc('0b1'); t.replace('0b1', s)
        elif method == 'ior-zeros':
            t = tc(len(s)); t |= s
        elif method == 'ixor-zeros':
            t = tc(len(s)); t ^= s
        elif method == 'imul1':
            t = tc(s); t *= 1
        return t
    return f


for _m in ('prepend-empty', 'append-empty', 'iadd-empty', 'insert-empty', 'setslice-empty', 'setslice-all', 'prepend', 'append', 'overwrite',
           'replace-new', 'ior-zeros', 'ixor-zeros', 'imul1'):
    ROUTES['into:' + _m] = _into(_m)


def _value(s):
    return len(s) % 13 + 3


# value-keyed constructions: the same (dtype, value) built twice must give independent objects (an encoder that caches its result
# would hand the same store to both)
KW = {'ue': lambda n: {'ue': n}, 'se': lambda n: {'se': -n}, 'uie': lambda n: {'uie': n}, 'sie': lambda n: {'sie': n},
      'uint8': lambda n: {'uint': n, 'length': 8}, 'int12': lambda n: {'int': -n, 'length': 12}, 'hex': lambda n: {'hex': format(n, '04x')},
      'bin': lambda n: {'bin': format(n, '06b')}, 'float32': lambda n: {'float': n + 0.5, 'length': 32}, 'bool': lambda n: {'bool': True},
      'bytes': lambda n: {'bytes': bytes([n, n])}, 'uintle16': lambda n: {'uintle': n, 'length': 16}, 'bfloat': lambda n: {'bfloat': float(n)},
      'e4m3mxfp': lambda n: {'e4m3mxfp': float(n)}, 'zeros': lambda n: {'length': n},
      # special values, for which an encoder is most likely to keep a ready-made result: zero, saturation, infinities, NaN
      'ue=0': lambda n: {'ue': 0}, 'se=0': lambda n: {'se': 0}, 'uie=0': lambda n: {'uie': 0}, 'sie=0': lambda n: {'sie': 0},
      'mxint-sat': lambda n: {'mxint': 100.0}, 'mxint-sat-neg': lambda n: {'mxint': -100.0}, 'mxint-inf': lambda n: {'mxint': float('inf')},
      'e4m3mxfp-sat': lambda n: {'e4m3mxfp': 1e9}, 'e5m2mxfp-inf': lambda n: {'e5m2mxfp': float('inf')}, 'e2m1mxfp-sat': lambda n: {'e2m1mxfp': -1e9},
      'float32-inf': lambda n: {'float': float('inf'), 'length': 32}, 'float16-nan': lambda n: {'float': float('nan'), 'length': 16},
      'float64-zero': lambda n: {'float': 0.0, 'length': 64}, 'bfloat-inf': lambda n: {'bfloat': float('-inf')}, 'bfloat-big': lambda n: {'bfloat': 1e39},
      'p4binary-nan': lambda n: {'p4binary': float('nan')}, 'p3binary-sat': lambda n: {'p3binary': 1e9}, 'e8m0mxfp-one': lambda n: {'e8m0mxfp': 1.0},
      'uint8-zero': lambda n: {'uint': 0, 'length': 8}, 'int8-minus1': lambda n: {'int': -1, 'length': 8}, 'bool-false': lambda n: {'bool': False},
      'hex-empty': lambda n: {'hex': ''}, 'bin-empty': lambda n: {'bin': ''}, 'bytes-empty': lambda n: {'bytes': b''}, 'bits-empty': lambda n: {'bits': Bits()}}
for _k, _f in KW.items():
    ROUTES['kw:' + _k] = (lambda f: (lambda s, tc, tok: tc(**f(_value(s)))))(_f)
SETTERS = {'ue': lambda n: n, 'se': lambda n: -n, 'uie': lambda n: n, 'sie': lambda n: -n, 'uint8': lambda n: n, 'hex': lambda n: format(n, '04x'),
           'float32': lambda n: n + 0.5, 'bytes': lambda n: bytes([n, n]), 'bin': lambda n: format(n, '06b')}


# more value-keyed property assignments: name -> (length of the receiver before the assignment, value of n)
SETTERS_SIZED = {'bool': (1, lambda n: n % 2 == 1), 'int12': (0, lambda n: -n), 'uintle16': (0, lambda n: n), 'uintbe16': (0, lambda n: n), 'intne32': (0, lambda n: -n),
                 'uint': (8, lambda n: n), 'int': (9, lambda n: -n), 'float': (32, lambda n: n + 0.25), 'floatle': (16, lambda n: float(n)),
                 'bfloat': (0, lambda n: float(n)), 'bfloatle': (0, lambda n: float(n)), 'e4m3mxfp': (0, lambda n: float(n)), 'e5m2mxfp': (0, lambda n: float(n)),
                 'p3binary': (0, lambda n: float(n)), 'p4binary': (0, lambda n: float(n)), 'mxint': (0, lambda n: n / 64), 'e2m1mxfp': (0, lambda n: float(n % 4)),
                 'e3m2mxfp': (0, lambda n: float(n)), 'e8m0mxfp': (0, lambda n: 2.0 ** (n - 8)), 'float16': (0, lambda n: n + 0.5), 'oct': (0, lambda n: format(n, '03o')),
                 'u7': (0, lambda n: n), 'i5': (0, lambda n: -n), 'bits': (0, lambda n: Bits(uint=n, length=5)),
                 # ... and the special values again, through the property setter (which hands the encoder's result to an existing object)
                 'ue=0': (0, lambda n: 0), 'se=0': (0, lambda n: 0), 'uie=0': (0, lambda n: 0), 'sie=0': (0, lambda n: 0), 'mxint=sat': (0, lambda n: 100.0),
                 'mxint=sat-neg': (0, lambda n: -100.0), 'e4m3mxfp=sat': (0, lambda n: 1e9), 'e5m2mxfp=inf': (0, lambda n: float('inf')), 'float32=inf': (0, lambda n: float('inf')),
                 'float16=nan': (0, lambda n: float('nan')), 'bfloat=big': (0, lambda n: 1e39), 'p4binary=nan': (0, lambda n: float('nan')), 'uint8=0': (0, lambda n: 0),
                 'hex=same': (0, lambda n: 'a5c3'), 'bin=same': (0, lambda n: '0110'), 'oct=same': (0, lambda n: '17'), 'bytes=same': (0, lambda n: b'ab'), 'bool=true': (1, lambda n: True)}


def _setter(name, f, length=0):
    def g(s, tc, tok):
        t = tc(length) if length else tc()
        setattr(t, name, f(_value(s)))
        return t
    return g


for _k, _f in SETTERS.items():
    ROUTES['setter:' + _k] = _setter(_k, _f)
for _k, (_l, _f) in SETTERS_SIZED.items():
    ROUTES['setter:' + _k] = _setter(_k.split('=')[0], _f, _l)
MUTABLE_TARGET_ONLY = {r for r in ROUTES if r.startswith('into:') or r.startswith('setter:')}
NEEDS_LEN = {'invert', 'lshift0', 'rshift0', 'rshift1', 'cut-whole', 'and-ones', 'xor-zeros', 'into:overwrite', 'into:ior-zeros', 'into:ixor-zeros'}
EXT_ROUTES = {            # external buffer kind -> {route: f(ext, tc)}
    'bytearray': {'ctor': lambda x, tc: tc(x), 'bytes=': lambda x, tc: tc(bytes=x), 'bytes=off': lambda x, tc: tc(bytes=x, offset=0, length=len(x) * 8)},
    'memoryview': {'ctor': lambda x, tc: tc(x), 'bytes=': lambda x, tc: tc(bytes=x)},
    # views that cannot be written through, or that cover only part of the owner's memory: the owner can still write
    'memoryview-ro': {'ctor': lambda x, tc: tc(x), 'bytes=': lambda x, tc: tc(bytes=x)},
    'memoryview-part': {'ctor': lambda x, tc: tc(x), 'bytes=': lambda x, tc: tc(bytes=x)},
    'bytearray-sub': {'ctor': lambda x, tc: tc(x), 'bytes=': lambda x, tc: tc(bytes=x)},
    'array': {'ctor': lambda x, tc: tc(x)},
    'bitarray': {'ctor': lambda x, tc: tc(x), 'bitarray=': lambda x, tc: tc(bitarray=x), 'bitarray=off': lambda x, tc: tc(bitarray=x, offset=0)},
    'BytesIO': {'ctor': lambda x, tc: tc(x), 'ctor-off': lambda x, tc: tc(x, offset=0)},
}
MUTATIONS = ['invert', 'append', 'prepend', 'clear', 'set', 'del', 'imul', 'ilshift', 'reverse', 'prop-uint', 'overwrite',
             'setitem', 'ixor', 'iadd', 'insert', 'replace', 'ror', 'byteswap']


def read_member(e):
    o, k = e['obj'], e['kind']
    if k == 'bits':
        return B(o)
    if k == 'bitarray':
        return o.to01()
    if k in ('bytearray',):
        return bytes(o).hex()
    if k in ('memoryview', 'memoryview-ro', 'memoryview-part', 'bytearray-sub'):
        return bytes(o).hex()
    if k == 'array':
        return o.tobytes().hex()
    if k == 'BytesIO':
        return o.getvalue().hex()
    raise KeyError(k)


def mutate_bits(o, m):
    n = len(o)
    if m == 'invert':
        o.invert()
    elif m == 'append':
        o.append('0b1')
    elif m == 'prepend':
        o.prepend('0b10')
    elif m == 'clear':
        o.clear()
    elif m == 'set':
        o.set(0 if o.all(1) else 1)
    elif m == 'del':
        del o[0:3]
    elif m == 'imul':
        o *= 2
    elif m == 'ilshift':
        o <<= 1
    elif m == 'reverse':
        o.reverse()
    elif m == 'prop-uint':
        o.uint = (o.uint + 1) % (1 << n)
    elif m == 'overwrite':
        o.overwrite('0b1' if not o[0] else '0b0', 0)
    elif m == 'setitem':
        o[0] = not o[0]
    elif m == 'ixor':
        o ^= ~Bits(n)
    elif m == 'iadd':
        o += '0b01'
    elif m == 'insert':
        o.insert('0b1', 1)
    elif m == 'replace':
        o.replace('0b1', '0b00')
    elif m == 'ror':
        o.ror(1)
    elif m == 'byteswap':
        o.byteswap()


def mutate_ext(o, kind):
    if kind == 'bitarray':
        if len(o):
            o.invert()
        else:
            o.append(1)
    elif kind == 'bytearray':
        if len(o):
            o[0] ^= 0xff
        else:
            o.append(7)
    elif kind == 'bytearray-sub':
        o[0] ^= 0xff
    elif kind in ('memoryview', 'memoryview-ro'):
        o.obj[0] ^= 0xff
    elif kind == 'memoryview-part':
        o.obj[1] ^= 0xff            # the view starts at the owner's second byte
    elif kind == 'array':
        o[0] ^= 0xff
    elif kind == 'BytesIO':
        o.seek(0)
        o.write(b'\xa5')


def make_ext(kind, bits):
    raw = int(bits, 2).to_bytes(len(bits) // 8, 'big')
    if kind == 'bytearray':
        return bytearray(raw)
    if kind == 'memoryview':
        return memoryview(bytearray(raw))
    if kind == 'memoryview-ro':
        return memoryview(bytearray(raw)).toreadonly()
    if kind == 'memoryview-part':
        v = memoryview(bytearray(b'\x5a' + raw + b'\xa5'))[1:-1]
        return v.toreadonly() if len(raw) % 2 else v
    if kind == 'bytearray-sub':
        return util.BytearraySub(raw)
    if kind == 'array':
        return array.array('B', raw)
    if kind == 'bitarray':
        return bitarray.bitarray(bits)
    if kind == 'BytesIO':
        return io.BytesIO(raw)
    raise KeyError(kind)


def clear_caches():
    for _, c in util.find_caches():
        c.cache_clear()


def episode(ctx, case, nsteps=0):
    """case: {'root': [kind, bits, cls], 'steps': [['derive', route, src_index, tcls] | ['mutate', index, kind]]}"""
    rng = ctx.rng
    clear_caches()
    pop = []
    strings = {}
    edge_of_buffer = {}
    first_bits = {}       # value-keyed routes: bits of the first construction of that value in this episode
    rkind, bits, rcls = case['root']
    tok = case.get('tok', '0b' + bits)
    with util.options(lsb0=bool(case.get('lsb0'))):     # independence is not a matter of bit numbering: same oracle in both modes
        def reg(o, kind, route, edge_src=None):
            e = {'obj': o, 'kind': kind, 'route': route, 'exp': None, 'edge': None,
                 'immutable': kind == 'bits' and type(o) in (Bits, ConstBitStream), 'hash': None}
            e['exp'] = read_member(e)
            if e['immutable']:
                e['hash'] = hash(o)
            # label the derivation edge that introduced buffer sharing (if any): the FIRST route that made a
            # mutable party share this buffer owns the label; later members on the same buffer inherit it
            if kind == 'bits':
                bid = buf_id(o)
                if bid is not None:
                    if bid in edge_of_buffer:
                        e['edge'] = edge_of_buffer[bid]
                    else:
                        sharing = False
                        for other in pop:
                            if other['kind'] == 'bits' and other['obj'] is not o and buf_id(other['obj']) == bid and \
                                    not (other['immutable'] and e['immutable']):
                                sharing = True
                            if other['kind'] == 'bitarray' and id(other['obj']) == bid:
                                sharing = True
                        if not e['immutable']:
                            for tk in strings:
                                if buf_id(Bits(tk)) == bid:
                                    sharing = True
                        if sharing:
                            edge_of_buffer[bid] = route
                            e['edge'] = route
            pop.append(e)
            return e

        tc0 = CLASSES[rcls]
        if rkind == 'str':
            strings[tok] = bits
            reg(tc0(tok), 'bits', 'root:ctor-str')
        elif rkind == 'bin':
            reg(tc0(bin=bits) if bits else tc0(), 'bits', 'root:bin=')
        else:
            ext = make_ext(rkind, bits)
            reg(ext, rkind, 'ext:' + rkind)
            route = case.get('ext_route', 'ctor')
            reg(EXT_ROUTES[rkind][route](ext, tc0), 'bits', f'ext-{rkind}:{route}')
            if rkind == 'BytesIO':
                pop[0]['exp'] = read_member(pop[0])
        steps = case['steps']
        i = 0
        while True:
            if i < len(steps):
                st = steps[i]
            elif i < nsteps:
                st = gen_step(rng, pop)
                if st is None:
                    break
                steps.append(st)
            else:
                break
            i += 1
            if st[0] == 'derive':
                _, route, si, tcn = st
                if si >= len(pop) or pop[si]['kind'] != 'bits':
                    continue
                src = pop[si]
                s = src['obj']
                tc = CLASSES[tcn]
                if route in NEEDS_LEN and not len(s):
                    continue
                if route in MUTABLE_TARGET_ONLY and tcn not in util.MUTABLE:
                    continue
                if case.get('lsb0') and route.rpartition(':')[2].split('=')[0] in ('ue', 'se', 'uie', 'sie'):
                    continue            # documented: exponential-Golomb codes are not available in lsb0 mode
                if route == 'prop-bits':
                    def f():
                        o = tc()
                        o.bits = s
                        return o
                elif route == 'tobitarray':
                    f = lambda: s.tobitarray()  # noqa: E731
                else:
                    f = lambda: ROUTES[route](s, tc, tok)  # noqa: E731
                if route in ('fromstring', 'ctor-str'):
                    strings[tok] = bits
                kind, o = call(f)
                ctx.op('derive', 'ok' if kind == 'ok' else type(o).__name__)
                if kind != 'ok':
                    ctx.mismatch(f'C04|derive|{route}|unexpected-exc:{type(o).__name__}', case, f'{type(s).__name__}->{tcn}: {o!s:.100}')
                    continue
                if isinstance(o, Pair):
                    if o[0] is o[1]:
                        ctx.mismatch(f'C04|isolation|edge={route}|two-arrays-one-data-object', case, f'{route}: both Arrays hold the same data object')
                        continue
                    reg(o[0], 'bits', route + '/source')
                    o = o[1]
                if o is s:
                    if type(s).__name__ in util.MUTABLE:
                        # a derivation from a mutable object handed the object itself back: whatever was built around it shares its bits
                        ctx.mismatch(f'C04|isolation|edge={route}|same-mutable-object-returned', case, f'{route} on a {type(s).__name__} returned the object itself')
                    else:
                        ctx.ok(('derive-same-object', route, type(s).__name__), False)
                    continue
                if route == 'tobitarray':
                    e = {'obj': o, 'kind': 'bitarray', 'route': 'tobitarray', 'exp': o.to01(), 'edge': None, 'immutable': False,
                         'hash': None, 'owner': si}
                    if buf_id(s) == id(o):
                        e['edge'] = edge_of_buffer.setdefault(id(o), 'tobitarray')
                    pop.append(e)
                else:
                    reg(o, 'bits', route)
                    if route.startswith(('kw:', 'setter:')) or route in ('ctor-str', 'fromstring'):
                        vk = (route, _value(s) if route.startswith(('kw:', 'setter:')) else tok)
                        fb = first_bits.setdefault(vk, B(o))
                        if B(o) != fb:
                            ctx.mismatch(f'C04|value-construction-poisoned|edge={route}', case,
                                         f'{route} -> {tcn} now gives {B(o)[:60]}, the first construction of the same value gave {fb[:60]}')
                            first_bits[vk] = B(o)
                ctx.ok(('derive', route, type(s).__name__, tcn), True)
            else:
                _, ti, mk_ = st
                if ti >= len(pop):
                    continue
                t = pop[ti]
                o = t['obj']
                group_edge = edge_of_buffer.get(buf_id(o) if t['kind'] == 'bits' else id(o))
                if group_edge and not t.get('edge'):
                    t['edge'] = group_edge
                if t['kind'] == 'bits':
                    if t['immutable']:
                        continue
                    if not len(o) and mk_ not in ('append', 'prepend', 'iadd'):
                        mk_ = 'append'
                    kind, r = call(lambda: mutate_bits(o, mk_))
                else:
                    kind, r = call(lambda: mutate_ext(o, t['kind']))
                    mk_ = 'ext-' + t['kind']
                ctx.op('mutate', 'ok' if kind == 'ok' else type(r).__name__)
                now = read_member(t)
                changed = now != t['exp']
                t['exp'] = now
                # re-read everyone else
                broke = False
                for vi, e in enumerate(pop):
                    if e is t:
                        continue
                    cur = read_member(e)
                    hash_changed = e['immutable'] and hash(e['obj']) != e['hash']
                    if cur != e['exp'] or hash_changed:
                        edge = group_edge or t.get('edge') or e.get('edge')
                        if edge is None and t['kind'] == 'bitarray' and t.get('owner') is not None:
                            edge = 'tobitarray'
                        if edge is None and e['kind'] == 'bitarray' and e.get('owner') is not None:
                            edge = 'tobitarray'
                        if edge is None:
                            edge = 'unattributed:' + e['route']
                        victim = 'immutable' if e['immutable'] else ('external' if e['kind'] not in ('bits',) else 'mutable')
                        ctx.mismatch(f'C04|isolation|edge={edge}|victim={victim}', case,
                                     f'mutating [{ti}] {t["route"]} ({type(o).__name__}) by {mk_} changed [{vi}] {e["route"]} '
                                     f'({type(e["obj"]).__name__}): {str(e["exp"])[:40]} -> {str(cur)[:40]}')
                        e['exp'] = cur
                        if e['immutable']:
                            e['hash'] = hash(e['obj'])
                        broke = True
                if not broke:
                    ctx.ok(('mutate', mk_, type(o).__name__, t['route']), changed and len(pop) > 1)
                # the string cache must still give the bits of every token string used
                for tk, eb in strings.items():
                    got = call(lambda: B(Bits(tk)))
                    ctx.op('cache-probe')
                    if got != ('ok', eb):
                        edge = group_edge or t.get('edge') or 'unattributed:' + t['route']
                        ctx.mismatch(f'C04|cache-poisoned|edge={edge}', case, f'Bits({tk!r:.30}) now gives {got!r:.60} after {mk_} on {t["route"]}')
                        clear_caches()
                    else:
                        ctx.ok(('cache-probe',), False)
                if broke:
                    # one defect is counted once: re-snapshot everybody and stop the episode
                    return
            ctx.state(len(pop), i)


def gen_step(rng, pop):
    bits_members = [i for i, e in enumerate(pop) if e['kind'] == 'bits']
    if rng.random() < 0.6 or len(pop) < 2:
        route = rng.choice(list(ROUTES) + ['prop-bits', 'tobitarray', 'ctor', 'ctor-bits=', 'fromstring', 'copy.copy'])
        tcn = rng.choice(TC)
        if route == 'prop-bits':
            tcn = rng.choice(['BitArray', 'BitStream'])
        return ['derive', route, rng.choice(bits_members), tcn]
    muts = [i for i, e in enumerate(pop) if e['kind'] != 'bits' or not e['immutable']]
    if not muts:
        return ['derive', 'ctor', rng.choice(bits_members), rng.choice(['BitArray', 'BitStream'])]
    ti = rng.choice(muts)
    return ['mutate', ti, rng.choice(MUTATIONS)]


def immutable_op_sweep(ctx):
    """Every name that mutates a BitArray and resolves on Bits/ConstBitStream must raise or leave the object unchanged."""
    mut_names = sorted(n for n in set(vars(BitArray)) | set(vars(BitStream))
                       if (not n.startswith('_') or n in ('__setitem__', '__delitem__', '__iadd__', '__imul__', '__ilshift__',
                                                          '__irshift__', '__iand__', '__ior__', '__ixor__'))
                       and callable(getattr(BitArray, n, None)) and n not in vars(Bits) and n != 'copy')
    args = {'append': ('0b1',), 'prepend': ('0b1',), 'insert': ('0b1', 0), 'overwrite': ('0b1', 0), 'replace': ('0b1', '0b0'),
            'reverse': (), 'rol': (1,), 'ror': (1,), 'set': (1,), 'invert': (), 'byteswap': (), 'clear': (),
            '__setitem__': (0, 1), '__delitem__': (0,), '__iadd__': ('0b1',), '__imul__': (2,), '__ilshift__': (1,),
            '__irshift__': (1,), '__iand__': ('0x0f0f',), '__ior__': ('0xf0f0',), '__ixor__': ('0xffff',)}
    for cls in (Bits, ConstBitStream):
        for name in mut_names:
            f = getattr(cls, name, None)
            if f is None or not callable(f):
                # the immutable class does not expose this mutator at all - which is what the property asks for
                ctx.op('immutable-op-sweep', 'absent')
                ctx.ok(('immutable-op', cls.__name__, name, 'absent'))
                continue
            for content in ('0101101001011010', '1' * 16):
                case = {'sweep': [cls.__name__, name, content]}
                ctx.current_case = case
                for route in ('bin', 'str'):
                    clear_caches()
                    o = cls(bin=content) if route == 'bin' else cls('0b' + content)
                    before = (B(o), hash(o))
                    kind, r = call(lambda: getattr(o, name)(*args.get(name, ())))
                    ctx.op('immutable-op-sweep', 'ok' if kind == 'ok' else type(r).__name__)
                    after = (B(o), hash(o))
                    fresh = B(cls('0b' + content))
                    if after != before:
                        ctx.mismatch(f'C04|immutable-op|{cls.__name__}.{name}|object-changed', case, f'{before[0]} -> {after[0]}')
                    elif fresh != content:
                        ctx.mismatch(f'C04|immutable-op|{cls.__name__}.{name}|cache-poisoned', case, fresh)
                        clear_caches()
                    elif kind == 'exc' and isinstance(r, AttributeError) and hasattr(cls, name):
                        # the method exists on an immutable class and fails from inside: C20's S5 judges the class of error
                        ctx.ok(('immutable-op', cls.__name__, name, 'raises'))
                    else:
                        ctx.ok(('immutable-op', cls.__name__, name, kind))


def pairs(ctx):
    """Exact-attribution episodes: root -> one derivation -> mutate either side (every route x classes x side)."""
    routes = list(ROUTES) + ['prop-bits', 'tobitarray']
    n = 0
    for ri, route in enumerate(routes):
        for sc in TC:
            for tcn in TC:
                for side in (0, 1):
                    n += 1
                    if not ctx.mine(n):
                        continue
                    if (route == 'prop-bits' or route in MUTABLE_TARGET_ONLY) and tcn not in ('BitArray', 'BitStream'):
                        continue
                    for rk in ('bin', 'str'):
                        mk_ = ctx.rng.choice(MUTATIONS)
                        steps = [['derive', route, 0, tcn], ['mutate', side, mk_], ['mutate', 1 - side, ctx.rng.choice(MUTATIONS)]]
                        if route.startswith('kw:') or route.startswith('setter:'):
                            other = ctx.rng.choice(TC if route.startswith('kw:') else ['BitArray', 'BitStream'])
                            steps = [['derive', route, 0, tcn], ['derive', route, 0, other], ['mutate', 1 + side, mk_],
                                     ['derive', route, 0, 'Bits' if route.startswith('kw:') else 'BitArray'], ['mutate', 2 - side, ctx.rng.choice(MUTATIONS)],
                                     ['derive', route, 0, tcn]]
                        case = {'root': [rk, '0110100110010110', sc], 'steps': steps}
                        ctx.run_case(lambda c, k: episode(c, k), case)
                        if rk == 'bin':
                            ctx.run_case(lambda c, k: episode(c, k), dict(case, steps=[list(x) for x in steps], lsb0=True))
    for rk, routes_ in EXT_ROUTES.items():
        for route in routes_:
            for tcn in TC:
                for side in (0, 1):
                    n += 1
                    if not ctx.mine(n):
                        continue
                    case = {'root': [rk, '0110100110010110', tcn], 'ext_route': route,
                            'steps': [['mutate', side, ctx.rng.choice(MUTATIONS)], ['derive', 'slice-full', 1, tcn], ['mutate', 0, 'x'],
                                      ['mutate', 1, ctx.rng.choice(MUTATIONS)]]}
                    ctx.run_case(lambda c, k: episode(c, k), case)
    ctx.exhaustive['pairs(route x source class x target class x mutated side)'] = True


def run(ctx):
    if not ctx.quick and ctx.shard == ctx.nshards - 1:
        # extra workload: the repository's own tests as a generator of realistic API events under the sentinels
        from rv.suite_workload import run_suite_under_sentinels
        run_suite_under_sentinels(ctx)
    if ctx.shard == 0:
        immutable_op_sweep(ctx)
    pairs(ctx)
    n = ctx.scale(12000, 200000)
    for i in range(n):
        rk = ctx.rng.choice(['str', 'str', 'bin', 'bytearray', 'memoryview', 'bitarray', 'array', 'BytesIO', 'memoryview-ro',
                             'memoryview-part', 'bytearray-sub'])
        bits = rb(ctx.rng, ctx.rng.choice([8, 16, 24, 64]))
        if rk not in ('str', 'bin') and i % 150 == 11:
            bits = rb(ctx.rng, 8 * ctx.rng.choice([4096, 4097, 8192, 65536]))        # an external buffer of a page or more (where wrapping instead of copying would pay)
        case = {'root': [rk, bits, ctx.rng.choice(TC)], 'steps': [], 'lsb0': i % 4 == 3}
        if rk == 'str' and ctx.rng.random() < 0.12:
            # the empty bitstring in its token-string spellings (they all parse to nothing)
            case['root'][1] = ''
            case['tok'] = ctx.rng.choice(['', ' ', ',', ' , ', '\t', ', ,'])
        if rk not in ('str', 'bin'):
            case['ext_route'] = ctx.rng.choice(list(EXT_ROUTES[rk]))
        ns = ctx.rng.randint(10, 20) if ctx.quick else ctx.rng.randint(10, 40)
        ctx.run_case(lambda c, k: episode(c, k, ns), case)
        if i % 499 == 0:
            ctx.sample({'root': case['root'], 'steps': case['steps'][:6]})
    clear_caches()


def replay(ctx, case):
    if 'sweep' in case:
        immutable_op_sweep(ctx)
    else:
        ctx.run_case(lambda c, k: episode(c, k), case)
