"""C05 - pack, unpack and token strings are mutually inverse and compositional."""
from __future__ import annotations

import struct

import bitstring
from bitstring import BitArray, BitStream, Bits, pack

from rv import util
from rv.model import codecs as K
from rv.util import B, CLASSES, call, exc_matches, mk, rb

AMBIENT = ['bytealigned']      # an option this property does not depend on: a quarter of the cases run with it switched on
PROP = 'C05'
SHARDS = {'quick': 4, 'thorough': 16}
RULE = ("random format ASTs: tokens of every dtype with length spelled 'name:n' / 'namen' / 'name:kw' (keyword), hex/bin/oct "
        "literals, '=value' and '=keyword' parts, struct-code groups with the four prefixes and counts, pad, self-delimiting "
        "codes, multipliers k*tok, brackets k*( ... ) nested up to 3, at most one length-less token followed only by "
        "fixed-length ones, random whitespace; the flat token list and the expected bits are known by construction from the "
        "AST. checked: pack bits and length, unpack values (string and list-of-strings formats), too few / too many / "
        "wrong-size values -> ValueError, token string in all four constructors, composition at a random top-level split, "
        "k*(f) == f written k times. key = multiset of (token kind, spelling) + nesting depth + stretchy position; "
        "non-trivial = at least 2 flat tokens")
ANCHORS = ['pack', 'tokenparser', 'preprocess_tokens', 'expand_brackets', 'structparser', 'parse_single_token',
           'parse_name_length_token', 'Bits._readlist', 'Bits._read_dtype_list', 'bitstore_from_token', 'str_to_bitstore']
SURPLUS = [(0,), (None,), (False,), ('',), (b'',), (None, 7), ((),), (0.0,), (Bits(),)]
REQUIRED_OPS = ['pack', 'unpack', 'unpack-list', 'pack-too-few', 'pack-too-many', 'pack-wrong-size', 'ctor-token-string', 'compose', 'rep-vs-flat']
MIN_EVALS = {'quick': 10000, 'thorough': 200000}
ASSUMPTIONS = ['MSB0 mode (pack/unpack order under lsb0 is C12)']

SIZED = {'uint': [1, 3, 8, 9, 16, 33, 64, 100], 'int': [1, 2, 8, 9, 16, 33], 'u': [4], 'i': [7], 'hex': [4, 8, 12, 32], 'h': [8],
         'oct': [3, 6, 12], 'o': [3], 'bin': [1, 2, 7, 9], 'b': [5], 'bits': [1, 5, 8, 13], 'bytes': [1, 2, 5],
         'float': [16, 32, 64], 'floatle': [16, 32, 64], 'floatne': [32], 'f': [32], 'uintle': [8, 16, 24, 64], 'intbe': [8, 24],
         'uintne': [16, 32], 'intle': [16], 'uintbe': [40], 'intne': [8]}
STRUCT_SIZE = {'b': 1, 'B': 1, 'h': 2, 'H': 2, 'l': 4, 'L': 4, 'i': 4, 'I': 4, 'q': 8, 'Q': 8, 'e': 2, 'f': 4, 'd': 8}


def jval(name, v):
    if isinstance(v, bytes):
        return {'b': v.hex()}
    return v


def pyval(name, v):
    """JSON value -> what pack() is handed"""
    if isinstance(v, dict) and 'b' in v:
        return bytes.fromhex(v['b'])
    if K.canon(name) == 'bits':
        return mk(Bits, v)
    return v


def gen_token(rng, allow_stretchy=False):
    r = rng.random()
    if r < 0.08:
        kind = rng.choice(['0x', '0b', '0o'])
        if kind == '0x':
            b = rb(rng, rng.choice([4, 8, 12]))
            text = '0x' + K.decode('hex', b)
        elif kind == '0b':
            b = rb(rng, rng.choice([1, 3, 8]))
            text = '0b' + b
        else:
            b = rb(rng, rng.choice([3, 6]))
            text = '0o' + K.decode('oct', b)
        if rng.random() < 0.3:
            text = text.upper() if kind != '0o' else text
        return {'t': 'lit', 'text': text, 'bits': b}
    if r < 0.18:
        prefix = rng.choice('<>=@')
        codes, vals, bits = [], [], ''
        for _ in range(rng.randint(1, 3)):
            c = rng.choice('bBhHlLiIqQefd')
            cnt = rng.choice([1, 1, 2, 3])
            codes.append([cnt, c, cnt > 1 or rng.random() < 0.2])
            for _ in range(cnt):
                if c in 'efd':
                    v = rng.choice([0.0, 1.5, -2.25, 100.0, 0.1, float('inf')])
                else:
                    sz = STRUCT_SIZE[c] * 8
                    v = rng.choice([0, -1 if c.islower() else 1, (1 << (sz - 1)) - 1, -(1 << (sz - 1)) if c.islower() else (1 << sz) - 1,
                                    rng.randint(-(1 << (sz - 1)), (1 << (sz - 1)) - 1) if c.islower() else rng.randint(0, (1 << sz) - 1)])
                vals.append(v)
                raw = struct.pack(('=' if prefix == '@' else prefix) + c, v)
                bits += ''.join(format(x, '08b') for x in raw)
        return {'t': 'struct', 'prefix': prefix, 'codes': codes, 'vals': vals, 'bits': bits}
    if r < 0.24:
        n = rng.choice([1, 3, 8])
        return {'t': 'tok', 'name': 'pad', 'n': n, 'spell': rng.choice(['n', ':']), 'val': None, 'mode': 'pos', 'bits': '0' * n}
    if r < 0.32:
        name = rng.choice(['ue', 'se', 'uie', 'sie'])
        v = K.rand_value(rng, name, 0)
        return {'t': 'tok', 'name': name, 'n': None, 'spell': 'none', 'val': v, 'mode': rng.choice(['pos', 'pos', 'eq', 'kwv']), 'bits': K.encode(name, None, v)}
    if r < 0.38:
        v = rng.choice([True, False])
        return {'t': 'tok', 'name': 'bool', 'n': None, 'spell': rng.choice(['none', 'none', 'n1']), 'val': v, 'mode': rng.choice(['pos', 'eq']),
                'bits': '1' if v else '0'}
    if r < 0.42:
        v = K.rand_float(rng, 32)
        if v != v:
            v = 1.0
        big = rng.random() < 0.5
        name = 'bfloat' if big else 'bfloatle'
        return {'t': 'tok', 'name': name, 'n': None, 'spell': 'none', 'val': v, 'mode': 'pos', 'bits': K.encode(name, None, v)}
    name = rng.choice(list(SIZED))
    n = rng.choice(SIZED[name])
    cn = K.canon(name)
    v = K.rand_value(rng, cn, n)
    if isinstance(v, float) and v != v:
        v = 0.5
    bits = K.encode(cn, n, v)
    spell = rng.choice(['n', ':', ':', 'kw'])
    mode = rng.choice(['pos', 'pos', 'pos', 'eq', 'eq', 'kwv', 'kwv', 'bare'])      # bare: the token is just a keyword whose value is a bitstring
    if cn in ('bits', 'bytes'):
        mode = 'pos' if mode == 'eq' else mode
    if cn == 'bytes' and mode == 'kwv':
        mode = 'pos'
    tok = {'t': 'tok', 'name': name, 'n': n, 'spell': spell, 'val': jval(name, v), 'mode': mode, 'bits': bits}
    if allow_stretchy and cn in ('bits', 'hex', 'bin', 'bytes', 'oct', 'uint', 'int', 'float', 'uintle') and rng.random() < 0.5:
        tok['stretchy'] = True
        tok['spell'] = 'none'
        if cn in ('uint', 'int', 'float', 'uintle'):
            tok['pack_needs_length'] = True
    return tok


def gen_tree(rng, depth, budget):
    items = []
    for _ in range(rng.randint(1, 4)):
        if budget[0] <= 0:
            break
        r = rng.random()
        if r < 0.15 and depth < 3:
            k = rng.choice([1, 2, 3, 2, 3, 0])           # 'n*(f)' is f written n times - also for n = 0
            sub = gen_tree(rng, depth + 1, budget)
            if sub:
                items.append({'t': 'rep', 'k': k, 'items': sub})
                budget[0] -= (k - 1) * len(flatten(sub))
        elif r < 0.25:
            k = rng.choice([1, 2, 3, 2, 3, 0])
            t = gen_token(rng)
            if t['t'] == 'tok' and t['mode'] != 'pos':
                t['mode'] = 'pos'
            items.append({'t': 'mul', 'k': k, 'item': t})
            budget[0] -= k
        else:
            items.append(gen_token(rng))
            budget[0] -= 1
    return items


def flatten(items):
    out = []
    for it in items:
        if it['t'] == 'rep':
            out += flatten(it['items']) * it['k']
        elif it['t'] == 'mul':
            out += [it['item']] * it['k']
        else:
            out.append(it)
    return out


def depth_of(items):
    d = 0
    for it in items:
        if it['t'] == 'rep':
            d = max(d, 1 + depth_of(it['items']))
    return d


def force_pos(items):
    """inside repetitions every occurrence takes its value positionally (one value per flat occurrence)"""
    for it in items:
        if it['t'] == 'rep':
            force_pos(it['items'])
        elif it['t'] == 'mul':
            if it['item']['t'] == 'tok':
                it['item']['mode'] = 'pos'
        elif it['t'] == 'tok':
            it['mode'] = 'pos'


class Render:
    """Renders an AST to a format string; collects keyword lengths / keyword values."""

    def __init__(self, rng, with_values=True, ws=True):
        self.kw = {}
        self.rng = rng
        self.with_values = with_values
        self.ws = ws
        self.count = 0

    def tok(self, t):
        if t['t'] == 'lit':
            return t['text']
        if t['t'] == 'struct':
            return t['prefix'] + ''.join((str(c[0]) if c[2] else '') + c[1] if c[0] > 1 or c[2] else c[1] for c in t['codes'])
        name, n, sp = t['name'], t['n'], t['spell']
        key = id(t)
        if sp == 'none' or n is None:
            s = name
        elif sp == 'n1':
            s = name + '1'
        elif sp == 'kw':
            # keyword names whose order of appearance is not their alphabetical order
            kname = t.setdefault('_kw', f'{"zkqgm"[len(self.kw) % 5]}{len(self.kw)}_{self.count}')
            self.count += 1
            self.kw[kname] = n
            s = f'{name}:{kname}'
        elif sp == 'n':
            s = f'{name}{n}'
        else:
            s = f'{name}:{n}' if not self.ws or self.rng.random() < 0.8 else f'{name} : {n}'
        if name == 'pad' or not self.with_values:
            return s
        if t['mode'] == 'bare':
            bname = t.setdefault('_bare', f'w{len(self.kw)}_{self.count}')
            self.count += 1
            self.kw[bname] = Bits(bin=t['bits']) if t['bits'] else Bits()
            return bname
        if t['mode'] == 'eq':
            v = t['val']
            return f'{s}={v}' if not self.ws or self.rng.random() < 0.7 else f'{s} = {v}'
        if t['mode'] == 'kwv':
            vname = t.setdefault('_kwv', f'v{len(self.kw)}_{self.count}')
            self.count += 1
            self.kw[vname] = pyval(name, t['val'])
            return f'{s}={vname}'
        return s

    def tree(self, items):
        parts = []
        for it in items:
            if it['t'] == 'rep':
                # white space is insignificant anywhere in a format, around a factor, its '*' and its brackets included
                a, b, c, d = (self.rng.choice(['', '', '', ' ', '  ']) for _ in range(4)) if self.ws else ('', '', '', '')
                parts.append(f"{it['k']}{a}*{b}({c}{self.tree(it['items'])}{d})")
            elif it['t'] == 'mul':
                star = '*' if not self.ws or self.rng.random() < 0.8 else ' * '
                parts.append(f"{it['k']}{star}{self.tok(it['item'])}")
            else:
                parts.append(self.tok(it))
        sep = self.rng.choice([',', ', ', ' , ', ',  ']) if self.ws else ','
        return sep.join(parts)


def positional_values(flat):
    out = []
    for t in flat:
        if t['t'] == 'struct':
            out += t['vals']
        elif t['t'] == 'tok' and t['name'] != 'pad' and t['mode'] == 'pos':
            out.append(pyval(t['name'], t['val']))
    return out


def unpack_values(flat):
    out = []
    for t in flat:
        if t['t'] == 'struct':
            for (cnt, c, _), in [(x,) for x in t['codes']]:
                pass
            # struct floats come back rounded to their width
            i = 0
            for cnt, c, _ in t['codes']:
                for _k in range(cnt):
                    v = t['vals'][i]
                    i += 1
                    if c in 'efd':
                        v = struct.unpack('>' + c, struct.pack('>' + c, v))[0]
                    out.append(v)
        elif t['t'] == 'tok' and t['name'] != 'pad':
            cn = K.canon(t['name'])
            out.append(K.decode(cn, t['bits']))
    return out


def key_of(flat, tree):
    kinds = sorted({(t['t'] if t['t'] != 'tok' else K.canon(t['name'])) + ':' + str(t.get('spell', '')) + ':' + str(t.get('mode', '')) for t in flat})
    st = [i for i, t in enumerate(flat) if t.get('stretchy')]
    return (tuple(kinds[:6]), depth_of(tree), (st[0] if st else -1) if len(flat) else -1, min(len(flat), 8))


def shape(got, expect_exc):
    if expect_exc:
        return 'no-raise' if got[0] == 'ok' else 'wrong-exc:' + type(got[1]).__name__
    return 'value' if got[0] == 'ok' else 'unexpected-exc:' + type(got[1]).__name__


def judge(ctx, case):
    rng = ctx.rng
    tree = case['tree']
    flat = flatten(tree)
    exp = ''.join(t['bits'] for t in flat)
    has_lit = any(t['t'] == 'lit' for t in flat)
    stretchy = [t for t in flat if t.get('stretchy')]
    ic = ('stretchy' if stretchy else 'fixed') + ('&nested' if depth_of(tree) else '') + ('&struct' if any(t['t'] == 'struct' for t in flat) else '')
    key = key_of(flat, tree)
    nontrivial = len(flat) >= 2
    with util.options(lsb0=False):
        if util.STR_HISTORY:
            # the values of this case were used before: each one initialised (keyword and property route) a mutable object that was then changed in place
            for t in flat:
                if t['t'] == 'tok' and t.get('name') not in (None, 'pad') and 'val' in t:
                    for mcls in (BitArray, BitStream):
                        try:
                            kw_ = {t['name']: pyval(t['name'], t['val'])}
                            if t.get('n') is not None and K.canon(t['name']) not in ('bool',) + tuple(K.VARIABLE):
                                kw_['length'] = t['n'] * (8 if K.canon(t['name']) == 'bytes' else 1)
                            o_ = mcls(**kw_)
                            o_.append('0b01')
                            o_.invert()
                            o2_ = mcls(max(len(o_) - 2, 0)) if 'length' in kw_ and K.canon(t['name']) not in ('bytes', 'hex', 'bin', 'oct', 'bits') else mcls()
                            setattr(o2_, t['name'], pyval(t['name'], t['val']))
                            o2_ += '0b1'
                            o2_.invert()
                        except Exception:  # noqa: BLE001 - not this prelude's business
                            pass
        # ---- pack ---------------------------------------------------------------------------------------------
        r = Render(rng, True, case.get('ws', True))
        if case.get('fmt') is None:
            for t in stretchy:
                if t.get('pack_needs_length'):
                    t['_packspell'] = True
            fmt = r.tree(tree)
            case['fmt'] = fmt
            case['kw'] = {k: (v if not isinstance(v, (bytes, Bits)) else None) for k, v in r.kw.items()}
        else:
            fmt = case['fmt']
            r.tree(tree)            # rebuild keyword dict (names are stored in the tokens)
        kw = r.kw
        vals = positional_values(flat)
        # a length-less uint/int/float cannot be packed (needs a length): pack is only judged when every token is packable
        packable = not any(t.get('pack_needs_length') for t in stretchy)
        p = None
        if packable:
            got = call(lambda: pack(fmt, *vals, **kw))
            ctx.op('pack', 'ok' if got[0] == 'ok' else type(got[1]).__name__)
            if got[0] == 'ok' and B(got[1]) == exp and len(got[1]) == len(exp) and type(got[1]).__name__ == 'BitStream' and got[1].pos == 0:
                ctx.ok(('pack',) + key, nontrivial)
                p = got[1]
            else:
                gv = B(got[1])[:80] if got[0] == 'ok' else got[1]
                ctx.mismatch(f'C05|pack|{ic}|{shape(got, False)}', case, f'{fmt!r:.150}: got {gv!s:.80} expected {exp[:80]}')
            # what pack returns is the caller's own: changing it in place must not change what the same call builds next time,
            # nor an earlier result (a single-token format is the shortest route from a value's store to the result)
            if got[0] == 'ok' and p is not None and (len(flat) == 1 or case.get('surplus', 0) % 3 == 0):
                def again():
                    q = pack(fmt, *vals, **kw)
                    q.append('0b1')
                    q.invert()
                    q.prepend('0b0')
                    return B(pack(fmt, *vals, **kw)), B(p)
                got0 = call(again)
                ctx.op('pack-after-mutating-an-earlier-result', 'ok' if got0[0] == 'ok' else type(got0[1]).__name__)
                if got0 != ('ok', (exp, exp)):
                    ctx.mismatch(f'C05|pack-after-mutating-an-earlier-result|{ic}|{shape(got0, False)}', case, f'{fmt!r:.120}: {got0[1]!s:.120} expected {exp[:60]}')
                else:
                    ctx.ok(('pack-again',) + key[:1], True)
            # a positional str value that happens to be spelt like the name of a keyword argument is still that value
            named = [v for v in vals if isinstance(v, str) and v.isidentifier() and v not in kw and v not in fmt]      # (not a text that is a token of the format)
            if named and got[0] == 'ok':
                extra = {v: Bits('0b1') for v in named[:2]}
                got1 = call(lambda: B(pack(fmt, *vals, **kw, **extra)))
                ctx.op('pack', 'ok' if got1[0] == 'ok' else type(got1[1]).__name__)
                if got1 != ('ok', exp):
                    ctx.mismatch(f'C05|pack-value-spelt-like-a-keyword|{ic}|{shape(got1, False)}', case, f'{fmt!r:.120} with extra keyword(s) {list(extra)}')
                else:
                    ctx.ok(('pack-value-like-keyword',) + key[:1], True)
            # list-of-strings format gives the same bits
            if len(tree) > 1 and got[0] == 'ok':
                k = rng.randint(1, len(tree) - 1)
                r2 = Render(rng, True, False)
                f1, f2 = r2.tree(tree[:k]), r2.tree(tree[k:])
                got2 = call(lambda: B(pack([f1, f2], *vals, **r2.kw)))
                ctx.op('pack', 'ok' if got2[0] == 'ok' else type(got2[1]).__name__)
                if got2 != ('ok', exp):
                    ctx.mismatch(f'C05|pack-list-format|{ic}|{shape(got2, False)}', case, f'{[f1, f2]!r:.150}')
                else:
                    ctx.ok(('pack-list',) + key, nontrivial)
                # formats compose: after having been used together, each part on its own still builds its own bits
                v1 = positional_values(flatten(tree[:k]))
                v2 = positional_values(flatten(tree[k:]))
                got3 = call(lambda: B(pack(f1, *v1, **r2.kw)) + B(pack(f2, *v2, **r2.kw)))
                ctx.op('compose', 'ok' if got3[0] == 'ok' else type(got3[1]).__name__)
                if got3 != ('ok', exp):
                    ctx.mismatch(f'C05|compose|pack-parts-after-list-use|{shape(got3, False)}', case, f'{f1!r:.80} then {f2!r:.80}: {got3[1]!s:.80}')
                else:
                    ctx.ok(('compose-parts',) + key[:1], nontrivial)
            # ---- error cases made from the valid one -------------------------------------------------------------
            if vals:
                g = call(lambda: pack(fmt, *vals[:-1], **kw))
                ctx.op('pack-too-few', 'ok' if g[0] == 'ok' else type(g[1]).__name__)
                if g[0] == 'ok' or not exc_matches(g[1], 'ValueError'):
                    ctx.mismatch(f'C05|pack-too-few|{ic}|{shape(g, True)}', case, f'{fmt!r:.120}')
                else:
                    ctx.ok(('too-few',) + key[:1], nontrivial)
            else:
                ctx.op('pack-too-few', 'n/a')
            # one value too many, whatever that value is (None, False, '' and 0 are values too); sometimes two
            surplus = SURPLUS[case.get('surplus', 0) % len(SURPLUS)]
            g = call(lambda: pack(fmt, *vals, *surplus, **kw))
            ctx.op('pack-too-many', 'ok' if g[0] == 'ok' else type(g[1]).__name__)
            if g[0] == 'ok' or not exc_matches(g[1], 'ValueError'):
                ctx.mismatch(f'C05|pack-too-many|{ic}|{shape(g, True)}', case, f'{fmt!r:.120}')
            else:
                ctx.ok(('too-many',) + key[:1], nontrivial)
            # wrong-size value for one positional sized token
            cand = [i for i, t in enumerate(flat) if t['t'] == 'tok' and t['mode'] == 'pos' and t['n'] is not None and not t.get('stretchy')
                    and K.canon(t['name']) in ('hex', 'bin', 'oct', 'bits', 'bytes', 'uint', 'int', 'uintle', 'intbe')]
            if cand:
                i = rng.choice(cand)
                t = flat[i]
                cn = K.canon(t['name'])
                if cn in ('uint', 'uintle'):
                    bad = 1 << t['n']
                elif cn in ('int', 'intbe'):
                    bad = -(1 << (t['n'] - 1)) - 1
                elif cn == 'bytes':
                    bad = bytes(t['n'] + 1)
                elif cn == 'bits':
                    bad = mk(Bits, t['bits'] + '1')
                elif cn == 'hex':
                    bad = t['val'] + 'f'
                elif cn == 'oct':
                    bad = t['val'] + '7'
                else:
                    bad = t['val'] + '1'
                # position of this token's value among the positional values
                vi = len(positional_values(flat[:i]))
                v2 = list(vals)
                v2[vi] = bad
                g = call(lambda: pack(fmt, *v2, **kw))
                ctx.op('pack-wrong-size', 'ok' if g[0] == 'ok' else type(g[1]).__name__)
                if g[0] == 'ok' or not exc_matches(g[1], 'ValueError'):
                    ctx.mismatch(f'C05|pack-wrong-size|{cn}|{shape(g, True)}', case, f'{fmt!r:.120} value #{vi} = {bad!r:.40}')
                else:
                    ctx.ok(('wrong-size', cn), True)
        # ---- unpack (formats without literals / values) ---------------------------------------------------------
        if not has_lit:
            ru = Render(rng, False, case.get('ws', True))
            ufmt = ru.tree(tree)
            src = p if p is not None else mk('BitStream', exp)
            expv = unpack_values(flat)
            for cname in ('Bits', 'BitStream'):
                s = mk(cname, exp)
                got = call(lambda: s.unpack(ufmt, **ru.kw))
                ctx.op('unpack', 'ok' if got[0] == 'ok' else type(got[1]).__name__)
                if got[0] == 'ok' and len(got[1]) == len(expv) and all(K.same_value(a, b) for a, b in zip(got[1], expv)):
                    ctx.ok(('unpack', cname) + key, nontrivial)
                else:
                    ctx.mismatch(f'C05|unpack|{ic}|{shape(got, False)}', case, f'{ufmt!r:.150}: got {got[1]!r:.100} expected {expv!r:.100}')
            if len(tree) > 1:
                k = rng.randint(1, len(tree) - 1)
                r3 = Render(rng, False, False)
                lf = [r3.tree(tree[:k]), r3.tree(tree[k:])]
                got = call(lambda: src.unpack(lf, **r3.kw))
                ctx.op('unpack-list', 'ok' if got[0] == 'ok' else type(got[1]).__name__)
                if got[0] == 'ok' and len(got[1]) == len(expv) and all(K.same_value(a, b) for a, b in zip(got[1], expv)):
                    ctx.ok(('unpack-list',) + key, nontrivial)
                else:
                    ctx.mismatch(f'C05|unpack-list-format|{ic}|{shape(got, False)}', case, f'{lf!r:.150}: got {got[1]!r:.100}')
            else:
                ctx.op('unpack-list', 'n/a')
        # ---- token string with embedded values -------------------------------------------------------------------
        tsable = all((t['t'] == 'lit') or (t['t'] == 'tok' and (t['name'] == 'pad' or K.canon(t['name']) not in ('bits', 'bytes')) and not t.get('stretchy') and t['spell'] != 'kw')
                     for t in flat) and not any(it['t'] in ('rep',) for it in tree)
        if tsable and flat:
            parts = []
            for it in tree:
                tt = it['item'] if it['t'] == 'mul' else it
                t2 = dict(tt)
                t2['mode'] = 'eq'
                t2.pop('_kwv', None)
                text = Render(rng, True, False).tok(t2)
                parts.append((f"{it['k']}*{text}") if it['t'] == 'mul' else text)
            ts = ', '.join(parts)
            for cname in util.CLASS_NAMES:
                got = call(lambda: B(CLASSES[cname](ts)))
                ctx.op('ctor-token-string', 'ok' if got[0] == 'ok' else type(got[1]).__name__)
                if got == ('ok', exp):
                    ctx.ok(('ctor', cname) + key[:1], nontrivial)
                else:
                    ctx.mismatch(f'C05|ctor-token-string|{ic}|{shape(got, False)}', case, f'{cname}({ts!r:.120}): {got[1]!s:.80} expected {exp[:80]}')
            # composition at a random top-level split
            k = rng.randint(0, len(parts))
            a, b = ', '.join(parts[:k]), ', '.join(parts[k:])
            got = call(lambda: B(Bits(a) + Bits(b)))
            ctx.op('compose', 'ok' if got[0] == 'ok' else type(got[1]).__name__)
            if got == ('ok', exp):
                ctx.ok(('compose',) + key[:1], nontrivial)
            else:
                ctx.mismatch(f'C05|compose|token-string|{shape(got, False)}', case, f'{a!r:.80} + {b!r:.80}')
        else:
            ctx.op('ctor-token-string', 'n/a')
            ctx.op('compose', 'n/a')
        # ---- k*(f) equals f written k times ------------------------------------------------------------------------
        if depth_of(tree) and packable:
            def expand(items):
                out = []
                for it in items:
                    if it['t'] == 'rep':
                        out += expand(it['items']) * it['k']
                    elif it['t'] == 'mul':
                        out += [it['item']] * it['k']
                    else:
                        out.append(it)
                return out
            r4 = Render(rng, True, False)
            flat_fmt = ','.join(r4.tok(t) for t in expand(tree))
            got = call(lambda: B(pack(flat_fmt, *vals, **r4.kw)))
            ctx.op('rep-vs-flat', 'ok' if got[0] == 'ok' else type(got[1]).__name__)
            if got == ('ok', exp):
                ctx.ok(('rep-vs-flat', depth_of(tree)), True)
            else:
                ctx.mismatch(f'C05|rep-vs-flat|{ic}|{shape(got, False)}', case, f'{flat_fmt!r:.150}')
        else:
            ctx.op('rep-vs-flat', 'n/a')
    ctx.state(len(flat), depth_of(tree), len(exp))


def gen_case(ctx):
    rng = ctx.rng
    budget = [12 if ctx.quick else 40]
    tree = gen_tree(rng, 0, budget)
    if depth_of(tree) or any(it['t'] == 'mul' for it in tree):
        force_pos(tree)
    # optionally one length-less token; everything after it must be fixed-length
    if rng.random() < 0.3:
        k = rng.randint(0, len(tree))
        st = gen_token(rng, allow_stretchy=True)
        tries = 0
        while not st.get('stretchy') and tries < 20:
            st = gen_token(rng, allow_stretchy=True)
            tries += 1
        if st.get('stretchy'):
            st['mode'] = 'pos'
            tail = []
            for it in tree[k:]:
                fl = flatten([it])
                if all(t['t'] in ('lit',) or (t['t'] == 'struct') or (t['t'] == 'tok' and t['n'] is not None and not t.get('stretchy'))
                       or (t['t'] == 'tok' and t['name'] in ('bool', 'bfloat', 'bfloatle')) for t in fl):
                    tail.append(it)
            tree = tree[:k] + [st] + tail
    return {'tree': tree, 'ws': rng.random() < 0.5, 'fmt': None, 'surplus': rng.randrange(9)}


DIRECTED = [
    {'tree': [{'t': 'tok', 'name': 'uint', 'n': 12, 'spell': ':', 'val': 100, 'mode': 'pos', 'bits': format(100, '012b')},
              {'t': 'tok', 'name': 'bits', 'n': 12, 'spell': 'none', 'val': '111111111110', 'mode': 'pos', 'bits': '111111111110', 'stretchy': True}], 'ws': False, 'fmt': None},
    {'tree': [{'t': 'rep', 'k': 2, 'items': [{'t': 'tok', 'name': 'u', 'n': 4, 'spell': 'n', 'val': 5, 'mode': 'pos', 'bits': '0101'},
                                              {'t': 'rep', 'k': 3, 'items': [{'t': 'tok', 'name': 'bool', 'n': None, 'spell': 'none', 'val': True, 'mode': 'pos', 'bits': '1'}]}]},
              {'t': 'tok', 'name': 'bytes', 'n': 2, 'spell': ':', 'val': {'b': 'abcd'}, 'mode': 'pos', 'bits': format(0xabcd, '016b')}], 'ws': True, 'fmt': None},
    {'tree': [{'t': 'tok', 'name': 'hex', 'n': 8, 'spell': 'none', 'val': 'a5', 'mode': 'pos', 'bits': '10100101', 'stretchy': True},
              {'t': 'tok', 'name': 'bytes', 'n': 1, 'spell': ':', 'val': {'b': 'ff'}, 'mode': 'pos', 'bits': '11111111'}], 'ws': False, 'fmt': None},
]


def judge_empty_value(ctx, case):
    """A token whose embedded value is the empty text ('hex=', 'bin:0=') is that token with the empty value, not a token waiting for a value."""
    name, sized, ws = case['name'], case['sized'], case['ws']
    tok = f'{name}:0' if sized else name
    emb = f'{tok} = ' if ws else f'{tok}='
    with util.options(lsb0=False):
        for ctxname, fmt_e, fmt_s, vals_e, vals_s, exp in (
                ('alone', emb, tok, [], [''], ''),
                ('first', f'{emb}, uint:4', f'{tok}, uint:4', [9], ['', 9], '1001'),
                ('last', f'uint:4, {emb}', f'uint:4, {tok}', [9], [9, ''], '1001'),
                ('middle', f'uint:4=9, {emb}, 0b1', f'uint:4=9, {tok}, 0b1', [], [''], '10011'),
                ('in-brackets', f'2*(bool, {emb})', f'2*(bool, {tok})', [True, False], [True, '', False, ''], '10')):
            g1 = call(lambda: B(pack(fmt_e, *vals_e)))
            g2 = call(lambda: B(pack(fmt_s, *vals_s)))
            ctx.op('empty-embedded-value:pack', 'ok' if g1[0] == 'ok' else type(g1[1]).__name__)
            if g1 != ('ok', exp) or g2 != ('ok', exp):
                ctx.mismatch(f'C05|empty-embedded-value|pack,{ctxname}|{shape(g1 if g1 != ("ok", exp) else g2, False)}', case,
                             f'pack({fmt_e!r}, *{vals_e}) -> {g1[1]!s:.60}; pack({fmt_s!r}, *{vals_s}) -> {g2[1]!s:.60}; expected {exp!r}')
            else:
                ctx.ok(('empty-value', 'pack', ctxname, name, sized), True)
            # one value too many is still one too many
            g3 = call(lambda: B(pack(fmt_e, *vals_e, '0xf')))
            ctx.op('pack-too-many', 'ok' if g3[0] == 'ok' else type(g3[1]).__name__)
            if g3[0] == 'ok' or not exc_matches(g3[1], 'ValueError'):
                ctx.mismatch(f'C05|empty-embedded-value|pack-too-many,{ctxname}|{shape(g3, True)}', case, f'pack({fmt_e!r}, *{vals_e}, "0xf") -> {g3[1]!s:.60}')
            else:
                ctx.ok(('empty-value', 'too-many', ctxname, name, sized), True)
            if not vals_e:
                g4 = call(lambda: B(Bits(fmt_e)))
                ctx.op('empty-embedded-value:ctor', 'ok' if g4[0] == 'ok' else type(g4[1]).__name__)
                if g4 != ('ok', exp):
                    ctx.mismatch(f'C05|empty-embedded-value|ctor,{ctxname}|{shape(g4, False)}', case, f'Bits({fmt_e!r}) -> {g4[1]!s:.60} expected {exp!r}')
                else:
                    ctx.ok(('empty-value', 'ctor', ctxname, name, sized), True)


def run(ctx):
    if ctx.shard == 0:
        for c in DIRECTED:
            ctx.run_case(judge, c)
        for name in ('hex', 'bin', 'oct', 'bits'):
            for sized in (True, False):
                for ws in (False, True):
                    ctx.run_case(judge_empty_value, {'empty_value': True, 'name': name, 'sized': sized, 'ws': ws})
    n = ctx.scale(36000, 600000)
    for i in range(n):
        c = gen_case(ctx)
        ctx.run_case(judge, c)
        if i % 1999 == 0:
            ctx.sample({'fmt': c.get('fmt'), 'flat_tokens': len(flatten(c['tree']))})


def replay(ctx, case):
    if case.get('empty_value'):
        return ctx.run_case(judge_empty_value, case)
    case = dict(case)
    case['fmt'] = None
    ctx.run_case(judge, case)
