"""C06 - stream reads consume exactly what they return; the position is always valid."""
from __future__ import annotations

import copy

import bitstring
from bitstring import Bits, BitStream, ConstBitStream, Dtype

from rv import util
from rv.model import bits as M
from rv.model import codecs as K
from rv.model import stream as S
from rv.props import _mut
from rv.util import B, CLASSES, call, exc_matches, mk, rb

PROP = 'C06'
SHARDS = {'quick': 4, 'thorough': 16}
RULE = ("lock-step episodes on ConstBitStream / BitStream from every initial (content, pos) in the pools: 6-12 "
        "(quick) / up to 40 (thorough) steps drawn from read/peek (sized, stretchy, self-delimiting, single-length, "
        "pad, Dtype-object and integer-count tokens), readlist/peeklist (strings, lists, integers, keyword "
        "lengths), pos/bitpos/bytepos get+set, bytealign, find/rfind/readto, every C03 mutator and property "
        "assignment on positioned BitStreams, derived objects, ==/hash/non-stream results against a twin at "
        "another pos; the (bits, pos) model runs beside the real object and value, exception class and pos "
        "are compared after every step. key = (op, token kind, remaining-bits class, outcome); non-trivial = "
        "non-empty stream")
# the bytealigned option only decides what find/rfind/readto look for when they are not told; every fourth case runs with it on
AMBIENT = ['bytealigned']
ANCHORS = ['ConstBitStream.read', 'ConstBitStream.readlist', 'ConstBitStream.peek', 'ConstBitStream.peeklist',
           'ConstBitStream.readto', 'ConstBitStream.bytealign', 'ConstBitStream._setbitpos', 'ConstBitStream._getbytepos',
           'ConstBitStream._setbytepos', 'ConstBitStream.find', 'ConstBitStream.rfind', 'BitStream.__iadd__',
           'BitStream.prepend', 'BitStream.__setitem__', 'BitStream.__delitem__', 'BitStream.insert', 'BitStream.replace',
           'ConstBitStream.overwrite', 'ConstBitStream.append', 'ConstBitStream._clear', 'ConstBitStream.__getitem__',
           'ConstBitStream.__copy__', 'BitStream.__copy__', 'Bits._readue', 'Bits._readuie', 'Bits._readse', 'Bits._readsie',
           'Bits._readlist', 'Bits._read_dtype_list', 'DtypeDefinition.__init__.<locals>.read_fn']
STREAM_OPS = ['read', 'peek', 'readlist', 'peeklist', 'setpos', 'getpos', 'bytepos_get', 'bytepos_set', 'bytealign',
              'find', 'rfind', 'readto', 'derive', 'twin']
REQUIRED_OPS = STREAM_OPS + ['mutate', 'propassign']
REQUIRED_SENTINELS = ['S2']
MIN_EVALS = {'quick': 20000, 'thorough': 300000}
ASSUMPTIONS = ['MSB0 mode', 'values of the 8/6/4-bit float dtypes are compared with the same interpretation of a fresh '
               'Bits of the consumed slice (their decoding itself is C11)']


def twin_value(name, seg):
    return getattr(mk(Bits, seg), name)


def build_fmt(f):
    if isinstance(f, dict) and 'dtype' in f:
        return Dtype(f['dtype'][0], f['dtype'][1])
    return f


def rem_class(need, rem):
    if rem == 0:
        return 'rem0'
    if need is None:
        return 'rem?'
    return 'rem<need' if rem < need else 'rem=need' if rem == need else 'rem>need'


def gen_step(rng, m, pos, mutable):
    L = len(m)
    r = rng.random()
    if mutable and r < 0.2:
        op, a = _mut.gen_step(rng, L, max_len=5000)
        if op in ('insert', 'overwrite') and rng.random() < 0.4:
            a[1] = None
        return ['mutate', op, a]
    if mutable and r < 0.25:
        name, n = rng.choice([('uint', 8), ('int', 12), ('hex', 8), ('bin', 5), ('uintle', 16), ('float', 32), ('bytes', 2), ('bool', None), ('uint', None), ('int', None)])
        if n is None and name != 'bool':
            v = rng.choice([0, 1, 3])
            return ['propassign', name, None, v]
        v = K.rand_value(rng, name, n if n else 1)
        if isinstance(v, bytes):
            v = {'hex': v.hex()}
        if isinstance(v, float) and v != v:
            v = 0.5
        return ['propassign', name, n, v]
    op = rng.choice(STREAM_OPS)
    if op in ('read', 'peek'):
        return [op, S.gen_token(rng)]
    if op in ('readlist', 'peeklist'):
        toks = [S.gen_token(rng, allow_dtype=True) for _ in range(rng.randint(1, 4))]
        style = rng.choice(['str', 'list', 'kw'])
        return [op, toks, style]
    if op == 'setpos':
        return [op, rng.choice(['pos', 'bitpos']), rng.choice([0, 1, L, L + 1, -1, L // 2, 7, 8, 9, L - 1, 10 ** 6])]
    if op == 'getpos':
        return [op]
    if op == 'bytepos_get':
        return [op]
    if op == 'bytepos_set':
        return [op, rng.choice([0, 1, L // 8, L // 8 + 1, -1, 2])]
    if op == 'bytealign':
        return [op]
    if op in ('find', 'rfind', 'readto'):
        pl = rng.choice([1, 2, 3, 8])
        if L >= pl and rng.random() < 0.6:
            k = rng.randrange(0, L - pl + 1)
            p = m[k:k + pl]
        else:
            p = rb(rng, pl)
        if rng.random() < 0.05:
            p = ''
        return [op, util.operand_spec(rng, p, ['Bits', 'str', 'BitArray', 'bitarray']), rng.choice([None, False, True])]
    if op == 'derive':
        return [op]
    return ['twin', rng.randint(0, L)]


def expected_pos_after_mutator(op, a, ma, p, L0, L1, ok):
    """Set of acceptable positions after a mutator (documented rule or T10)."""
    if not ok:
        # "other operations move pos only as documented": a raising call that left the length alone leaves pos alone
        return ({p}, None) if L1 == L0 else ({p, 0}, 'T10')
    if op in ('append', 'iadd'):
        return {L1}, None
    if op in ('prepend', 'clear'):
        return {0}, None
    if op in ('delitem', 'setitem_bits', 'setitem_int', 'replace'):
        return ({0} if L1 != L0 else {p}), None
    if op in ('insert', 'overwrite'):
        bs = ma[0]
        if not bs:
            return {p}, None
        ipos = ma[1]
        if ipos < 0:
            ipos += L0
        return {ipos + len(bs)}, None
    # <<=, >>=, *=, &=, |=, ^=, rol, ror, reverse, byteswap, invert, set: no documented move; T10 only when the length changed (*=)
    return ({p}, None) if L1 == L0 else ({p, 0}, 'T10')


def episode(ctx, case, nsteps=0):
    cname = case['cls']
    cls = CLASSES[cname]
    m = case['init']
    pos = case['pos']
    mutable = cname == 'BitStream'
    steps = case['steps']
    rng = ctx.rng
    with util.options(lsb0=False, bytealigned=False):
        if case.get('made') and mutable:
            s = util.mk_via(cls, m, case['made'])       # the stream came to hold its bits in another way; its position is then set
            s.pos = pos
        else:
            s = cls(bin=m, pos=pos) if m else cls()
        if s.pos != pos:
            ctx.mismatch('C06|ctor|pos-keyword|pos', case, f'{s.pos} != {pos}')
        i = 0
        while True:
            if i < len(steps):
                st = steps[i]
            elif i < nsteps:
                st = gen_step(rng, m, pos, mutable)
                steps.append(st)
            else:
                break
            i += 1
            m, pos = step(ctx, s, m, pos, st, case, cname)
            ctx.state(m if len(m) < 160 else hash(m), pos)


def step(ctx, s, m, pos, st, case, cname):
    L = len(m)
    op = st[0]
    rem = L - pos
    mech = None
    detail = ''
    newpos = pos
    key = None

    def bad(mk_, d=''):
        nonlocal mech, detail
        if mech is None:
            mech, detail = mk_, d

    if op in ('read', 'peek'):
        tok = st[1]
        mr = S.read(m, pos, tok, twin_value)
        kind, got = call(lambda: getattr(s, op)(build_fmt(tok['fmt'])))
        ctx.op(op, 'ok' if kind == 'ok' else type(got).__name__)
        tk = tok['kind'] + (':' + tok['name'] if tok['kind'] in ('single', 'variable') else '')
        short = tok['kind'] == 'single' and rem < tok['n']
        tclass = tok['kind'] + ('&short' if mr[0] == 'exc' and 'ReadError' in mr[1] and len(mr[1]) == 1 else '')
        if tok['kind'] == 'count' and tok['n'] < 0:
            tclass = 'negative-count'
        need = (tok['n'] or 0) * S.unit(tok['name']) if tok['n'] is not None else None
        if mr[0] == 'ok':
            if kind != 'ok':
                bad(f'C06|{op}|{tclass}|unexpected-exc:{type(got).__name__}', f'{tok["fmt"]}: {got!s:.80}')
            elif not K.same_value(got, mr[1]):
                bad(f'C06|{op}|{tclass}|value', f'{tok["fmt"]}: got {got!r:.60} expected {mr[1]!r:.60}')
            elif isinstance(got, ConstBitStream) and got.pos != 0:
                bad(f'C06|{op}|{tclass}|result-stream-pos', f'{got.pos}')
            elif isinstance(got, Bits) and not isinstance(got, type(s)) and tok['kind'] == 'count':
                bad(f'C06|{op}|{tclass}|result-class', type(got).__name__)
            newpos = mr[2] if op == 'read' else pos
        else:
            if mr[2]:
                ctx.tolerate(mr[2])
            if kind == 'ok':
                bad(f'C06|{op}|{tclass}|no-raise', f'{tok["fmt"]} at pos {pos}/{L}: returned {got!r:.60}')
            elif not exc_matches(got, mr[1]):
                bad(f'C06|{op}|{tclass}|wrong-exc:{type(got).__name__}', f'{tok["fmt"]} rem={rem}: expected {mr[1]}')
            newpos = pos
        key = (op, tk, rem_class(need, rem), mr[0])
    elif op in ('readlist', 'peeklist'):
        toks, style = st[1], st[2]
        kw = {}
        fm = []
        for j, t in enumerate(toks):
            f = t['fmt']
            if style == 'kw' and t['kind'] == 'sized' and isinstance(f, str) and t['n'] > 0:
                kname = f'k{j}'
                kw[kname] = t['n']
                f = f'{t["name"]}:{kname}'
            fm.append(build_fmt(f))
        allstr = all(isinstance(f, str) for f in fm)
        fmt = ','.join(fm) if (style == 'str' and allstr) else fm
        mr = S.readlist(m, pos, toks, twin_value)
        kind, got = call(lambda: getattr(s, op)(fmt, **kw))
        ctx.op(op, 'ok' if kind == 'ok' else type(got).__name__)
        neg = any(t['kind'] == 'count' and t['n'] < 0 for t in toks)
        ft = mr[3] if (mr[0] == 'exc' and len(mr) > 3) else None
        tclass = 'negative-count' if neg else ('single-short' if ft is not None and ft['kind'] == 'single' and tuple(mr[1]) == ('ReadError',) else 'tokens')
        if mr[0] == 'ok':
            if kind != 'ok':
                bad(f'C06|{op}|{tclass}|unexpected-exc:{type(got).__name__}', f'{fmt}: {got!s:.80}')
            elif len(got) != len(mr[1]) or not all(K.same_value(x, y) for x, y in zip(got, mr[1])):
                bad(f'C06|{op}|{tclass}|value', f'{fmt}: got {got!r:.80} expected {mr[1]!r:.80}')
            elif any(isinstance(x, ConstBitStream) and x.pos != 0 for x in got):
                bad(f'C06|{op}|{tclass}|result-stream-pos')
            newpos = mr[2] if op == 'readlist' else pos
        else:
            if mr[2]:
                ctx.tolerate(mr[2])
            classes = tuple(mr[1]) + (('ValueError', 'ReadError') if neg else ())
            if kind == 'ok':
                bad(f'C06|{op}|{tclass}|no-raise', f'{fmt} at pos {pos}/{L}: returned {got!r:.60}')
            elif not exc_matches(got, classes):
                bad(f'C06|{op}|{tclass}|wrong-exc:{type(got).__name__}', f'{fmt}: expected {classes}')
            newpos = pos
        key = (op, style, tuple(sorted({t['kind'] for t in toks})), mr[0])
    elif op == 'setpos':
        attr, v = st[1], st[2]
        kind, got = call(lambda: setattr(s, attr, v))
        ctx.op(op, 'ok' if kind == 'ok' else type(got).__name__)
        if 0 <= v <= L:
            if kind != 'ok':
                bad(f'C06|setpos|valid|unexpected-exc:{type(got).__name__}')
            newpos = v
        elif kind == 'ok':
            bad('C06|setpos|invalid|no-raise', f'{attr}={v} len={L}')
        elif not exc_matches(got, 'ValueError'):
            bad(f'C06|setpos|invalid|wrong-exc:{type(got).__name__}')
        key = (op, attr, 'in' if 0 <= v <= L else 'out')
    elif op == 'getpos':
        got = call(lambda: (s.pos, s.bitpos))
        ctx.op(op)
        if got != ('ok', (pos, pos)):
            bad('C06|getpos|any|value', f'{got} expected {pos}')
        key = (op,)
    elif op == 'bytepos_get':
        kind, got = call(lambda: s.bytepos)
        ctx.op(op, 'ok' if kind == 'ok' else type(got).__name__)
        if pos % 8 == 0:
            if (kind, got) != ('ok', pos // 8):
                bad('C06|bytepos_get|aligned|value', f'{got!r}')
        elif kind == 'ok' or not exc_matches(got, 'ByteAlignError'):
            bad('C06|bytepos_get|unaligned|no-ByteAlignError', f'{got!r}')
        key = (op, pos % 8 == 0)
    elif op == 'bytepos_set':
        v = st[1]
        kind, got = call(lambda: setattr(s, 'bytepos', v))
        ctx.op(op, 'ok' if kind == 'ok' else type(got).__name__)
        if 0 <= v * 8 <= L:
            if kind != 'ok':
                bad(f'C06|bytepos_set|valid|unexpected-exc:{type(got).__name__}')
            newpos = v * 8
        elif kind == 'ok':
            bad('C06|bytepos_set|invalid|no-raise', f'{v} len={L}')
        elif not exc_matches(got, 'ValueError'):
            bad(f'C06|bytepos_set|invalid|wrong-exc:{type(got).__name__}')
        key = (op, 0 <= v * 8 <= L)
    elif op == 'bytealign':
        sk = (-pos) % 8
        kind, got = call(lambda: s.bytealign())
        ctx.op(op, 'ok' if kind == 'ok' else type(got).__name__)
        if pos + sk <= L:
            if (kind, got) != ('ok', sk):
                bad('C06|bytealign|room|value', f'{got!r} expected {sk}')
            newpos = pos + sk
        elif kind == 'ok' or not exc_matches(got, 'ValueError'):
            bad('C06|bytealign|past-end|no-ValueError', f'{got!r}')
        key = (op, sk, pos + sk <= L)
    elif op in ('find', 'rfind', 'readto'):
        spec, ba = st[1], st[2]
        p = spec[1]
        eff = bool(bitstring.options.bytealigned) if ba is None else bool(ba)
        P = util.build_operand(spec)
        if op == 'readto':
            kind, got = call(lambda: s.readto(P, bytealigned=ba))
            ctx.op(op, 'ok' if kind == 'ok' else type(got).__name__)
            if not p:
                if kind == 'ok' or not exc_matches(got, 'ValueError'):
                    bad('C06|readto|empty-pattern|no-ValueError', f'{got!r:.60}')
            else:
                o = M.occ(m, p, pos, L, eff)
                if o:
                    e = m[pos:o[0] + len(p)]
                    if kind != 'ok' or B(got) != e:
                        bad('C06|readto|hit|value', f'{got!r:.60} expected {e[:60]}')
                    elif got.pos != 0 or type(got) is not type(s):
                        bad('C06|readto|hit|result-stream-pos-or-class', f'{got.pos} {type(got).__name__}')
                    newpos = o[0] + len(p)
                elif kind == 'ok' or not exc_matches(got, 'ReadError'):
                    bad('C06|readto|miss|no-ReadError', f'{got!r:.60}')
            key = (op, bool(p) and bool(M.occ(m, p, pos, L, eff)) if p else 'empty', eff)
        else:
            kind, got = call(lambda: getattr(s, op)(P, bytealigned=ba))
            ctx.op(op, 'ok' if kind == 'ok' else type(got).__name__)
            if not p:
                if kind == 'ok' or not exc_matches(got, 'ValueError'):
                    bad(f'C06|{op}|empty-pattern|no-ValueError')
            else:
                o = M.occ(m, p, 0, L, eff)
                e = ((o[0] if op == 'find' else o[-1]),) if o else ()
                if (kind, got) != ('ok', e):
                    bad(f'C06|{op}|pattern|value', f'{got!r} expected {e}')
                newpos = e[0] if e else pos
            key = (op, 'hit' if newpos != pos else 'miss-or-same', eff)
    elif op == 'derive':
        ctx.op(op)
        outs = [('slice', lambda: s[1:]), ('fullslice', lambda: s[:]), ('stepslice', lambda: s[::2]), ('add', lambda: s + s),
                ('add-str', lambda: s + '0b1'), ('radd', lambda: '0b1' + s), ('mul', lambda: s * 2), ('copy.copy', lambda: copy.copy(s)),
                ('cut', lambda: next(iter(s.cut(3)), None)), ('split', lambda: next(iter(s.split('0b11')), None)),
                ('join', lambda: s.join(['0b1', '0b0'])), ('unpack-bits', lambda: s.unpack('bits')[0]),
                # operands and factors that make the result equal to the receiver (or empty): still a new stream at pos 0, receiver untouched
                ('add-empty-str', lambda: s + ''), ('add-empty-bits', lambda: s + Bits()), ('add-empty-list', lambda: s + []), ('add-empty-bytes', lambda: s + b''),
                ('add-empty-stream', lambda: s + type(s)()), ('radd-empty', lambda: '' + s), ('radd-empty-list', lambda: [] + s), ('mul1', lambda: s * 1), ('rmul1', lambda: 1 * s),
                ('mul0', lambda: s * 0), ('slice-none', lambda: s[L:]), ('slice-neg-step', lambda: s[::-1]), ('copy()', lambda: s.copy()),
                ('join-one', lambda: type(s)().join([s])), ('cut-all', lambda: next(iter(s.cut(max(L, 1))), None)),
                ('split-nohit', lambda: next(iter(s.split('0x' + 'f0e1d2c3b4a59687' * 3)), None)),
                # a stream made FROM this one is a new stream at 0; making it does not touch this one
                ('ctor-same-class', lambda: type(s)(s)), ('ctor-ConstBitStream', lambda: ConstBitStream(s)), ('ctor-BitStream', lambda: BitStream(s)),
                ('ctor-bits-keyword', lambda: type(s)(bits=s)), ('fromstring-of-str', lambda: type(s).fromstring(str(s) if L <= 64 else '0b1'))]
        if L:
            outs += [('lshift0', lambda: s << 0), ('rshift0', lambda: s >> 0), ('lshift-all', lambda: s << L), ('and-ones', lambda: s & ('0b' + '1' * L)),
                     ('or-zeros', lambda: s | Bits(L)), ('xor-zeros', lambda: s ^ Bits(L))]
            outs += [('invert', lambda: ~s), ('lshift', lambda: s << 1), ('rshift', lambda: s >> 1), ('and-other', lambda: s & mk(Bits, m)),
                     ('or-other', lambda: s | mk(Bits, m)), ('xor', lambda: s ^ s), ('and-self', lambda: s & s), ('or-self', lambda: s | s)]
        for name, f in outs:
            k2, o = call(f)
            if k2 != 'ok':
                bad(f'C06|derive|{name}|unexpected-exc:{type(o).__name__}')
                continue
            if o is s:
                if s.pos != pos:
                    bad(f'C06|derive|{name}|returned-receiver-and-moved-its-pos', f'{pos} -> {s.pos}')
                    pos_fix = s.pos
                    newpos = pos_fix
                    pos = pos_fix
                continue
            if isinstance(o, ConstBitStream):
                if o.pos != 0:
                    bad(f'C06|derive|{name}|new-stream-pos-nonzero', f'{o.pos}')
                else:
                    ctx.ok(('derive', name, cname), L > 0)
            if s.pos != pos:
                bad(f'C06|derive|{name}|receiver-pos-moved', f'{pos} -> {s.pos}')
                pos = newpos = s.pos
        # ... and with pos= the new stream is at that position, this one still where it was
        for name, f, want in (('ctor-same-class-pos', lambda: type(s)(s, pos=min(1, L)), min(1, L)), ('ctor-same-class-pos-end', lambda: type(s)(s, pos=L), L)):
            k2, o = call(f)
            if k2 != 'ok':
                bad(f'C06|derive|{name}|unexpected-exc:{type(o).__name__}')
            elif o is s and pos != want:
                bad(f'C06|derive|{name}|returned-receiver', f'receiver pos {pos} -> {s.pos}')
                pos = newpos = s.pos
            elif o.pos != want:
                bad(f'C06|derive|{name}|new-stream-pos', f'{o.pos} != {want}')
            elif s.pos != pos:
                bad(f'C06|derive|{name}|receiver-pos-moved', f'{pos} -> {s.pos}')
                pos = newpos = s.pos
            else:
                ctx.ok(('derive', name, cname), L > 0)
        kind_copy, o = call(lambda: s.copy())
        if kind_copy == 'ok' and o is not s and isinstance(o, ConstBitStream) and o.pos != 0:
            bad('C06|derive|copy()|new-stream-pos-nonzero', f'{o.pos}')
        key = (op, cname)
    elif op == 'twin':
        ctx.op(op)
        tp = st[1] if st[1] <= L else L
        t = type(s)(bin=m, pos=tp) if m else type(s)()
        obs = [('eq', lambda x, y: (x == y, y == x, x != y), None)]
        got = call(lambda: (s == t, t == s, s != t))
        if got != ('ok', (True, True, False)):
            bad('C06|twin|eq|depends-on-pos', f'{got!r}')
        if cname == 'ConstBitStream' and hash(s) != hash(t):
            bad('C06|twin|hash|depends-on-pos')
        battery = [('bin', lambda x: B(x)), ('len', len), ('tobytes', lambda x: x.tobytes()), ('count', lambda x: x.count(1)),
                   ('slice', lambda x: B(x[1:7])), ('startswith', lambda x: x.startswith('0b1')), ('add', lambda x: B(x + '0b1')),
                   ('unpack', lambda x: [B(v) for v in x.unpack('bits')]), ('str', str), ('any', lambda x: x.any(1)),
                   ('findall', lambda x: list(x.findall('0b1', count=3)))]
        if L:
            battery += [('uint', lambda x: x.uint), ('invert', lambda x: B(~x)), ('index', lambda x: x[0])]
        for name, f in battery:
            a1, a2 = call(lambda: f(s)), call(lambda: f(t))
            if a1[0] != 'ok' or a1 != a2:
                bad(f'C06|twin|{name}|depends-on-pos', f'{a1!r:.60} vs {a2!r:.60}')
            else:
                ctx.ok(('twin', name), L > 0)
        if s.pos != pos or t.pos != tp:
            bad('C06|twin|battery|pos-moved', f'{pos}->{s.pos} {tp}->{t.pos}')
            pos = newpos = s.pos
        key = (op, cname)
    elif op == 'mutate':
        mop, a = st[1], st[2]
        a2 = list(a)
        if mop in ('insert', 'overwrite') and a2[1] is None:
            a_model = [a2[0], pos]
        else:
            a_model = a2
        ma = _mut.model_args(m, mop, a_model)
        L0 = L
        kind, got = call(lambda: _mut.do(s, mop, a2))
        ctx.op('mutate', 'ok' if kind == 'ok' else type(got).__name__)
        real = B(s)
        allowed, zone = expected_pos_after_mutator(mop, a2, ma, pos, L0, len(real), kind == 'ok')
        if mop in ('insert', 'overwrite') and kind == 'ok' and ma[0]:
            # position argument validity is C03's business; here only the rule "just after the written bits"
            pass
        if zone:
            ctx.tolerate(zone)
        sp = s.pos
        if not 0 <= sp <= len(real):
            bad(f'C06|mutate:{mop}|{"ok" if kind == "ok" else "raised"}|pos-out-of-range', f'pos={sp} len={len(real)}')
        elif sp not in allowed:
            bad(f'C06|mutate:{mop}|{"ok" if kind == "ok" else "raised"}|pos-rule', f'pos={sp} allowed={sorted(allowed)} (old pos {pos}, len {L0}->{len(real)})')
        m = real
        newpos = sp if 0 <= sp <= len(real) else 0
        if not 0 <= sp <= len(real):
            s.pos = 0
        key = ('mutate', mop, kind == 'ok', zone)
        if mech:
            ctx.mismatch(mech, case, detail)
        else:
            ctx.ok(key, L > 0)
        return m, newpos
    elif op == 'propassign':
        name, n, v = st[1], st[2], st[3]
        if isinstance(v, dict):
            v = bytes.fromhex(v['hex'])
        attr = name if n is None else f'{name}{n}'
        kind, got = call(lambda: setattr(s, attr, v))
        ctx.op('propassign', 'ok' if kind == 'ok' else type(got).__name__)
        real = B(s)
        sp = s.pos
        if len(real) != L:
            ctx.tolerate('T10')
        if not 0 <= sp <= len(real):
            bad(f'C06|propassign|{"ok" if kind == "ok" else "raised"}|pos-out-of-range', f'{attr}={v!r:.30}: pos={sp} len={len(real)}')
            s.pos = 0
            sp = 0
        elif sp not in ((pos, 0) if len(real) != L else (pos,)):
            bad('C06|propassign|any|pos-rule', f'pos={sp} old={pos} (len {L}->{len(real)})')
        m = real
        if mech:
            ctx.mismatch(mech, case, detail)
        else:
            ctx.ok(('propassign', name, n is None, kind == 'ok'), L > 0)
        return m, sp
    else:
        raise KeyError(op)

    # common epilogue for non-mutating steps: content unchanged, pos as the model says, pos valid
    real = B(s)
    if real != m:
        bad(f'C06|{op}|any|content-changed', f'{m[:60]} -> {real[:60]}')
        m = real
    sp = s.pos
    if not 0 <= sp <= len(real):
        bad(f'C06|{op}|any|pos-out-of-range', f'pos={sp} len={len(real)}')
        s.pos = 0
        sp = 0
    elif sp != newpos:
        sub = ''
        if op in ('read', 'peek'):
            sub = st[1]['kind']
            if st[1]['kind'] == 'count' and st[1]['n'] < 0:
                sub = 'negative-count'
        if op in ('readlist', 'peeklist') and any(t['kind'] == 'count' and t['n'] < 0 for t in st[1]):
            sub = 'negative-count'
        bad(f'C06|{op}|{sub or "any"}|pos', f'pos={sp} expected {newpos} (was {pos}, len {L})')
    if mech:
        ctx.mismatch(mech, case, detail)
    else:
        ctx.ok(key, L > 0)
    return m, sp


DIRECTED = [
    ('BitStream', '0' * 16, 16, [['propassign', 'uint', 8, 3]]),                                    # D(i)
    ('BitStream', '0' * 16, 8, [['propassign', 'uint', 8, 3]]),
    ('ConstBitStream', '1' * 16, 4, [['readlist', [{'kind': 'count', 'name': 'bits', 'n': -1, 'fmt': -1}], 'list']]),  # D(ii)
    ('ConstBitStream', '1' * 16, 0, [['readlist', [{'kind': 'count', 'name': 'bits', 'n': -1, 'fmt': -1}], 'list']]),
    ('ConstBitStream', '1' * 16, 4, [['read', {'kind': 'count', 'name': 'bits', 'n': -1, 'fmt': -1}]]),
    ('ConstBitStream', '1' * 16, 16, [['read', {'kind': 'single', 'name': 'bool', 'n': 1, 'fmt': 'bool'}]]),           # D(iii)
    ('ConstBitStream', '1' * 16, 9, [['read', {'kind': 'single', 'name': 'bfloat', 'n': 16, 'fmt': 'bfloat'}],
                                     ['peek', {'kind': 'single', 'name': 'p4binary', 'n': 8, 'fmt': 'p4binary'}]]),
    ('ConstBitStream', '1' * 16, 9, [['read', {'kind': 'sized', 'name': 'uint', 'n': 8, 'fmt': 'uint:8'}]]),          # neighbour: ReadError
    ('ConstBitStream', '10' * 8, 5, [['derive']]),                                                                     # D(iv)
    ('BitStream', '10' * 8, 5, [['derive']]),
    ('BitStream', '10' * 8, 5, [['mutate', 'insert', [['str', '111'], None]], ['mutate', 'overwrite', [['str', '0'], None]],
                                ['mutate', 'append', [['str', '1']]], ['mutate', 'prepend', [['str', '1']]],
                                ['mutate', 'delitem', [[0, 3, None]]], ['mutate', 'replace', [['str', '1'], ['str', '00'], None, None, None, None]],
                                ['mutate', 'clear', []]]),
    ('ConstBitStream', '0000010100110', 0, [['read', {'kind': 'variable', 'name': 'ue', 'n': None, 'fmt': 'ue'}],
                                            ['read', {'kind': 'variable', 'name': 'se', 'n': None, 'fmt': 'se'}],
                                            ['read', {'kind': 'variable', 'name': 'ue', 'n': None, 'fmt': 'ue'}]]),
]


def run(ctx):
    if not ctx.quick and ctx.shard == ctx.nshards - 1:
        # extra workload: the repository's own tests as a generator of realistic API events under the sentinels
        from rv.suite_workload import run_suite_under_sentinels
        run_suite_under_sentinels(ctx)
    if ctx.shard == 0:
        for cls, init, pos, steps in DIRECTED:
            ctx.run_case(lambda c, k: episode(c, k), {'cls': cls, 'init': init, 'pos': pos, 'steps': [list(x) for x in steps]})
    # streams longer than 8 KiB / 64 KiB with a whole-byte pattern lying across a block edge, searched byte-aligned from several positions
    # every way a 2- or 3-byte pattern can lie across the edge is enumerated (shared between the shards); random ones follow
    enumerated = [(block, pb, k, earlier) for block in (8192, 65536) for pb in (2, 3) for k in range(1, pb) for earlier in (False, True)]
    for i in range(len(enumerated) + ctx.scale(6, 60) * ctx.nshards):
        if not ctx.mine(i):
            continue
        rng = ctx.rng
        if i < len(enumerated):
            block, pb, k, earlier = enumerated[i]
            pat = '1' + util.rb(rng, 8 * pb - 2) + '1'
            nbytes = block + rng.choice([2, 5, 100])
            at = 8 * (block - k)
            m = '0' * at + pat + '0' * (8 * nbytes - at - len(pat))
            if earlier:
                m = m[:8 * 40] + pat + m[8 * 40 + len(pat):]
            steps = [['find', ['Bits', pat], True], ['readto', ['Bits', pat], True], ['setpos', 'pos', 8 * 41], ['readto', ['str', pat], True],
                     ['setpos', 'pos', at - 8], ['find', ['Bits', pat], True], ['rfind', ['Bits', pat], None], ['setpos', 'pos', 0], ['readto', ['Bits', pat], None]]
            ctx.run_case(lambda c, k_: episode(c, k_), {'cls': util.STREAMS[i % len(util.STREAMS)], 'init': m, 'pos': 0, 'steps': steps})
            continue
        block = rng.choice([8192, 65536])
        pat = '1' + util.rb(rng, 14) + '1' if rng.random() < 0.6 else '1111101011011110' + '00001010'[:8 * rng.randrange(2)]
        nbytes = block + rng.choice([2, 5, 100])
        off = rng.choice([0, 1, 2, len(pat) // 8 - 1])
        at = 8 * (block - 1 - off % max(len(pat) // 8, 1))
        m = '0' * at + pat + '0' * (8 * nbytes - at - len(pat))
        if rng.random() < 0.5:
            m = m[:8 * 40] + pat + m[8 * 40 + len(pat):]          # an earlier occurrence as well
        steps = [['find', ['Bits', pat], True], ['readto', ['Bits', pat], True], ['setpos', 'pos', rng.choice([0, 8, 8 * 41, at - 8])], ['readto', ['str', pat], True],
                 ['rfind', ['Bits', pat], None], ['find', ['Bits', pat], None], ['setpos', 'pos', 0], ['readto', ['Bits', pat], None]]
        ctx.run_case(lambda c, k: episode(c, k), {'cls': rng.choice(util.STREAMS), 'init': m, 'pos': 0, 'steps': steps})
    n = ctx.scale(36000, 600000)
    lengths = [0, 1, 7, 8, 9, 16, 17, 24, 33, 64, 65, 100, 128, 257, 1000]
    for i in range(n):
        L = ctx.rng.choice(lengths)
        m = util.content(ctx.rng, L)
        if ctx.rng.random() < 0.3 and L >= 8:
            # seed with self-delimiting codewords so that variable-length reads succeed often
            m = ''.join(K.GOLOMB_ENC[ctx.rng.choice(['ue', 'se', 'uie', 'sie'])](ctx.rng.randint(0, 40)) for _ in range(8))[:L] + m
            m = m[:L]
        pos = ctx.rng.choice([0, 0, L, ctx.rng.randint(0, L), min(8, L), max(L - 1, 0)])
        case = {'cls': ctx.rng.choice(util.STREAMS), 'init': m, 'pos': pos, 'steps': []}
        if case['cls'] == 'BitStream' and ctx.rng.random() < 0.3:
            case['made'] = ctx.rng.choice(util.MADE_ROUTES)
        ns = ctx.rng.randint(6, 12) if ctx.quick else ctx.rng.randint(6, 40)
        ctx.run_case(lambda c, k: episode(c, k, ns), case)
        if i % 999 == 0:
            ctx.sample({'cls': case['cls'], 'init': m[:48], 'pos': pos, 'steps': case['steps'][:4]})


def replay(ctx, case):
    ctx.run_case(lambda c, k: episode(c, k), case)
