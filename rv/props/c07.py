"""C07 - search, split and count results equal the brute-force definition."""
from __future__ import annotations

import itertools

import bitstring

from rv import util
from rv.model import bits as M
from rv.util import B, CLASSES, build_operand, call, exc_matches, mk, norm_window, rb

PROP = 'C07'
SHARDS = {'quick': 4, 'thorough': 16}
RULE = ("random cases: class x data kind (random/sparse/periodic/constant, lengths from the boundary pool, "
        "plus 20k-70k bit data) x pattern (absent / planted aligned / planted unaligned / overlapping, "
        "lengths 0..25) x start/end from the position pool x count x bytealigned x options.bytealigned; "
        "each case runs find, rfind, findall, in, startswith, endswith, count, cut, split and replace "
        "against the brute-force scan. key = (method, pattern-length class, alignment, window class, "
        "hit-count class); non-trivial = valid non-empty window and the pattern occurs in the data")
ANCHORS = ['BitStore.find', 'BitStore.rfind', 'BitStore.findall_msb0', 'BitStore.rfindall_msb0',
           'Bits.find', 'Bits.rfind', 'Bits.findall', 'Bits.__contains__', 'Bits.cut', 'Bits.split',
           'Bits.startswith', 'Bits.endswith', 'Bits.count', 'BitArray._replace', 'Bits._findall_msb0']
REQUIRED_OPS = ['find', 'rfind', 'findall', 'in', 'startswith', 'endswith', 'count', 'cut', 'split', 'replace', 'lazy-interleaved', 'lazy-partial']
MIN_EVALS = {'quick': 20000, 'thorough': 200000}
ASSUMPTIONS = ['MSB0 mode only (LSB0 search is judged by C12)',
               'Python str.find / slicing is the trusted definition of "occurs at p"']

PAT_LENGTHS = [0, 1, 2, 3, 4, 7, 8, 8, 9, 16, 16, 24, 25]


def gen_case(ctx):
    rng = ctx.rng
    r = rng.random()
    if r < 0.04:
        L = rng.choice([20000, 33000, 70000]) if not ctx.quick else rng.choice([9000, 20000])
    elif r < 0.5:
        L = rng.choice(util.SHORT_LENGTHS)
    else:
        L = rng.choice(util.MID_LENGTHS + [2000, 4097, 8193])
    d = util.content(rng, L)
    pl = rng.choice(PAT_LENGTHS)
    how = rng.random()
    if how < 0.6 and L >= pl > 0:
        i = rng.randrange(0, L - pl + 1)
        if rng.random() < 0.5:
            i -= i % 8
        p = d[i:i + pl]
    elif how < 0.7 and pl > 1:
        p = (rb(rng, rng.choice([1, 2])) * pl)[:pl]       # self-overlapping pattern
    else:
        p = rb(rng, pl)
    def ropt():
        return rng.choice([None, None, None, 0, 1, L, L - 1, L // 2, -1, -L, 8, 16, 7, 9, L + 1, -L - 1,
                           rng.randint(-L - 1, L + 1), 8 * rng.randint(0, L // 8 + 1)])
    return {
        'cls': rng.choice(util.CLASS_NAMES), 'data': d,
        'pat': util.operand_spec(rng, p, ['Bits', 'BitArray', 'ConstBitStream', 'BitStream', 'str', 'str', 'bytes', 'list', 'bitarray']),
        'start': ropt(), 'end': ropt(), 'count': rng.choice([None, None, 0, 1, 2, 5, -1, 3, 2 ** 31, 2 ** 63 - 1, 2 ** 63, 2 ** 64, 10 ** 30, True]),
        'ba': rng.choice([None, False, True]), 'oba': rng.choice([False, True]),
        'cutbits': rng.choice([1, 2, 3, 7, 8, 9, 64, L, L + 1, 0, -1]),
        'cntval': rng.choice([0, 1, True, False, 7, '']),
        'new': rb(rng, rng.choice([0, 1, 2, 3, 8, 9])),
        # where the receiver's bits live: in memory, or in a (longer) file of which it is a window
        'via': rng.choice([None, None, None, None, 'file-limited', 'file-offset', 'file-window-aligned', 'slice-of-longer']),
    }


_TMP = []


def receiver_via(cls, d, via):
    """An object of class cls holding the bits d, which are a window of something longer (all-ones junk around it)."""
    import atexit, os, shutil, tempfile
    L = len(d)
    if via == 'slice-of-longer':
        return mk(cls, '1101' + d + '11111111111')[4:4 + L]
    if not _TMP:
        _TMP.append(tempfile.mkdtemp(prefix='rv_c07_'))
        atexit.register(shutil.rmtree, _TMP[0], True)
    pre = {'file-limited': 0, 'file-offset': 11, 'file-window-aligned': 16}[via]
    bits = '1' * pre + d + '1' * (8 - (pre + L) % 8) + '1' * 24
    path = os.path.join(_TMP[0], f'w{os.getpid()}.bin')
    with open(path, 'wb') as f:
        f.write(int(bits, 2).to_bytes(len(bits) // 8, 'big'))
    return cls(filename=path, length=L, offset=pre) if pre else cls(filename=path, length=L)


HIST_OPS = ['iand', 'ior', 'ixor', 'invert', 'reverse', 'set', 'ilshift', 'irshift', 'rol', 'ror', 'append', 'prepend', 'overwrite',
            'setitem_bits', 'setitem_int', 'byteswap', 'imul', 'delitem', 'insert', 'replace', 'clear']


def gen_history_case(ctx):
    """The object searched is not fresh: it has been searched and changed in place before (data = content after the history)."""
    from rv.props import _mut
    rng = ctx.rng
    c = gen_case(ctx)
    c['cls'] = rng.choice(util.MUTABLE)
    m = c['data'] if len(c['data']) <= 4200 else c['data'][:4200]
    c['data0'] = m
    hist = []
    with util.options(bytealigned=c['oba'], lsb0=False):
        for _ in range(rng.choice([1, 1, 2, 3])):
            op, a = _mut.gen_step(rng, len(m), HIST_OPS, max_len=6000)
            if _mut.uses_self(a) or _mut.uses_failing(a):
                continue
            try:
                m, _r = M.apply(m, op, _mut.model_args(m, op, a))
            except M.Expect:
                continue                    # a step the model expects to raise (or that sits in a tolerance zone) is not part of a history
            hist.append([op, a])
    c['history'] = hist
    c['data'] = m
    L = len(m)
    pl = rng.choice([8, 8, 16, 24, 3, 9])
    if L >= pl and rng.random() < 0.8:
        i = rng.randrange(0, L - pl + 1)
        if rng.random() < 0.6:
            i -= i % 8
        c['pat'] = util.operand_spec(rng, m[i:i + pl], ['Bits', 'BitArray', 'str', 'bytes', 'bitarray'])
    return c


def gen_huge_case(ctx):
    """Data beyond 64 KiB (and beyond 8 KiB) with whole-byte patterns planted across the multiples of 8192 and 65536 BYTES counted
    from the start of the search, or uniform data of a few thousand bits searched for a piece of itself / for all of itself."""
    rng = ctx.rng
    r = rng.random()
    if r < 0.35:
        # special shapes: one repeated bit (a few exceptions), and the pattern is a run of that bit, or the whole data
        L = rng.choice([4096, 4097, 4104, 5000, 8192, 12000])
        bit = rng.choice('01')
        d = [bit] * L
        for _ in range(rng.choice([0, 0, 1, 2])):
            d[rng.randrange(L)] = '1' if bit == '0' else '0'
        d = ''.join(d)
        p = rng.choice([bit, bit * 8, bit * 16, bit * 9, d, d[:-1], d[1:], bit * (L - 8)])
        return {'cls': rng.choice(util.CLASS_NAMES), 'data': d, 'pat': ['Bits', p], 'start': rng.choice([None, None, 0, 8]), 'end': rng.choice([None, None, L, L - 8]),
                'count': rng.choice([None, 1, 3]), 'ba': rng.choice([None, False, True]), 'oba': False, 'cutbits': rng.choice([4096, 1000]), 'cntval': int(bit), 'new': '0'}
    block = rng.choice([8192, 65536])                      # bytes
    nblocks = rng.choice([1, 1, 2])
    nbytes = block * nblocks + rng.choice([1, 2, 3, 17, 300])
    L = 8 * nbytes + rng.choice([0, 0, 0, 3])
    pl = 8 * rng.choice([2, 2, 3, 4])
    p = '1' + rb(rng, pl - 2) + '1'
    if rng.random() < 0.3:
        p = rng.choice(['0100000001111111', '1010101110101011', '00001101' + '00001010'])     # 0x017f-like, periodic, CR LF
        pl = len(p)
    st = rng.choice([None, None, 0, 8, 24, 8 * 100])
    s0 = st or 0
    d = ['0'] * L
    spots = []
    for k in range(1, nblocks + 1):
        edge = s0 + 8 * block * k
        spots += [edge - 8 * j for j in range(0, pl // 8 + 1)] + [edge + 8, edge - pl - 8]
    spots += [s0, s0 + 8 * 5, L - L % 8 - pl]
    spots = [x for x in spots if 0 <= x <= L - pl]
    for pos in rng.sample(spots, min(len(spots), rng.choice([1, 2, 3]))):
        d[pos:pos + pl] = list(p)
    return {'cls': rng.choice(util.CLASS_NAMES), 'data': ''.join(d), 'pat': util.operand_spec(rng, p, ['Bits', 'BitArray', 'str', 'bytes']),
            'start': st, 'end': rng.choice([None, None, None, L - 8]), 'count': rng.choice([None, None, 2]),
            'ba': rng.choice([True, True, None, False]), 'oba': rng.choice([False, True]), 'cutbits': 8 * block, 'cntval': 1, 'new': rb(rng, rng.choice([0, 8, 16]))}


def gen_long_case(ctx):
    """Long, almost empty data with the pattern planted next to the places where a chunked or byte-windowed search
    changes regime: multiples of 8192 bits counted from either end of the data or of the window, byte boundaries."""
    rng = ctx.rng
    L = rng.choice([8193, 8200, 8235, 9000, 16384, 16390, 16500, 20011, 24600]) + rng.choice([0, 0, 1, 3, 5, 8])
    pl = rng.choice([8, 8, 16, 9, 12, 3, 24, 17])
    p = '1' + rb(rng, pl - 2) + '1' if pl > 1 else '1'
    st = rng.choice([None, None, 0, 3, 8, 13, 8192, 8195])
    en = rng.choice([None, None, L, L - 3, L - 8, L - 11, 16384, 8192 + 43, L - 8192])
    w = norm_window(st, en, L) or (0, L)
    fill = rng.choice(['0', '0', '0', '1']) if '0' in p else '0'
    d = [fill] * L
    edges = set()
    for base in (0, L, w[0], w[1]):
        for k in (-2, -1, 0, 1, 2):
            edges.add(base + k * 8192)
            edges.add(8 * ((base + k * 8192) // 8))
    cands = [e + dlt for e in edges for dlt in (-pl - 8, -pl - 1, -pl, -pl + 1, -9, -8, -7, -1, 0, 1, 7, 8, 9)]
    cands = [c for c in cands if 0 <= c <= L - pl]
    for pos in rng.sample(cands, min(len(cands), rng.choice([1, 1, 2, 3]))) if cands else []:
        if rng.random() < 0.6:
            pos -= pos % 8
        d[pos:pos + pl] = list(p)
    return {
        'cls': rng.choice(util.CLASS_NAMES), 'data': ''.join(d),
        'pat': util.operand_spec(rng, p, ['Bits', 'BitArray', 'str', 'bitarray']),
        'start': st, 'end': en, 'count': rng.choice([None, None, 1, 2]),
        'ba': rng.choice([None, False, True, True]), 'oba': rng.choice([False, True]),
        'cutbits': rng.choice([4096, 8192, 8193, 1000]), 'cntval': 1, 'new': rb(rng, rng.choice([0, 1, 8])),
    }


def _shape(got, exp_kind, exp_classes=None):
    kind, val = got
    if exp_kind == 'exc':
        if kind == 'ok':
            return 'no-raise'
        return 'wrong-exc:' + type(val).__name__
    if kind == 'exc':
        return 'unexpected-exc:' + type(val).__name__
    return 'value'


def short(case):
    c = dict(case)
    if len(c.get('data', '')) > 200:
        c['data'] = c['data'][:64] + f'...({len(case["data"])} bits)'
    return c


def judge(ctx, c):
    d, L = c['data'], len(c['data'])
    p = c['pat'][1]
    st, en, cnt, ba, oba = c['start'], c['end'], c['count'], c['ba'], c['oba']
    eff = oba if ba is None else ba
    w = norm_window(st, en, L)
    cls = CLASSES[c['cls']]
    pclass = 'empty-pattern' if not p else ('invalid-window' if w is None else 'valid')
    plc = 'p0' if not p else ('p%8=0' if len(p) % 8 == 0 else 'p<8' if len(p) < 8 else 'p>8')
    wclass = 'bad' if w is None else 'full' if (w == (0, L)) else 'empty' if w[0] == w[1] else 'part'
    allocc = M.occ(d, p, 0, L, False) if p else []
    nontrivial = bool(p) and w is not None and w[0] < w[1] and bool(allocc)

    def P():
        return build_operand(c['pat'])

    def check(method, got, exp, inputclass=pclass, hits=None):
        """exp = ('ok', value) | ('exc', classes)"""
        ctx.op(method, 'ok' if got[0] == 'ok' else type(got[1]).__name__)
        good = (got[0] == 'ok' and exp[0] == 'ok' and got[1] == exp[1]) or \
               (got[0] == 'exc' and exp[0] == 'exc' and exc_matches(got[1], exp[1]))
        if good:
            hc = 'h?' if hits is None else ('h0' if hits == 0 else 'h1' if hits == 1 else 'h>1')
            ctx.ok((method, plc, eff, wclass, hc, c['cls'] if method in ('find', 'rfind') else ''), nontrivial)
        else:
            gv = got[1] if got[0] == 'ok' else type(got[1]).__name__
            ctx.mismatch(f'C07|{method}|{inputclass}|{_shape(got, exp[0])}', c,
                         f'{method}: got {got[0]}:{str(gv)[:120]} expected {exp[0]}:{str(exp[1])[:120]}')

    with util.options(bytealigned=oba, lsb0=False):
        if c.get('history') is not None:
            from rv.props import _mut
            s = mk(cls, c['data0'])
            for op_, a_ in c['history']:
                # searches before every change (whatever a search may remember about the object must not outlive the change)
                call(lambda: (s.find(P(), bytealigned=True), list(s.findall(P(), bytealigned=True)), s.rfind(P()), list(s.split(P(), bytealigned=True))))
                call(lambda: _mut.do(s, op_, list(a_)))
                ctx.op('history-step:' + op_)
            if B(s) != d:
                ctx.mismatch('C07|history|content-after-mutators|differs-from-model', c, f'{B(s)[:80]} vs {d[:80]}')
                return
        elif c.get('via'):
            s = receiver_via(cls, d, c['via'])
            ctx.op('receiver:' + c['via'])
            if B(s) != d:
                ctx.mismatch('C07|receiver|' + c['via'] + '|content', c, f'{B(s)[:80]} vs {d[:80]}')
                return
        else:
            s = mk(cls, d)
        # the windowed occurrences
        o = M.occ(d, p, w[0], w[1], eff) if (p and w is not None) else None
        if o is not None and L <= 300:
            assert o == M.occ_quadratic(d, p, w[0], w[1], eff)
        for name in ('find', 'rfind'):
            got = call(lambda: getattr(s, name)(P(), st, en, ba))
            if not p or w is None:
                exp = ('exc', 'ValueError')
            else:
                exp = ('ok', ((o[0] if name == 'find' else o[-1]),) if o else ())
            check(name, got, exp, hits=len(o) if o is not None else None)
        # findall
        got = call(lambda: list(s.findall(P(), st, en, cnt, ba)))
        if not p or w is None or (cnt is not None and cnt < 0):
            exp = ('exc', 'ValueError')
            ic = pclass if (not p or w is None) else 'negative-count'
        else:
            exp = ('ok', o if cnt is None else o[:cnt])
            ic = pclass
        check('findall', got, exp, ic, hits=len(o) if o is not None else None)
        # in
        got = call(lambda: P() in s)
        exp = ('exc', 'ValueError') if not p else ('ok', bool(allocc))
        check('in', got, exp, 'empty-pattern' if not p else 'valid', hits=len(allocc))
        # startswith / endswith
        got = call(lambda: s.startswith(P(), st, en))
        exp = ('exc', 'ValueError') if w is None else ('ok', w[0] + len(p) <= w[1] and d[w[0]:w[0] + len(p)] == p)
        check('startswith', got, exp, 'invalid-window' if w is None else 'valid')
        got = call(lambda: s.endswith(P(), st, en))
        exp = ('exc', 'ValueError') if w is None else ('ok', w[0] + len(p) <= w[1] and d[w[1] - len(p):w[1]] == p)
        check('endswith', got, exp, 'invalid-window' if w is None else 'valid')
        # count
        v = c['cntval']
        got = call(lambda: s.count(v))
        check('count', got, ('ok', d.count('1' if v else '0')), 'valid')
        # cut
        bits = c['cutbits']
        got = call(lambda: [B(x) for x in s.cut(bits, st, en, cnt)])
        if w is None or bits <= 0 or (cnt is not None and cnt < 0):
            exp = ('exc', 'ValueError')
            ic = 'invalid-args'
        else:
            exp = ('ok', M.cut_model(d, bits, w[0], w[1], cnt))
            ic = 'valid'
        check('cut', got, exp, ic)
        if got[0] == 'ok' and exp[0] == 'ok':
            # class of the pieces is the class of the receiver
            pieces = list(itertools.islice(s.cut(bits, st, en, cnt), 3))
            if any(type(x) is not cls for x in pieces):
                ctx.mismatch('C07|cut|valid|piece-class', c, 'piece of wrong class')
        # split
        got = call(lambda: [B(x) for x in s.split(P(), st, en, cnt, ba)])
        if not p or w is None or (cnt is not None and cnt < 0):
            exp = ('exc', 'ValueError')
            ic = pclass if (not p or w is None) else 'negative-count'
        else:
            exp = ('ok', M.split_model(d, p, w[0], w[1], eff, cnt))
            ic = pclass
        check('split', got, exp, ic, hits=len(o) if o is not None else None)
        # the generators are lazy: three of them over the same object advanced in turn, and one that is only partly consumed before
        # another search is made, must yield what their list forms yield
        if p and w is not None and bits > 0 and not (cnt is not None and cnt < 0):
            def interleaved():
                g1, g2, g3 = s.findall(P(), st, en, cnt, ba), s.split(P(), st, en, cnt, ba), s.cut(bits, st, en, cnt)
                o1, o2, o3 = [], [], []
                live = [(g1, o1), (g2, o2), (g3, o3)]
                while live:
                    for g, out in list(live):
                        try:
                            x = next(g)
                            out.append(B(x) if isinstance(x, bitstring.Bits) else x)
                        except StopIteration:
                            live.remove((g, out))
                return o1, o2, o3
            got = call(interleaved)
            exp = ('ok', (o if cnt is None else o[:cnt], M.split_model(d, p, w[0], w[1], eff, cnt), M.cut_model(d, bits, w[0], w[1], cnt)))
            check('lazy-interleaved', got, exp, 'valid', hits=len(o))

            def partial():
                g = s.findall(P(), st, en, None, ba)
                first = list(itertools.islice(g, 1))
                other = s.find(P(), st, en, ba), s.rfind(P(), st, en, ba), P() in s     # searches made while g is suspended
                return first + list(g), other
            got = call(partial)
            check('lazy-partial', got, ('ok', (o, (((o[0],) if o else ()), ((o[-1],) if o else ()), bool(allocc)))), 'valid', hits=len(o))
        # replace: match selection (mutable classes only)
        if c['cls'] in util.MUTABLE:
            t = mk(cls, d)
            new = c['new']
            got = call(lambda: (t.replace(P(), mk('Bits', new), st, en, cnt, ba), B(t)))
            try:
                nm, ret = M.apply(d, 'replace', (p, new, st, en, cnt, eff))
                exp = ('ok', (ret, nm))
                ic = pclass
            except M.Expect as ex:
                if ex.alt is not None:
                    ctx.tolerate(ex.zone)
                    if got[0] == 'ok' and got[1] == (ex.alt[1], ex.alt[0]):
                        exp = ('ok', got[1])
                    else:
                        exp = ('exc', ex.classes)
                else:
                    exp = ('exc', ex.classes)
                ic = pclass if pclass != 'valid' else 'tolerance-' + str(ex.zone)
            check('replace', got, exp, ic, hits=len(o) if o is not None else None)
            if got[0] == 'exc' and B(t) != d:
                ctx.mismatch(f'C07|replace|{ic}|content-changed-after-raise', c, '')
    ctx.state(c['cls'], L, len(p), wclass, eff)


def directed(ctx):
    """Hand-aimed shapes that every run must see (incl. the reproducer of each known finding)."""
    cases = []
    base = {'cls': 'Bits', 'start': None, 'end': None, 'count': None, 'ba': None, 'oba': False,
            'cutbits': 8, 'cntval': 1, 'new': '1'}
    for cls in util.CLASS_NAMES:
        cases.append(dict(base, cls=cls, data='00010011' * 3, pat=['str', '']))               # empty pattern
        cases.append(dict(base, cls=cls, data='0' * 7 + '11111111' + '0' * 9 + '11111111', pat=['Bits', '11111111'], ba=True))
        cases.append(dict(base, cls=cls, data='1' * 40, pat=['str', '11111111'], ba=True))    # overlapping aligned
        cases.append(dict(base, cls=cls, data='1' * 40, pat=['str', '1' * 16], oba=True, start=3, end=37))
        cases.append(dict(base, cls=cls, data='10' * 50, pat=['Bits', '1010'], start=-99, end=-1, count=2))
        cases.append(dict(base, cls=cls, data='', pat=['str', '1']))
        cases.append(dict(base, cls=cls, data='1', pat=['str', '1'], start=1, end=1))
    for c in cases:
        ctx.run_case(judge, c)


def run(ctx):
    if ctx.shard == 0:
        directed(ctx)
    n = ctx.scale(36000, 600000)
    for i in range(n):
        c = gen_long_case(ctx) if i % 12 == 5 else gen_history_case(ctx) if i % 6 == 1 else gen_case(ctx)
        if i % (900 if ctx.quick else 3000) == 17:
            c = gen_huge_case(ctx)
        ctx.run_case(judge, c)
        if i % 997 == 0:
            ctx.sample(short(c))
    bitstring.options.bytealigned = False


def replay(ctx, case):
    ctx.run_case(judge, case)
