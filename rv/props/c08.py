"""C08 - behaviour depends only on bit content, not on where the bits came from (differential twins)."""
from __future__ import annotations

import array
import atexit
import copy
import io
import os
import shutil
import tempfile

import bitarray
import bitstring
from bitstring import BitArray, Bits, BitStream, ConstBitStream

from rv import util
from rv.util import B, CLASSES, call, mk, rb

AMBIENT = ['bytealigned']      # an option this property does not depend on: a quarter of the cases run with it switched on
PROP = 'C08'
SHARDS = {'quick': 4, 'thorough': 16}
RULE = ("differential twins: an object built through a construction route (bin/hex/oct text, token string first use and "
        "cache hit, bytes / bytearray / memoryview with offset and length, iterable, bitarray (auto and bitarray= with "
        "offset/length), array.array, BytesIO with offset/length, slice or copy of a larger object, operator results, "
        "another class, filename= and file handle with offset in {None, 0, unaligned, aligned} x length in {None, whole, "
        "shorter multiple of 8, shorter non-multiple}) is compared with cls(bin=<same bits>) on a battery of 40 "
        "observations and, for mutable classes, 21 mutators (return value and final content), under msb0 and lsb0; in "
        "msb0 the route's bits are also checked against the intended window. key = (route family, class, observation); "
        "non-trivial = non-empty content")
ANCHORS = ['BitStore.frombuffer', 'BitStore.tobytes', 'BitStore.getslice_msb0', 'BitStore.getslice_withstep_msb0', 'BitStore.__len__',
           'BitStore.__eq__', 'BitStore.count', 'BitStore._copy', 'BitStore.__and__', 'BitStore.__iadd__', 'BitStore.invert_msb0',
           'BitStore.getindex_msb0', 'Bits._setfile', 'Bits._setauto', 'Bits._setbytes_with_truncation', 'Bits._setbitarray',
           'Bits._setauto_no_length_or_offset']
REQUIRED_OPS = ['route:bits-property', 'route:kw-value', 'route:bin-text', 'route:token', 'route:bytes=', 'route:BytesIO', 'route:bitarray=', 'route:file', 'route:filehandle',
                'route:slice', 'route:iterable', 'route:auto-bytes', 'route:array', 'route:operator']
MIN_EVALS = {'quick': 20000, 'thorough': 300000}
ASSUMPTIONS = ['which end an offset counts from under lsb0 is not stated by any property and is not judged: under lsb0 the twin is '
               'built from the bits the route-built object itself reports']

_TMP = []


def tmpdir():
    if not _TMP:
        d = tempfile.mkdtemp(prefix='rv_c08_')
        _TMP.append(d)
        atexit.register(shutil.rmtree, d, True)
    return _TMP[0]


def to_bytes(bits):
    pad = (-len(bits)) % 8
    return int(bits + '0' * pad, 2).to_bytes((len(bits) + pad) // 8, 'big') if bits else b''


ROUTE_FAMILIES = ['bin-text', 'token', 'bytes=', 'BytesIO', 'bitarray=', 'file', 'filehandle', 'slice', 'iterable', 'auto-bytes', 'array', 'operator',
                  'bits-property', 'kw-value']


def gen_route(rng, L):
    fam = rng.choice(ROUTE_FAMILIES)
    r = {'family': fam}
    if fam == 'bin-text':
        r['how'] = rng.choice(['bin', 'hex', 'oct', 'bin-ws'])
    elif fam == 'token':
        r['how'] = rng.choice(['first', 'hit', 'hit-other-class', 'fromstring'])
    elif fam in ('bytes=', 'BytesIO', 'bitarray='):
        r['pre'] = rng.choice([0, 0, 3, 8, 13])
        r['post'] = rng.choice([0, 0, 5, 8, 11])
        r['container'] = rng.choice(['bytes', 'bytearray', 'memoryview', 'memoryview-cast']) if fam == 'bytes=' else None
        r['give_length'] = rng.random() < 0.8
        r['give_offset'] = r['pre'] > 0 or rng.random() < 0.5
        if not r['give_length']:
            r['post'] = 0
        if not r['give_offset']:
            r['pre'] = 0
        if fam == 'BytesIO':
            # what happened to the in-memory file before: nothing, partly read, filled by write(), used for another object already
            r['bio'] = rng.choice(['fresh', 'fresh', 'read-before', 'written', 'used-before', 'used-before-windowed'])
    elif fam in ('file', 'filehandle'):
        r['pre'] = rng.choice([0, 0, 0, 3, 8, 16, 21])
        if rng.random() < 0.1:
            r['pre'] = rng.choice([32768, 32768, 32768 + 3, 65536, 32768 - 8])       # whole memory pages before the window
        r['lenmode'] = rng.choice(['none', 'whole', 'shorter'])
        r['post'] = 0 if r['lenmode'] in ('none', 'whole') else rng.choice([3, 8, 13, 24])
        r['give_offset'] = r['pre'] > 0 or rng.random() < 0.5
    elif fam == 'slice':
        r['pre'] = rng.choice([0, 1, 3, 8, 9])
        r['post'] = rng.choice([0, 1, 5, 8])
        r['how'] = rng.choice(['slice', 'ctor-of-slice', 'copy', 'deepcopy-ish', 'cut', 'read', 'deepcopy', 'pickle', 'pickle-of-slice'])
    elif fam == 'iterable':
        r['how'] = rng.choice(['list', 'tuple', 'gen', 'bitarray', 'strings', 'bitarray-little', 'bitarray=little', 'frozenbitarray',
                                'truthy-list', 'truthy-iter', 'truthy-map'])
    elif fam == 'auto-bytes':
        r['how'] = rng.choice(['bytes', 'bytearray', 'memoryview', 'BytesIO'])
    elif fam == 'array':
        r['how'] = rng.choice(['B', 'H'])
    elif fam == 'bits-property':
        r['how'] = rng.choice(['from-token', 'from-Bits', 'from-BitArray', 'from-file-Bits', 'from-ConstBitStream'])
    elif fam == 'kw-value':
        r['how'] = rng.choice(['uint', 'int', 'bytes', 'uintle', 'Dtype-build', 'pack-uint'])
    else:
        r['how'] = rng.choice(['add', 'radd', 'mul', 'join', 'and-ones', 'invert-twice', 'other-class', 'pack-bits', 'shift0',
                               'prepend-str-to-empty', 'append-str-to-empty', 'iadd-str-to-empty', 'insert-str-in-empty', 'setslice-str-in-empty',
                               # objects the library made itself, and objects that got their content after they were made
                               'pack-direct', 'length-only', 'from-BitArray', 'from-BitStream', 'copy-of-mutable', 'prop-bin-assigned', 'prop-uintN-assigned', 'prop-hex-assigned', 'prop-oct-assigned', 'prop-bytes-assigned', 'prop-intN-assigned',
                               'shift-all-then-or', 'mul0-then-iadd', 'stream-after-array-of-same-text', 'cleared-then-iadd'])
    return r


def family_key(r, L, filebits=None):
    """Route class used in mechanism keys (predicates over the route's inputs only)."""
    fam = r['family']
    if fam == 'iterable' and 'little' in str(r.get('how')):
        return 'bitarray-little-endian'
    if fam in ('file', 'filehandle'):
        off = 'offset0' if not r['pre'] else ('offset-aligned' if r['pre'] % 8 == 0 else 'offset-unaligned')
        if r['pre'] >= 32768:
            off += '>=page'
        lm = r['lenmode']
        if lm == 'none':
            ln = 'length-none'
        elif lm == 'whole':
            ln = 'length=rest-of-file'
        else:
            ln = 'length<rest-of-file'
        return f'{fam}&{off}&{ln}'
    return fam


def build(cls, bits, r, files):
    """Return (object, intended bits) for route r; may raise Skip when the route does not apply to this content."""
    L = len(bits)
    fam = r['family']
    how = r.get('how')
    if fam == 'bin-text':
        if how == 'hex':
            if L % 4 or not L:
                raise Skip
            return cls(hex=format(int(bits, 2), f'0{L // 4}x')), bits
        if how == 'oct':
            if L % 3 or not L:
                raise Skip
            return cls(oct=format(int(bits, 2), f'0{L // 3}o')), bits
        if how == 'bin-ws':
            return cls(bin=' '.join(bits[i:i + 5] for i in range(0, L, 5)) + ' ') if L else cls(bin=''), bits
        return (cls(bin='0b' + bits) if L else cls()), bits
    if fam == 'token':
        tok = ('0b' + bits) if L else ''
        if how == 'first':
            for _, c in util.find_caches():
                c.cache_clear()
            return cls(tok), bits
        if how == 'hit':
            cls(tok)
            return cls(tok), bits
        if how == 'hit-other-class':
            BitArray(tok)
            Bits(tok)
            return cls(tok), bits
        return cls.fromstring(tok), bits
    if fam in ('bytes=', 'BytesIO', 'bitarray='):
        pre, post = rb(_RNG[0], r['pre']), rb(_RNG[0], r['post'])
        full = pre + bits + post
        kw = {}
        if r['give_offset']:
            kw['offset'] = len(pre)
        if r['give_length']:
            kw['length'] = L
        if fam == 'bitarray=':
            if not r['give_length'] and post:
                raise Skip
            return cls(bitarray=bitarray.bitarray(full), **kw), bits
        if not r['give_length'] and (len(full) % 8):
            # without a length the object runs to the end of the (zero padded) source
            pad = (-len(full)) % 8
            intended = bits + post + '0' * pad
        else:
            intended = bits if r['give_length'] else bits + post
        by = to_bytes(full)
        if fam == 'bytes=':
            if r['container'] == 'memoryview-cast':
                # a view of the same bytes with 2- or 4-byte items (still a memoryview of bytes)
                cont = memoryview(by)
                cont = cont.cast('I') if len(by) % 4 == 0 and len(by) else cont.cast('H') if len(by) % 2 == 0 and len(by) else cont
            else:
                cont = {'bytes': bytes, 'bytearray': bytearray, 'memoryview': memoryview}[r['container']](by)
            return cls(bytes=cont, **kw), intended
        bio = r.get('bio', 'fresh')
        if bio == 'written':
            f = io.BytesIO()
            f.write(by)
        else:
            f = io.BytesIO(by)
            if bio == 'read-before':
                f.read(len(by) // 2 + 1)
            elif bio == 'used-before':
                Bits(f)
            elif bio == 'used-before-windowed' and len(by):
                Bits(f, offset=1, length=min(8 * len(by) - 1, 5))
        if not kw:
            return cls(f), intended
        return cls(f, **kw), intended
    if fam in ('file', 'filehandle'):
        pre, post = rb(_RNG[0], r['pre']), rb(_RNG[0], r['post'])
        full = pre + bits + post
        pad = (-len(full)) % 8
        by = to_bytes(full)
        if not by:
            raise Skip
        fn = os.path.join(tmpdir(), f'f{len(files)}_{os.getpid()}.bin')
        with open(fn, 'wb') as f:
            f.write(by)
        files.append(fn)
        kw = {}
        if r['give_offset']:
            kw['offset'] = len(pre)
        if r['lenmode'] == 'none':
            intended = bits + post + '0' * pad
        elif r['lenmode'] == 'whole':
            kw['length'] = len(bits) + len(post) + pad
            intended = bits + post + '0' * pad
        else:
            kw['length'] = L
            intended = bits
        if fam == 'file':
            return cls(filename=fn, **kw), intended
        fh = open(fn, 'rb')
        files.append(fh)
        return (cls(fh, **kw) if kw else cls(fh)), intended
    if fam == 'slice':
        pre, post = rb(_RNG[0], r['pre']), rb(_RNG[0], r['post'])
        full = pre + bits + post
        big = mk(cls, full)
        a, z = len(pre), len(pre) + L
        if how == 'slice':
            return big[a:z], bits
        if how == 'ctor-of-slice':
            return cls(mk(Bits, full)[a:z]), bits
        if how == 'copy':
            return copy.copy(mk(cls, bits)), bits
        if how == 'deepcopy-ish':
            return cls(mk(cls, bits)), bits
        if how == 'deepcopy':
            return copy.deepcopy(mk(cls, bits)), bits
        if how == 'pickle':
            import pickle
            return pickle.loads(pickle.dumps(mk(cls, bits))), bits
        if how == 'pickle-of-slice':
            import pickle
            return pickle.loads(pickle.dumps(big[a:z])), bits
        if how == 'cut':
            if not L:
                raise Skip
            return next(big.cut(L, a, z)), bits
        s = ConstBitStream(bin=full) if cls in (Bits, ConstBitStream) else BitStream(bin=full)
        if not full:
            raise Skip
        s.pos = a
        return cls(s.read(L)), bits
    if fam == 'iterable':
        if how == 'list':
            return cls([int(c) for c in bits]), bits
        if how == 'tuple':
            return cls(tuple(c == '1' for c in bits)), bits
        if how == 'gen':
            return cls((c == '1' for c in bits)), bits
        if how == 'bitarray':
            return cls(bitarray.bitarray(bits)), bits
        if how == 'bitarray-little':
            return cls(bitarray.bitarray(bits, endian='little')), bits
        if how == 'bitarray=little':
            return cls(bitarray=bitarray.bitarray('1' + bits, endian='little'), offset=1), bits
        if how == 'frozenbitarray':
            return cls(bitarray.frozenbitarray(bits)), bits
        if how in ('truthy-list', 'truthy-iter', 'truthy-map'):
            # arbitrary objects, each standing for bool(item); as a list, or as an iterator that can be walked once only
            items = util.truthy_items(bits)
            if how == 'truthy-list':
                return cls(items), bits
            return cls(iter(items) if how == 'truthy-iter' else map(lambda x: x, items)), bits
        return cls(['x' if c == '1' else '' for c in bits]), bits
    if fam == 'auto-bytes':
        if L % 8:
            raise Skip
        by = to_bytes(bits)
        src = {'bytes': bytes, 'bytearray': bytearray, 'memoryview': memoryview, 'BytesIO': io.BytesIO}[how](by)
        return cls(src), bits
    if fam == 'array':
        if L % (8 if how == 'B' else 16):
            raise Skip
        by = to_bytes(bits)
        a = array.array(how)
        a.frombytes(by)
        return cls(a), bits
    if fam == 'bits-property':
        if how == 'from-token':
            src = ('0b' + bits) if L else ''
        elif how == 'from-file-Bits':
            if not L or L % 8:
                raise Skip
            fn = os.path.join(tmpdir(), f'p{len(files)}_{os.getpid()}.bin')
            with open(fn, 'wb') as f:
                f.write(to_bytes(bits))
            files.append(fn)
            src = Bits(filename=fn)
        else:
            src = mk({'from-Bits': Bits, 'from-BitArray': BitArray, 'from-ConstBitStream': ConstBitStream}[how], bits)
        if cls in (BitArray, BitStream):
            o = cls()
            o.bits = src
            return o, bits
        return cls(bits=src), bits
    if fam == 'kw-value':
        if not L or L > 300:
            raise Skip
        if how == 'uint':
            return cls(uint=int(bits, 2), length=L), bits
        if how == 'int':
            v = int(bits, 2) - ((1 << L) if bits[0] == '1' else 0)
            return cls(int=v, length=L), bits
        if how == 'bytes':
            if L % 8:
                raise Skip
            return cls(bytes=to_bytes(bits)), bits
        if how == 'uintle':
            if L % 8:
                raise Skip
            return cls(uintle=int.from_bytes(to_bytes(bits), 'little'), length=L), bits
        if how == 'Dtype-build':
            return cls(bitstring.Dtype('uint', L).build(int(bits, 2))), bits
        return cls(bitstring.pack(f'uint:{L}', int(bits, 2))), bits
    # operator results
    if how == 'add':
        return mk(cls, bits[:L // 2]) + mk(cls, bits[L // 2:]), bits
    if how == 'radd':
        return (('0b' + bits[:L // 2]) if L // 2 else '') + mk(cls, bits[L // 2:]), bits
    if how == 'mul':
        if not L or L % 2 or bits[:L // 2] != bits[L // 2:]:
            raise Skip
        return mk(cls, bits[:L // 2]) * 2, bits
    if how == 'join':
        return cls().join([mk(Bits, bits[:L // 3]), mk(BitArray, bits[L // 3:])]), bits
    if how == 'and-ones':
        if not L:
            raise Skip
        return mk(cls, bits) & ('0b' + '1' * L), bits
    if how == 'invert-twice':
        if not L:
            raise Skip
        return ~~mk(cls, bits), bits
    if how == 'other-class':
        return cls(mk(BitStream, bits)), bits
    if how == 'pack-bits':
        return cls(bitstring.pack('bits', mk(Bits, bits))), bits
    if how == 'pack-direct':
        o = bitstring.pack('bits', mk(Bits, bits)) if L % 2 else bitstring.pack(f'bin:{L}', bits) if L else bitstring.pack('')
        return (o if cls is BitStream else cls(o)), bits
    if how == 'length-only':
        if '1' in bits:
            raise Skip
        return cls(length=L) if L % 2 else cls(L), bits
    if how in ('from-BitArray', 'from-BitStream'):
        return cls(mk(BitArray if how == 'from-BitArray' else BitStream, bits)), bits
    if how == 'copy-of-mutable':
        src = mk(cls, bits)
        return (src.copy() if L % 2 else copy.copy(src)), bits
    if how in ('prop-hex-assigned', 'prop-oct-assigned', 'prop-bytes-assigned', 'prop-intN-assigned'):
        if cls.__name__ not in util.MUTABLE or not L:
            raise Skip
        t = cls('0b1')
        if how == 'prop-hex-assigned':
            if L % 4:
                raise Skip
            t.hex = format(int(bits, 2), f'0{L // 4}x')
        elif how == 'prop-oct-assigned':
            if L % 3:
                raise Skip
            t.oct = format(int(bits, 2), f'0{L // 3}o')
        elif how == 'prop-bytes-assigned':
            if L % 8:
                raise Skip
            t.bytes = to_bytes(bits)
        else:
            if L > 64:
                raise Skip
            setattr(t, f'int{L}', int(bits, 2) - ((1 << L) if bits[0] == '1' else 0))
        return t, bits
    if how in ('prop-bin-assigned', 'prop-uintN-assigned', 'shift-all-then-or', 'mul0-then-iadd', 'cleared-then-iadd', 'stream-after-array-of-same-text'):
        if cls.__name__ not in util.MUTABLE:
            raise Skip
        tok = ('0b' + bits) if L else ''
        if how == 'prop-bin-assigned':
            t = cls('0b1')
            t.bin = bits
        elif how == 'prop-uintN-assigned':
            if not 0 < L <= 64:
                raise Skip
            t = cls()
            setattr(t, f'uint{L}', int(bits, 2))
        elif how == 'shift-all-then-or':
            if not L:
                raise Skip
            t = mk(cls, '1' * L)
            t <<= L                       # all zeros, by a whole-length shift
            t |= tok
        elif how == 'mul0-then-iadd':
            t = mk(cls, '101')
            t *= 0
            t += tok
        elif how == 'cleared-then-iadd':
            t = mk(cls, '1101')
            t.clear()
            t += tok
        else:
            BitStream(tok)                # the other mutable class used the same text first
            BitArray(tok)
            t = cls(tok)
        return t, bits
    if how.endswith('-empty'):
        # an empty mutable object that receives the bits as a token string (the parse of that string is shared by every later use of it)
        if cls.__name__ not in util.MUTABLE:
            raise Skip
        tok = ('0b' + bits) if L else ''
        t = cls()
        if how.startswith('prepend'):
            t.prepend(tok)
        elif how.startswith('append'):
            t.append(tok)
        elif how.startswith('iadd'):
            t += tok
        elif how.startswith('insert'):
            t.insert(tok, 0)
        else:
            t[0:0] = tok
        return t, bits
    if not L:
        raise Skip
    return mk(cls, bits) << 0, bits


class Skip(Exception):
    pass


_RNG = [None]


def battery(s, b):
    """Fixed list of observations derived from the content b."""
    L = len(b)
    m = mk(Bits, b)
    pat = b[L // 3:L // 3 + 5]
    P = ('0b' + pat) if pat else None
    obs = {
        'len': lambda: len(s), 'bool': lambda: bool(s), 'bin': lambda: B(s), 'tobytes': lambda: s.tobytes(), 'bytes()': lambda: bytes(s),
        'eq': lambda: (s == m, m == s, s != m), 'eq-self': lambda: s == s, 'hash': lambda: hash(Bits(s)),
        'count': lambda: (s.count(1), s.count(0)), 'all-any': lambda: (s.all(1), s.all(0), s.any(1), s.any(0)),
        'all-pos': lambda: (s.all(1, [0, -1]), s.any(0, [0, L // 2])) if L else None,
        'index': lambda: [call_name(lambda i=i: s[i]) for i in (0, -1, L - 1, L, -L, -L - 1, L // 2)],
        'slices': lambda: [B(s[a:z:st]) for a, z, st in ((1, -1, 1), (None, None, 3), (2, None, None), (-5, None, 2), (0, L, None), (None, 3, None))],
        'neg-slices': lambda: [B(s[a:z:st]) for a, z, st in ((None, None, -1), (L, 0, -2), (-1, None, -3))],
        'iter': lambda: list(s), 'find': lambda: (s.find(P), s.rfind(P)) if P else None, 'findall': lambda: list(s.findall('0b1', count=5)),
        'findall-pat': lambda: list(s.findall(P)) if P else None, 'in': lambda: (P in s) if P else None,
        'startswith': lambda: (s.startswith('0b' + b[:3]), s.endswith('0b' + b[-3:])) if L >= 3 else None,
        'cut': lambda: [B(x) for x in s.cut(7)], 'split': lambda: [B(x) for x in s.split('0b11')],
        'add': lambda: (B(s + '0b1'), B('0b1' + s), B(s + s)), 'mul': lambda: B(s * 2), 'invert': lambda: call_name(lambda: B(~s)),
        'shifts': lambda: call_name(lambda: (B(s << 3), B(s >> 3))), 'shifts0': lambda: call_name(lambda: (B(s << 0), B(s >> 0), B(s << L), B(s >> L), B(s * 1), B(s[:] + ''))), 'bitwise': lambda: call_name(lambda: (B(s & m), B(s | m), B(s ^ m), B(m & s))),
        'join': lambda: B(s.join(['0b1', '0b0', '0b1'])), 'unpack': lambda: call_name(lambda: [x if not isinstance(x, Bits) else B(x) for x in s.unpack('u3, bits')]),
        'tobitarray': lambda: s.tobitarray().to01(), 'uint': lambda: call_name(lambda: s.uint), 'int': lambda: call_name(lambda: s.int),
        'hex': lambda: call_name(lambda: s.hex), 'oct': lambda: call_name(lambda: s.oct), 'bytes': lambda: call_name(lambda: s.bytes),
        'str': lambda: str(s), 'repr-evaluates-to': lambda: _repr_roundtrip(s), 'to-BitArray': lambda: B(BitArray(s)), 'to-ConstBitStream': lambda: B(ConstBitStream(s)), 'to-Bits': lambda: B(Bits(s)),
        'copy': lambda: B(copy.copy(s)), 'copy()': lambda: B(s.copy()), 'uintle': lambda: call_name(lambda: s.uintle), 'float': lambda: call_name(lambda: repr(s.float)),
        'tobitarray-use': lambda: tobitarray_use(s), 'tofile': lambda: tofile_bytes(s), 'readlist': lambda: call_name(lambda: ConstBitStream(s).readlist('bool, bits')[0]) if L else None,
    }
    if L >= 16:
        W = '0b' + b[:16]
        obs['findall-bytealigned'] = lambda: (list(s.findall(W, bytealigned=True)), s.find(W, 8, bytealigned=True), s.rfind(W, bytealigned=True), [len(x) for x in s.split(W, bytealigned=True)][:40])
    if L > 100000:
        # (observations that cost a Python object per bit or per few bits are left to the ordinary sizes)
        for k_ in ('cut', 'split', 'iter', 'neg-slices', 'mul', 'index', 'unpack', 'readlist', 'tobitarray-use', 'findall-pat'):
            obs.pop(k_, None)
    if isinstance(s, ConstBitStream):
        # a stream that is part way through its data, used as an operand: what comes back, and where everybody's position is afterwards
        def with_pos(f):
            def g():
                s.pos = L // 2
                r = f()
                out = (B(r) if isinstance(r, Bits) else r, getattr(r, 'pos', None), s.pos, r is s and L // 2 != 0)
                s.pos = 0
                return out
            return g
        obs.update({'pos:add-empty-str': with_pos(lambda: s + ''), 'pos:add-empty-bits': with_pos(lambda: s + Bits()), 'pos:radd-empty': with_pos(lambda: '' + s),
                    'pos:mul1': with_pos(lambda: s * 1), 'pos:slice-all': with_pos(lambda: s[:]), 'pos:copy()': with_pos(lambda: s.copy()),
                    'pos:and-self': with_pos(lambda: (s & s) if L else None), 'pos:find': with_pos(lambda: s.find('0b1')), 'pos:read': with_pos(lambda: s.read(min(3, L - L // 2))),
                    'pos:to-Bits': with_pos(lambda: Bits(s)), 'pos:join': with_pos(lambda: s.join([s, s]))})
    return {k: call_name(f) for k, f in obs.items()}


def tobitarray_use(s):
    """What a caller does with the returned bitarray: two calls give two objects that can be changed without touching s."""
    ba, ba2 = s.tobitarray(), s.tobitarray()
    ba.append(1)
    ba.invert()
    return ba.to01(), ba2.to01(), ba is ba2, B(s)


def _repr_roundtrip(s):
    """What evaluating repr(s) gives back (content, class) - the text itself may name a file, the value may not differ."""
    if len(s) > 1000:
        return None
    o = eval(repr(s), {'Bits': Bits, 'BitArray': BitArray, 'ConstBitStream': ConstBitStream, 'BitStream': BitStream, '__builtins__': {}})
    return B(o), type(o).__name__, o == s


def tofile_bytes(s):
    f = io.BytesIO()
    s.tofile(f)
    return f.getvalue()


def call_name(f):
    try:
        return ('ok', f())
    except Exception as e:  # noqa: BLE001
        return ('exc', type(e).__name__ if not isinstance(e, ValueError) else 'ValueError')


MUTATORS = {
    'append': lambda s, L, b: s.append('0b101'), 'prepend': lambda s, L, b: s.prepend('0b101'), 'insert': lambda s, L, b: s.insert('0b11', L // 2),
    'overwrite': lambda s, L, b: s.overwrite('0b00', L // 3), 'del': lambda s, L, b: s.__delitem__(slice(1, L // 2)),
    'setslice': lambda s, L, b: s.__setitem__(slice(0, 2), '0b111'), 'setint': lambda s, L, b: s.__setitem__(0, 1),
    'replace': lambda s, L, b: s.replace('0b1', '0b00'), 'reverse': lambda s, L, b: s.reverse(), 'rol': lambda s, L, b: s.rol(3),
    'ror': lambda s, L, b: s.ror(3, 1), 'set': lambda s, L, b: s.set(1, [0, -1]), 'invert': lambda s, L, b: s.invert(), 'byteswap': lambda s, L, b: s.byteswap(),
    'ilshift': lambda s, L, b: s.__ilshift__(2) and None, 'imul': lambda s, L, b: s.__imul__(2) and None, 'ixor': lambda s, L, b: s.__ixor__(mk(Bits, b)) and None,
    'clear': lambda s, L, b: s.clear(), 'iadd': lambda s, L, b: s.__iadd__('0b1') and None, 'uint=': lambda s, L, b: setattr(s, 'uint', 1),
    'set-all': lambda s, L, b: s.set(0),
    # the object, a copy or snapshot of it, and a change of one of the two: what the other holds afterwards is part of the outcome
    'copy-then-change-copy': lambda s, L, b: _and_then(s.copy(), lambda c: (c.invert() if len(c) else None, c.append('0b1'))),
    'copy.copy-then-change-copy': lambda s, L, b: _and_then(copy.copy(s), lambda c: (c.invert() if len(c) else None, c.append('0b1'))),
    'snapshot-then-change': lambda s, L, b: _snapshot_then(s, Bits, lambda: (s.invert() if len(s) else None, s.append('0b1'))),
    'stream-snapshot-then-change': lambda s, L, b: _snapshot_then(s, ConstBitStream, lambda: (s.prepend('0b1'), s.set(1))),
    'operand-snapshot-then-change': lambda s, L, b: _snapshot_then(s, lambda x: Bits('0b1') + x, lambda: (s.invert() if len(s) else None, s.__imul__(2))),
    'replace-by-self': lambda s, L, b: s.replace('0b1', s, count=2),
    'replace-by-copy': lambda s, L, b: s.replace('0b1', s.copy(), count=2),
}


def _and_then(c, change):
    change(c)
    return B(c)


def _snapshot_then(s, snap, change):
    t = snap(s)
    before = B(t)
    change()
    return before, B(t), (hash(t) if type(t) in (Bits, ConstBitStream) else None)


def short(case):
    c = dict(case)
    if len(c['bits']) > 120:
        c['bits'] = c['bits'][:64] + f'...({len(case["bits"])})'
    return c


def judge(ctx, case):
    import random as _random

    def fresh_build():
        _RNG[0] = _random.Random(case['salt'])      # the same pre/post filler bits on every rebuild
        return build(cls, bits, r, files)
    for _, c_ in util.find_caches():
        c_.cache_clear()
    cls = CLASSES[case['cls']]
    bits = case['bits']
    r = case['route']
    lsb0 = case['lsb0']
    files = []
    fk = family_key(r, len(bits))
    mode = 'lsb0' if lsb0 else 'msb0'
    try:
        with util.options(lsb0=lsb0):
            try:
                kind, res = call(fresh_build)
            except Skip:
                return
            if kind == 'exc' and isinstance(res, Skip):
                return
            ctx.op('route:' + r['family'], 'ok' if kind == 'ok' else type(res).__name__)
            if kind != 'ok':
                ctx.mismatch(f'C08|create|route={fk}|{mode}|unexpected-exc:{type(res).__name__}', case, f'{res!s:.120}')
                return
            s, intended = res
            if type(s) is not cls:
                ctx.mismatch(f'C08|create|route={fk}|{mode}|wrong-class', case, type(s).__name__)
                return
            got_bits = call_name(lambda: B(s))
            if got_bits[0] != 'ok':
                ctx.mismatch(f'C08|create|route={fk}|{mode}|bin-unreadable', case, str(got_bits))
                return
            b = got_bits[1]
            if not lsb0 or r['family'] not in ('BytesIO', 'file', 'filehandle', 'slice'):
                # the selected window is unambiguous (under lsb0 only for routes without an offset window)
                if b != intended:
                    ctx.mismatch(f'C08|create|route={fk}|{mode}|window-bits', case, f'got {b[:80]} intended {intended[:80]}')
                    return
            twin = mk(cls, b)
            ref = battery(twin, b)
            got = battery(s, b)
            for k in ref:
                if got[k] == ref[k]:
                    ctx.ok((fk, case['cls'], k, mode), len(b) > 0)
                else:
                    ctx.mismatch(f'C08|obs|route={fk}|differs', case, f'{k} {mode} {case["cls"]}: route {str(got[k])[:90]} twin {str(ref[k])[:90]}')
            if case['cls'] in util.MUTABLE:
                L = len(b)
                for name in case.get('mutators') or list(MUTATORS):
                    f = MUTATORS[name]
                    try:
                        k2, res2 = call(fresh_build)
                    except Skip:
                        break
                    if k2 != 'ok':
                        break
                    o = res2[0]
                    t = mk(cls, b)
                    ro = call_name(lambda: f(o, L, b))
                    rt = call_name(lambda: f(t, L, b))
                    if (ro, B(o)) == (rt, B(t)):
                        ctx.ok((fk, case['cls'], 'mut:' + name, mode), L > 0)
                    else:
                        ctx.mismatch(f'C08|mut|route={fk}|differs', case,
                                     f'{name} {mode} {case["cls"]}: route {ro} {B(o)[:60]} twin {rt} {B(t)[:60]}')
            ctx.state(fk, case['cls'], len(b), mode)
    finally:
        for f in files:
            try:
                if hasattr(f, 'close'):
                    f.close()
                else:
                    os.unlink(f)
            except OSError:
                pass


def gen_case(ctx):
    rng = ctx.rng
    L = rng.choice([0, 1, 5, 8, 9, 16, 24, 33, 64, 100, 128, 257, 2001, 2005] + ([] if ctx.quick else [1000, 4097, 2000, 2003]))
    bits = util.content(rng, L)
    cname = rng.choice(util.CLASS_NAMES)
    muts = rng.sample(list(MUTATORS), 6) if ctx.quick else None
    route = gen_route(rng, L)
    if route.get('pre', 0) >= 32768 and rng.random() < 0.4:
        bits = ''                       # the window starts exactly where the file (or its last page) ends
    return {'cls': cname, 'bits': bits, 'route': route, 'lsb0': rng.random() < 0.3, 'salt': rng.getrandbits(32), 'mutators': muts}


DIRECTED = [
    {'cls': 'Bits', 'bits': '1010011100001111', 'route': {'family': 'file', 'pre': 0, 'lenmode': 'shorter', 'post': 8, 'give_offset': False}, 'lsb0': False, 'salt': 1},
    {'cls': 'BitArray', 'bits': '101001110', 'route': {'family': 'file', 'pre': 0, 'lenmode': 'shorter', 'post': 13, 'give_offset': True}, 'lsb0': False, 'salt': 2},
    {'cls': 'ConstBitStream', 'bits': '1010011100001111', 'route': {'family': 'file', 'pre': 0, 'lenmode': 'whole', 'post': 0, 'give_offset': False}, 'lsb0': False, 'salt': 3},
    {'cls': 'Bits', 'bits': '1010011100001111', 'route': {'family': 'filehandle', 'pre': 0, 'lenmode': 'shorter', 'post': 3, 'give_offset': True}, 'lsb0': False, 'salt': 4},
    {'cls': 'Bits', 'bits': '1010011100001111', 'route': {'family': 'file', 'pre': 0, 'lenmode': 'none', 'post': 0, 'give_offset': False}, 'lsb0': False, 'salt': 5},
    {'cls': 'BitStream', 'bits': '1010011100001111', 'route': {'family': 'file', 'pre': 3, 'lenmode': 'shorter', 'post': 8, 'give_offset': True}, 'lsb0': False, 'salt': 6},
]


def run(ctx):
    if ctx.shard == 0:
        for c in DIRECTED:
            ctx.run_case(judge, dict(c))
    # files longer than 32 / 64 KiB (offsets on page and allocation boundaries, sync words at the start of every 64 KiB block):
    # every class x bit numbering x offset, by name and by handle
    j = 0
    for cname in util.CLASS_NAMES:
        for lsb0 in (False, True):
            for pre in (0, 32768, 65536, 8 * 4096 * 3):
                for fam in (('file', 'filehandle') if not ctx.quick else ('file' if (pre // 8 + lsb0) % 2 else 'filehandle',)):
                    j += 1
                    if not ctx.mine(j):
                        continue
                    rng = ctx.rng
                    block = 65536
                    nbytes = block * rng.choice([1, 2]) + rng.choice([2, 9, 100])
                    sync = '0100011100000000'
                    body = ['0'] * (8 * nbytes)
                    for k in range(0, nbytes - 2, block):
                        body[8 * k:8 * k + 16] = list(sync)
                    if rng.random() < 0.5:
                        body[8 * (block - 1):8 * (block - 1) + 16] = list(sync)          # one lying across the block edge
                    body[-24:-8] = list(sync)
                    bits = ''.join(body)[pre:] if pre else ''.join(body)
                    route = {'family': fam, 'pre': pre, 'lenmode': rng.choice(['none', 'whole', 'none']), 'post': 0, 'give_offset': bool(pre) or rng.random() < 0.5}
                    c = {'cls': cname, 'bits': bits, 'route': route, 'lsb0': lsb0, 'salt': rng.getrandbits(32), 'mutators': rng.sample(list(MUTATORS), 2), 'big': True}
                    ctx.run_case(judge, c)
    n = ctx.scale(12000, 150000)
    for i in range(n):
        c = gen_case(ctx)
        ctx.run_case(judge, c)
        if i % 499 == 0:
            ctx.sample(short(c))
    bitstring.options.lsb0 = False


def replay(ctx, case):
    ctx.run_case(judge, case)
