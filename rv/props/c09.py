"""C09 - construction and parsing are pure: results never depend on call history.

Two-pass history monitor.  Pass W (this process): a long random interleaving of constructions,
format parses, Dtype creations, derivations / mutations of earlier results and option toggles,
every call recorded with the option values in force and its outcome.  Pass C (fresh subprocess):
for every recorded call clear EVERY cache found on the package, set the same options, make only
that call.  Compare call by call."""
from __future__ import annotations

import json
import re
import subprocess
import sys

SENTINELS = True
PROP = 'C09'
SHARDS = {'quick': 4, 'thorough': 16}
RULE = ("warm/cold differential over recorded call histories: ctor-from-string, fromstring, pack, unpack, readlist, "
        "Dtype(token[, length][, scale]), Array(dtype string) with dedicated key streams per LRU cache (> 256 distinct "
        "strings / formats / dtype tokens / invalid struct tokens, revisits of early keys after eviction, equal but "
        "differently spelled keys, option-sensitive keys such as e4m3mxfp=..., ue=...), interleaved with lsb0 / "
        "bytealigned / mxfp_overflow toggles and with mutation of / derivation from earlier results; each call is "
        "re-made on cold caches under the same option values in a fresh interpreter. key = (call kind, key class, "
        "options tuple, first-use / revisit / revisit-after-eviction); non-trivial = revisit of a key or a call made "
        "after an option toggle")
ANCHORS = ['str_to_bitstore', 'tokenparser', 'preprocess_tokens', 'parse_name_length_token', 'parse_single_struct_token',
           'parse_single_token', 'Dtype._new_from_token', 'Dtype._create', 'Options.set_lsb0', 'pack', 'Bits._readlist']
REQUIRED_OPS = ['ctor', 'fromstring', 'ctor-kw', 'prop-assign', 'pack', 'unpack', 'readlist', 'unpack-dtypes', 'combine-mutate', 'dtype-from-dtype', 'dtype', 'array-dtype', 'toggle', 'mutate-earlier', 'print']
MIN_EVALS = {'quick': 2000, 'thorough': 40000}
PINNED_CACHES = ['str_to_bitstore', '_str_to_bitstore', 'tokenparser', 'preprocess_tokens', 'parse_name_length_token',
                 'parse_single_struct_token', 'parse_single_token', '_new_from_token', '_create']
ASSUMPTIONS = ['cold reference = same call in a fresh interpreter after cache_clear() on every cache-like object found by '
               'scanning the package']


# strings with no token in them: they all mean the empty bitstring
EMPTY_SPELLINGS = ['', ' ', ',', ' , ', '\t', ', ,', '\n', '  ']


def norm_exc(e):
    import bitstring
    for name in ('ReadError', 'ByteAlignError'):
        if isinstance(e, getattr(bitstring, name)):
            return name
    if isinstance(e, bitstring.Error):
        return 'Error'
    for c in (ValueError, IndexError, TypeError, KeyError, AttributeError, AssertionError, ZeroDivisionError, OverflowError):
        if isinstance(e, c):
            return c.__name__
    return type(e).__name__


def jval(x):
    import bitstring
    if isinstance(x, bitstring.Bits):
        return {'bits': x.bin if len(x) else ''}
    if isinstance(x, (bytes, bytearray)):
        return {'bytes': bytes(x).hex()}
    if isinstance(x, float):
        return repr(x)
    if isinstance(x, (list, tuple)):
        return [jval(v) for v in x]
    return x


_FIRST_DTYPE: dict = {}


def run_call(c, keep=None):
    """Execute one recorded call; returns a JSON-able outcome.  keep: list that receives created bitstring objects."""
    import bitstring
    from bitstring import Array, Bits, Dtype, pack
    kind = c['kind']
    try:
        if kind == 'ctor':
            r = getattr(bitstring, c['cls'])(c['s'])
            if keep is not None:
                keep.append(r)
            return ['ok', r.bin if len(r) else '']
        if kind == 'fromstring':
            r = getattr(bitstring, c['cls']).fromstring(c['s'])
            if keep is not None:
                keep.append(r)
            out = ['ok', r.bin if len(r) else '']
            if c.get('then_mutate') and isinstance(r, bitstring.BitArray):
                # the object is the caller's: changing it in place says nothing about what the text means next time
                if len(r):
                    r.invert()
                r.append('0b1')
            return out
        if kind == 'ctor-kw':
            kw = {c['name']: c['value']}
            if c.get('length') is not None:
                kw['length'] = c['length']
            r = getattr(bitstring, c['cls'])(**kw)
            if keep is not None:
                keep.append(r)
            return ['ok', r.bin if len(r) else '']
        if kind == 'prop-assign':
            r = getattr(bitstring, c['cls'])()
            setattr(r, c['name'], c['value'])
            if keep is not None:
                keep.append(r)
            return ['ok', r.bin if len(r) else '']
        if kind == 'pack':
            r = pack(c['fmt'], *c['vals'], **c['kw'])
            return ['ok', r.bin if len(r) else '']
        if kind == 'unpack':
            r = Bits(bin=c['data']).unpack(c['fmt'], **c['kw'])
            return ['ok', jval(r)]
        if kind == 'readlist':
            s = bitstring.ConstBitStream(bin=c['data'])
            r = s.readlist(c['fmt'], **c['kw'])
            return ['ok', jval(r), s.pos]
        if kind == 'combine-mutate':
            # a token string combined with an EMPTY mutable object; the result is then changed in place
            mcls = getattr(bitstring, c['cls'])
            how = c['how']
            if how == 'ctor':               # built directly from the string
                t = mcls(c['s'])
            elif how == 'ctor-auto-kw':
                t = mcls(auto=c['s'])
            elif how == 'empty+str':
                t = mcls() + c['s']
            elif how == 'str+empty':
                t = c['s'] + mcls()
            elif how == 'empty.append':
                t = mcls(); t.append(c['s'])
            elif how == 'empty.prepend':
                t = mcls(); t.prepend(c['s'])
            elif how == 'empty|=':          # zero-length receiver: only the empty string fits, anything else raises
                t = mcls(); t |= c['s']
            elif how == 'join':
                t = mcls().join([c['s']])
            else:
                t = mcls(); t += c['s']
            before = t.bin if len(t) else ''
            if len(t):
                t.invert()
            t.append('0b1')
            return ['ok', before]
        if kind == 'dtype-from-dtype':
            # Dtype(dtype_object, scale=...) must not touch dtype_object (it is the object the caches hand to everybody)
            d0 = Dtype(c['tok'])
            try:
                d1 = Dtype(d0, scale=c['scale'])
                r1 = [d1.name, d1.length, None if d1.scale is None else float(d1.scale)]
            except Exception as e:  # noqa: BLE001
                r1 = 'exc:' + norm_exc(e)
            d2 = Dtype(c['tok'])
            return ['ok', [r1, None if d0.scale is None else float(d0.scale), None if d2.scale is None else float(d2.scale)]]
        if kind == 'unpack-dtypes':
            # Dtype objects (with their scales) as items of the format list: what is read depends on the objects given now
            fmt = [Dtype(nm, ln, scale=sc) if sc is not None else Dtype(nm, ln) for nm, ln, sc in c['items']]
            if c['via'] == 'unpack':
                r = Bits(bin=c['data']).unpack(fmt)
            elif c['via'] == 'readlist':
                r = bitstring.ConstBitStream(bin=c['data']).readlist(fmt)
            else:
                r = bitstring.BitStream(bin=c['data']).peeklist(fmt)
            # T12: 6 and 6.0 are the same result
            return ['ok', [repr(float(x)) if isinstance(x, (int, float)) and not isinstance(x, bool) else jval(x) for x in r]]
        if kind == 'dtype':
            args = [c['tok']] + ([c['len']] if c['len'] is not None else [])
            d = Dtype(*args, **({'scale': c['scale']} if c.get('scale') is not None else {}))
            probe = None
            if d.bitlength is not None and d.bitlength <= 64 and d.name not in ('pad',):
                try:
                    probe = jval(d.parse(Bits(bin=('0110100110010110' * 4)[:d.bitlength])))
                except Exception as e:  # noqa: BLE001
                    probe = 'exc:' + norm_exc(e)
            sc = d.scale
            if isinstance(probe, (int, float)) and not isinstance(probe, bool):
                probe = repr(float(probe))          # T12: 6 and 6.0 are the same result
            # the first Dtype ever made from these arguments in this process is kept: one made now must equal it (and hash alike)
            k = (c['tok'], c['len'], None if c.get('scale') is None else float(c['scale']))
            first = _FIRST_DTYPE.setdefault(k, d)
            same = [bool(d == first), bool(first == d), hash(d) == hash(first), not (d != first)]
            return ['ok', [d.name, d.length, d.bitlength, None if sc is None else float(sc), d.variable_length,
                           str(d) if sc is None else None, probe, same]]
        if kind == 'array-dtype':
            a = Array(c['tok'], c['items'])
            return ['ok', [str(a.dtype), a.itemsize, a.data.bin if len(a.data) else '']]
        if kind == 'print':
            # printing (which may fail half way): what it wrote, and - judged by the caller - the options afterwards
            import io
            sink = io.StringIO()
            if c.get('closed'):
                sink.close()
            o = Array(c['tok'], c['items']) if c['what'] == 'array' else Bits(bin=c['data'])
            o.pp(c['fmt'], stream=sink, width=c.get('width', 60))
            return ['ok', sink.getvalue()]
        if kind == 'find':
            r = Bits(bin=c['data']).find(c['s'])
            return ['ok', list(r)]
        raise KeyError(kind)
    except Exception as e:  # noqa: BLE001
        return ['exc', norm_exc(e)]


def set_opts(o):
    import bitstring
    # an option is assigned only when it is to change (assigning the value it already has is not what the histories are about,
    # and would hide what a refused assignment in between has left behind)
    for name, v in zip(('lsb0', 'bytealigned', 'mxfp_overflow'), o):
        if getattr(bitstring.options, name) != v:
            setattr(bitstring.options, name, v)


def cold_main():
    """Pass C: one call per JSON line, caches cleared before every call."""
    import bitstring  # noqa: F401
    from rv import util
    caches = util.find_caches()
    out = sys.stdout
    for line in sys.stdin:
        c = json.loads(line)
        for _, f in util.find_caches() if not caches else caches:
            f.cache_clear()
        set_opts(c['opts'])
        out.write(json.dumps(run_call(c)) + '\n')
    set_opts([False, False, 'saturate'])


# ---- key streams -----------------------------------------------------------------------------------------
def key_class(c):
    s = c.get('s') or c.get('fmt') or c.get('tok') or (c.get('value') if isinstance(c.get('value'), str) else '') or c.get('name') or ''
    if isinstance(s, list):
        s = ','.join(map(str, s))
    if re.search(r'mxfp\d*:?\d*=', re.sub(r'\s+', '', s)) or (c['kind'] == 'pack' and 'mxfp' in s):
        return 'mxfp-token'
    if re.search(r'\b(ue|se|uie|sie)\b', s):
        return 'golomb-token'
    return 'plain'


# token strings whose bits depend on an option value, in several legal spellings (white space is insignificant anywhere in a token)
HOT_OPTION_SENSITIVE = ['e4m3mxfp=1000', 'e4m3m xfp=1000', ' e4m3mxfp = 1000 ', 'e4m3mxfp:8=1000', 'e4m3 mxfp : 8 = 1000', 'e4 m3 mx fp=1000',
                        'e5m2mxfp=1e6', 'e5m2 m x f p = 1e6', 'e5m2mxfp = -1e6', 'e 5m2mxfp=-1e6', 'e4m3mxfp=-1000, u8=1', 'u8=1, e4m3m\txfp=1000',
                        'e3m2mxfp=100', 'e2m3mxf p=100', 'e2m1mxfp=100', 'e2m1mx fp=-100']


def respell(rng, s):
    """The same token string with white space inserted at random places (it is insignificant in token strings)."""
    out = []
    for ch in s:
        if rng.random() < 0.12:
            out.append(rng.choice([' ', ' ', '  ', '\t']))
        out.append(ch)
    return ''.join(out)


def gen_history(ctx, n):
    rng = ctx.rng
    rbits = lambda k: format(rng.getrandbits(k), f'0{k}b')  # noqa: E731
    S = 600 if ctx.quick else 1500
    strs = [f'0x{rng.getrandbits(24):06x}' for _ in range(S // 2)] + \
           [f'uint{rng.choice([8, 12, 16])}={rng.randint(0, 255)}' for _ in range(S // 4)] + \
           [f'0b{rbits(rng.randint(1, 20))}, 0x{rng.getrandbits(8):02x}' for _ in range(S // 4)] + \
           [f'uint:{i}={i % 2}, int:{i + 1}=-1' for i in range(1, 340)] + \
           [f'e4m3mxfp={v}' for v in (1000, 500, -1000, 3.0, 1e9, 448, 449.0)] + [f'e5m2mxfp={v}' for v in (1e6, -1e6, 2.0, 57344, 60000.0)] + \
           [x for i in range(24) for lit in [f'0x{i:02x}c', f'0b{i:05b}', f'0o{i:02o}'][i % 3:i % 3 + 1]
            for x in (lit, f'bits={lit}, 0b1', lit, f'bits={lit}', f'0b0, bits={lit}, {lit}', lit)] + \
           [f'ue={i}' for i in range(6)] + [f'se={i}' for i in range(-3, 3)] + [f'uie={i}' for i in range(3)] + [f'sie={i}' for i in (-2, 1)] + \
           ['0b1, 0x2', 'float32=1.5', 'u 8=3', 'uint:8=3', 'u8=3', 'UINT:8=3', ' uint : 8 = 3 ', 'int:4=-1', 'hex:8=ff', 'bool=1',
            'floatle:16=0.5', '2*u4=3', 'pad:7', 'bfloat=1.0', 'intle:16=-2', 'bytes:1=a', 'uint:0=0', 'nonsense=1', 'u8=256', '0xzz', '']
    fmts = [f'u{rng.randint(1, 30)}, hex{4 * rng.randint(1, 5)}, bits' for _ in range(S // 2)] + \
           [f'{rng.randint(2, 4)}*(u{rng.randint(1, 9)}, bool), bin' for _ in range(S // 8)] + \
           ['u:n, bits', '2*(u4, bool), bits', '<2H, bits', 'ue, bits', '>hB, pad:3, bin', 'se, uie, sie, bits', 'float:32, bits',
            'bytes:2, bits', 'u:n, i:m, bits', 'hex, u8', 'bits:3, uint', '@l, bits', 'bfloat, bits', 'p4binary, bits', 'nonsense, bits',
            'u8, u8, u8, u8, u8, u8, u8, u8, u8, u8, u8, u8, u8', '3*(2*(bool), u2)']
    dtoks = [f'uint{i}' for i in range(1, 330)] + [f'int:{i}' for i in range(1, 120)] + [f'hex{4 * i}' for i in range(1, 40)] + \
            ['u8', 'uint:9', 'hex', 'float32', 'e4m3mxfp', 'bytes3', ' u 8', 'bool', 'ue', 'int0', 'float17', 'bfloat', 'p3binary8',
             'uintle24', 'uintle12', 'bits', 'pad8', 'mxint', 'e2m1mxfp4', 'bin7', 'oct9', 'oct8', 'floatne64', 'x', '>H']
    atoks = [f'>{chr(97 + i % 26)}{i}' for i in range(330)] + ['>H', '<h', '=l', '@Q', 'u8', 'float16', '<e', '>d', 'int7', 'bytes2', 'hex4']
    packs = [('u8, hex8', [3, 'ab'], {}), ('e4m3mxfp, u4', [1000.0, 2], {}), ('e5m2mxfp, u4', [1e6, 2], {}), ('u:n, bool', [5, True], {'n': 7}),
             ('u:n, bool', [5, True], {'n': 9}), ('u:n, bool', [5, True], {'n': 7.0}), ('u:n, bool', [5, True], {'n': 9.0}), ('ue, se', [3, -2], {}), ('2*(u4), bits', [1, 2, '0b1'], {}), ('<2h', [1, -1], {}),
             ('u8=a, u8=b', [], {'a': 1, 'b': 2}), ('u8=a, u8=b', [], {'a': 5, 'b': 6}), ('float:32, pad:3', [0.5], {}), ('u8', [256], {}),
             ('u8', [], {}), ('bits:4', ['0b1111'], {}), ('hex:n', ['abc'], {'n': 12}), ('hex:n', ['abc'], {'n': 8})]
    opts = [False, False, 'saturate']
    hist = []
    counts = {}
    cursors = {'str': 0, 'fmt': 0, 'dtok': 0, 'atok': 0}

    def nxt(name, pool):
        """mostly march through the key stream (forces evictions), sometimes revisit an early or recent key"""
        r = rng.random()
        if r < 0.7:
            i = cursors[name] % len(pool)
            cursors[name] += 1
            return pool[i]
        if r < 0.8:
            return pool[rng.randrange(0, min(len(pool), 12))]
        return rng.choice(pool)
    for _ in range(n):
        r = rng.random()
        if r < 0.05:
            which = rng.randrange(3)
            if which == 0:
                opts[0] = not opts[0]
            elif which == 1:
                opts[1] = not opts[1]
            else:
                opts[2] = 'overflow' if opts[2] == 'saturate' else 'saturate'
            hist.append({'kind': 'toggle', 'opts': list(opts)})
            continue
        if r < 0.06:
            # an assignment to an option that is refused (or whose value cannot be judged) leaves every option as it was
            hist.append({'kind': 'bad-toggle', 'what': rng.choice(['mxfp:clip', 'mxfp:Saturate', 'mxfp:None', 'mxfp:overflow ', 'lsb0:badbool', 'bytealigned:badbool']),
                         'opts': list(opts)})
            continue
        if r < 0.10:
            hist.append({'kind': 'mutate-earlier', 'how': rng.choice(['invert', 'append', 'tobitarray-invert', 'clear', 'derive', 'array-data']),
                         'opts': list(opts)})
            continue
        k = rng.choice(['ctor', 'ctor', 'ctor', 'ctor', 'fromstring', 'pack', 'pack', 'unpack', 'readlist', 'dtype', 'dtype', 'array-dtype', 'array-dtype', 'find', 'print',
                        'ctor-kw', 'ctor-kw', 'prop-assign', 'unpack-dtypes', 'combine-mutate', 'dtype-from-dtype'])
        if k in ('ctor', 'fromstring'):
            c = {'kind': k, 'cls': rng.choice(['Bits', 'BitArray', 'ConstBitStream', 'BitStream']), 's': nxt('str', strs)}
            r2 = rng.random()
            if r2 < 0.08:
                c['s'] = rng.choice(HOT_OPTION_SENSITIVE)       # few keys, revisited under different option values
            elif r2 < 0.2:
                c['s'] = respell(rng, c['s'])
            elif r2 < 0.25:
                c['s'] = rng.choice(EMPTY_SPELLINGS)
            if k == 'fromstring' and rng.random() < 0.5:
                # the object made is changed in place straight away and the same text is used again, by either route
                c['then_mutate'] = True
                c['opts'] = list(opts)
                hist.append(c)
                counts[k] = counts.get(k, 0) + 1
                c = {'kind': rng.choice(['ctor', 'fromstring']), 'cls': rng.choice(['Bits', 'BitArray', 'ConstBitStream', 'BitStream']), 's': c['s']}
        elif k == 'print':
            c = {'kind': k, 'what': rng.choice(['array', 'array', 'bits']), 'tok': rng.choice(['uint6', 'uint8', 'int4', 'float16', 'hex4', 'bool', 'e4m3mxfp', 'uint12']),
                 'items': rng.choice([[1, 2, 3], [0], [], [1, 0, 1, 1, 0, 1, 0, 0, 1]]), 'data': rbits(rng.choice([0, 7, 24, 61])),
                 'fmt': rng.choice(['hex', 'bin', 'uint8', 'float', 'bytes', 'ue', 'hex, bin', 'u6', 'nonsense', 'bin:3', 'i4', 'bool', 'float16']),
                 'closed': rng.random() < 0.25, 'width': rng.choice([60, 20, 0])}
            if rng.random() < 0.3:
                c['fmt'] = rng.choice(HOT_PP_FMTS)
        elif k == 'combine-mutate':
            c = {'kind': k, 'cls': rng.choice(['BitArray', 'BitStream']), 's': strs[rng.randrange(12)] if rng.random() < 0.6 else nxt('str', strs),
                 'how': rng.choice(['empty+str', 'str+empty', 'empty.append', 'empty.prepend', 'empty+=', 'join', 'empty|=', 'ctor', 'ctor', 'ctor-auto-kw'])}
            if rng.random() < 0.25:
                c['s'] = rng.choice(EMPTY_SPELLINGS)
        elif k == 'dtype-from-dtype':
            c = {'kind': k, 'tok': rng.choice(['uint12', 'uint8', 'int16', 'float32', 'u5', 'e4m3mxfp', 'bfloat', 'uintle16'] + dtoks[:6]),
                 'scale': rng.choice([2, 8, 0.5, 3, None])}
        elif k == 'unpack-dtypes':
            items = []
            for _ in range(rng.choice([1, 2, 3])):
                nm, ln = rng.choice([('uint', 8), ('int', 8), ('uint', 12), ('float', 16), ('e4m3mxfp', None), ('uintle', 16), ('mxint', None), ('bfloat', None)])
                items.append([nm, ln, rng.choice([None, None, 2, 4, 0.5, 16, 3])])
            c = {'kind': k, 'items': items, 'data': rbits(48), 'via': rng.choice(['unpack', 'readlist', 'peeklist'])}
        elif k == 'pack':
            f, v, kw = rng.choice(packs)
            c = {'kind': k, 'fmt': f, 'vals': v, 'kw': kw}
            if rng.random() < 0.3 and not kw:
                # a list of formats: afterwards each item on its own must still mean what it meant before
                f2, v2, kw2 = rng.choice([p for p in packs if not p[2]])
                c = {'kind': k, 'fmt': [f, f2], 'vals': list(v) + list(v2), 'kw': {}}
        elif k == 'ctor-kw':
            name, val, ln = rng.choice([('ue', rng.randint(0, 40), None), ('se', rng.randint(-20, 20), None), ('uie', rng.randint(0, 40), None),
                                        ('sie', rng.randint(-20, 20), None), ('uint', rng.randint(0, 255), 8), ('int', rng.randint(-8, 7), 4),
                                        ('hex', format(rng.getrandbits(16), '04x'), None), ('float', rng.choice([0.0, -0.0, 1.5, -2.25]), 32),
                                        ('e4m3mxfp', rng.choice([1.0, 1000.0, -1000.0]), None), ('bin', format(rng.getrandbits(5), '05b'), None),
                                        ('bool', rng.random() < 0.5, None), ('bfloat', rng.choice([0.0, -0.0, 3.5]), None)])
            c = {'kind': k, 'cls': rng.choice(['Bits', 'BitArray', 'BitArray', 'ConstBitStream', 'BitStream']), 'name': name, 'value': val, 'length': ln}
        elif k == 'prop-assign':
            hot = strs[rng.randrange(12)]          # a key that is revisited often, so that a poisoned cache entry is seen again
            name, val = rng.choice([('bits', hot), ('bits', hot), ('bits', nxt('str', strs)), ('ue', rng.randint(0, 40)), ('uie', rng.randint(0, 40)),
                                    ('se', rng.randint(-20, 20)), ('hex', format(rng.getrandbits(16), '04x')), ('uint8', rng.randint(0, 255)),
                                    ('float32', rng.choice([0.0, -0.0, 1.5]))])
            c = {'kind': k, 'cls': rng.choice(['BitArray', 'BitStream']), 'name': name, 'value': val}
        elif k in ('unpack', 'readlist'):
            f = nxt('fmt', fmts)
            kw = {}
            if ':n' in f:
                kw['n'] = rng.choice([3, 5, 3, 5, 3.0, 5.0, 1, True])        # (values that are equal - 3 and 3.0, 1 and True - are still different arguments)
            if ':m' in f:
                kw['m'] = rng.choice([2, 4, 2.0, 4])
            c = {'kind': k, 'fmt': f, 'data': rbits(rng.choice([40, 100, 160])), 'kw': kw}
            if rng.random() < 0.12:
                c['fmt'], c['kw'] = rng.choice(HOT_PP_FMTS), {}
            if rng.random() < 0.1:
                c['fmt'] = [f, 'u3'] if rng.random() < 0.5 else f.split(', ')
        elif k == 'dtype':
            c = {'kind': k, 'tok': nxt('dtok', dtoks), 'len': rng.choice([None, None, None, 8, 16]), 'scale': rng.choice([None, None, None, 2, 2.0, 0.5, 4])}
            if c['len'] is not None:
                c['tok'] = rng.choice(['uint', 'int', 'hex', 'float', 'bytes', 'bin', 'bool', 'uintle', 'ue', 'u', 'e4m3mxfp'])
            if not re.match(r'^\s*(u|i|uint|int|float|f|uintle|e4m3mxfp|bfloat|mxint|p3binary)', c['tok']):
                c['scale'] = None       # a scale on a non-numeric dtype is not a documented use
        elif k == 'array-dtype':
            c = {'kind': k, 'tok': nxt('atok', atoks), 'items': rng.choice([[], [1], [1, 2, 3]])}
        else:
            c = {'kind': 'find', 'data': rbits(64), 's': rng.choice(['0b101', '0x0f', '0b1', 'u4=3'])}
        c['opts'] = list(opts)
        hist.append(c)
    return hist


class _BadBool:
    def __bool__(self):
        raise RuntimeError('no truth value')


def bad_toggle(what):
    import bitstring
    name, v = what.split(':', 1)
    try:
        if name == 'mxfp':
            bitstring.options.mxfp_overflow = None if v == 'None' else v
        else:
            setattr(bitstring.options, name, _BadBool())
    except Exception:  # noqa: BLE001 - refused, as it should be
        pass


def warm_pass(ctx, hist):
    """Execute the history in this (warm) interpreter; returns the list of outcomes (None for non-calls)."""
    import bitstring
    from bitstring import Array, BitArray
    kept = []
    out = []
    last = None
    for c in hist:
        if last is not None:
            # nobody but this loop sets options: what is in force now is what was set before the previous call
            o = bitstring.options
            now = [o.lsb0, o.bytealigned, o.mxfp_overflow]
            if now != last[0]:
                ctx.mismatch(f'C09|options-changed-by-call|{last[1]}', {'call': last[2], 'opts_set': last[0]}, f'options were {last[0]}, are {now} after a {last[1]} call')
        last = [list(c['opts']), c['kind'], {k: v for k, v in c.items() if k != 'data'}]
        set_opts(c['opts'])
        if c['kind'] == 'toggle':
            ctx.op('toggle')
            out.append(None)
            continue
        if c['kind'] == 'bad-toggle':
            ctx.op('bad-toggle')
            out.append(None)
            bad_toggle(c['what'])
            continue
        if c['kind'] == 'mutate-earlier':
            ctx.op('mutate-earlier')
            out.append(None)
            if not kept:
                continue
            x = kept[-1 - min(int(ctx.rng.expovariate(0.5)), len(kept) - 1)] if not ctx.replaying else kept[-1]
            try:
                how = c['how']
                if how == 'invert' and isinstance(x, BitArray) and len(x):
                    x.invert()
                elif how == 'append' and isinstance(x, BitArray):
                    x.append('0b1')
                elif how == 'clear' and isinstance(x, BitArray):
                    x.clear()
                elif how == 'tobitarray-invert' and isinstance(x, bitstring.Bits):
                    x.tobitarray().invert() if len(x) else None
                elif how == 'derive' and isinstance(x, bitstring.Bits):
                    y = BitArray(x)
                    y += '0b1'
                    z = x[:] if len(x) else x
                    del y, z
                elif how == 'array-data' and isinstance(x, bitstring.Bits) and len(x):
                    a = Array('u1', x)
                    a.data.invert()
            except Exception:  # noqa: BLE001 - a failing mutation is not this property's business
                pass
            continue
        ctx.op(c['kind'])
        res = run_call(c, kept)
        out.append(res)
        del kept[:-50]
    set_opts([False, False, 'saturate'])
    return out


def cold_pass(calls):
    p = subprocess.run([sys.executable, '-m', 'rv.props.c09', 'cold'], input='\n'.join(json.dumps(c) for c in calls) + '\n',
                       capture_output=True, text=True, timeout=1800)
    lines = p.stdout.splitlines()
    if p.returncode != 0 or len(lines) != len(calls):
        raise RuntimeError(f'cold reference died rc={p.returncode} lines={len(lines)}/{len(calls)} stderr={p.stderr[-300:]}')
    return [json.loads(line) for line in lines]


def call_key(c):
    return json.dumps({k: v for k, v in c.items() if k not in ('opts', 'data')}, sort_keys=True, default=str)


def compare(ctx, hist, warm, store_history=True):
    calls = [(i, c) for i, c in enumerate(hist) if c['kind'] not in ('toggle', 'mutate-earlier', 'bad-toggle')]
    cold = cold_pass([c for _, c in calls])
    first_opts = {}
    seen_at = {}
    mutated_before = False
    toggled = False
    for (i, c), k in zip(calls, cold):
        w = warm[i]
        key = call_key(c)
        okey = json.dumps(c.get('s') or c.get('tok') or c.get('fmt') or [c.get('name'), c.get('value')])
        kc = key_class(c)
        rel = {'mxfp-token': 2, 'golomb-token': 0}.get(kc)
        seen_vals = first_opts.setdefault(okey, set())
        if rel is not None:
            seen_vals.add(c['opts'][rel])
        visit = 'first' if key not in seen_at else ('revisit-far' if i - seen_at[key] > 300 else 'revisit')
        seen_at[key] = i
        if w == k:
            ctx.ok((c['kind'], key_class(c), tuple(c['opts']), visit), visit != 'first')
            continue
        if rel is None:
            hist_diff = 'any-history'           # no option can legitimately matter for this key
        else:
            name = ('lsb0', 'bytealigned', 'mxfp_overflow')[rel]
            hist_diff = f'{name}-varied-between-uses' if len(seen_vals) > 1 else f'{name}-constant'
        shape = 'stale-result' if (w[0] == 'ok' and k[0] == 'ok') else f'warm-{w[0]}-cold-{k[0]}'
        mech = f'C09|{c["kind"]}|{key_class(c)}|{hist_diff}|{shape}'
        case = {'index': i, 'call': c, 'history': hist[:i + 1] if store_history else None}
        ctx.mismatch(mech, case, f'call #{i} {json.dumps(c)[:160]}: warm {str(w)[:80]} cold {str(k)[:80]}')


def cache_report(ctx):
    from rv import util
    rep = {}
    for name, f in util.find_caches():
        info = f.cache_info()
        rep[name] = {'hits': info.hits, 'misses': info.misses, 'maxsize': info.maxsize, 'currsize': info.currsize}
        short = name.rsplit('.', 1)[-1]
        if short in PINNED_CACHES and info.maxsize:
            if not (info.misses > info.maxsize and info.currsize == info.maxsize):
                ctx.inconclusive_because(f'cache {name} did not evict (misses={info.misses}, currsize={info.currsize}, maxsize={info.maxsize})')
    ctx.extra['cache_stats'] = rep


# formats that pp(), unpack(), readlist() and pack() all accept: printing with a format must not change what parsing it gives
HOT_PP_FMTS = ['hex8, hex8', '2*uint:4', 'bin:16,bin:16', 'u8, u8', 'hex:8, hex:8', 'bin8, hex8', '2*hex4', 'uint:4, uint:4', 'bin4,bin4']
_HOT_VALS = {'hex8, hex8': ['a1', 'b2'], '2*uint:4': [3, 4], 'bin:16,bin:16': ['0' * 16, '1' * 16], 'u8, u8': [1, 2], 'hex:8, hex:8': ['a1', 'b2'],
             'bin8, hex8': ['00001111', 'b2'], '2*hex4': ['a', 'b'], 'uint:4, uint:4': [3, 4], 'bin4,bin4': ['0101', '1111']}


def _pp_then_parse():
    o = [False, False, 'saturate']
    out = []
    for f in HOT_PP_FMTS:
        d = '1010000110110010110000111101010011100101'
        out.append([{'kind': 'unpack', 'fmt': f, 'data': d, 'kw': {}, 'opts': o},
                    {'kind': 'print', 'what': 'bits', 'tok': 'uint8', 'items': [], 'data': d, 'fmt': f, 'closed': False, 'width': 60, 'opts': o},
                    {'kind': 'unpack', 'fmt': f, 'data': d, 'kw': {}, 'opts': o}, {'kind': 'readlist', 'fmt': f, 'data': d, 'kw': {}, 'opts': o},
                    {'kind': 'pack', 'fmt': f, 'vals': _HOT_VALS[f], 'kw': {}, 'opts': o},
                    {'kind': 'print', 'what': 'array', 'tok': 'uint8', 'items': [1, 2, 3], 'data': d, 'fmt': f, 'closed': False, 'width': 60, 'opts': o},
                    {'kind': 'pack', 'fmt': f, 'vals': _HOT_VALS[f], 'kw': {}, 'opts': o}, {'kind': 'unpack', 'fmt': f, 'data': d, 'kw': {}, 'opts': o}])
    return out


def _kw_twins():
    """The same format with keyword lengths that are equal but not the same argument (8 and 8.0, 1 and True), in both orders."""
    o = [False, False, 'saturate']
    out = []
    for kind in ('unpack', 'readlist'):
        for fmt, data in (('uint:n, uint:n', '1111111100000001'), ('u:n, bits', '1010101111001101'), ('hex:n, bin:m', '1010101111001101')):
            for a, b in ((8, 8.0), (8.0, 8), (1, True), (True, 1), (4, 4.0)):
                kw1 = {'n': a, 'm': 4} if ':m' in fmt else {'n': a}
                kw2 = {'n': b, 'm': 4} if ':m' in fmt else {'n': b}
                out.append([{'kind': kind, 'fmt': fmt, 'data': data, 'kw': kw1, 'opts': o}, {'kind': kind, 'fmt': fmt, 'data': data, 'kw': kw2, 'opts': o},
                            {'kind': 'pack', 'fmt': 'u:n, bool', 'vals': [1, True], 'kw': {'n': a}, 'opts': o},
                            {'kind': 'pack', 'fmt': 'u:n, bool', 'vals': [1, True], 'kw': {'n': b}, 'opts': o}])
    return out


DIRECTED = _kw_twins() + _pp_then_parse() + [
    # D(i): mxfp token parsed under saturate, served unchanged under overflow
    [{'kind': 'ctor', 'cls': 'Bits', 's': 'e4m3mxfp=1000', 'opts': [False, False, 'saturate']},
     {'kind': 'toggle', 'opts': [False, False, 'overflow']},
     {'kind': 'ctor', 'cls': 'Bits', 's': 'e4m3mxfp=1000', 'opts': [False, False, 'overflow']},
     {'kind': 'pack', 'fmt': 'e4m3mxfp, u4', 'vals': [1000.0, 2], 'kw': {}, 'opts': [False, False, 'overflow']},
     {'kind': 'toggle', 'opts': [False, False, 'saturate']},
     {'kind': 'ctor', 'cls': 'Bits', 's': 'e4m3mxfp=1000', 'opts': [False, False, 'saturate']}],
    # D(ii): golomb token parsed in msb0, served in lsb0
    [{'kind': 'ctor', 'cls': 'Bits', 's': 'ue=3', 'opts': [False, False, 'saturate']},
     {'kind': 'toggle', 'opts': [True, False, 'saturate']},
     {'kind': 'ctor', 'cls': 'Bits', 's': 'ue=3', 'opts': [True, False, 'saturate']},
     {'kind': 'ctor', 'cls': 'Bits', 's': 'u8=3', 'opts': [True, False, 'saturate']},
     {'kind': 'toggle', 'opts': [False, False, 'saturate']},
     {'kind': 'ctor', 'cls': 'Bits', 's': 'ue=3', 'opts': [False, False, 'saturate']},
     {'kind': 'find', 'data': '0110' * 16, 's': '0b11', 'opts': [False, False, 'saturate']}],
    # D(iii): every exp-Golomb token as a Dtype, in readlist / unpack / pack and as a literal: first in msb0, then in lsb0, then in msb0 again
    [{'kind': 'dtype', 'tok': 'ue', 'len': None, 'opts': [False, False, 'saturate']},
     {'kind': 'readlist', 'fmt': 'ue, bits', 'data': '0100110001001001110111001111000111111100', 'kw': {}, 'opts': [False, False, 'saturate']},
     {'kind': 'dtype', 'tok': 'se', 'len': None, 'opts': [False, False, 'saturate']},
     {'kind': 'readlist', 'fmt': 'se, bits', 'data': '0100110001001001110111001111000111111100', 'kw': {}, 'opts': [False, False, 'saturate']},
     {'kind': 'dtype', 'tok': 'uie', 'len': None, 'opts': [False, False, 'saturate']},
     {'kind': 'readlist', 'fmt': 'uie, bits', 'data': '0100110001001001110111001111000111111100', 'kw': {}, 'opts': [False, False, 'saturate']},
     {'kind': 'dtype', 'tok': 'sie', 'len': None, 'opts': [False, False, 'saturate']},
     {'kind': 'readlist', 'fmt': 'sie, bits', 'data': '0100110001001001110111001111000111111100', 'kw': {}, 'opts': [False, False, 'saturate']},
     {'kind': 'unpack', 'fmt': 'se, uie, sie, bits', 'data': '0100110001001001110111001111000111111100', 'kw': {}, 'opts': [False, False, 'saturate']},
     {'kind': 'toggle', 'opts': [True, False, 'saturate']},
     {'kind': 'dtype', 'tok': 'ue', 'len': None, 'opts': [True, False, 'saturate']},
     {'kind': 'readlist', 'fmt': 'ue, bits', 'data': '0100110001001001110111001111000111111100', 'kw': {}, 'opts': [True, False, 'saturate']},
     {'kind': 'ctor', 'cls': 'Bits', 's': 'ue=3', 'opts': [True, False, 'saturate']},
     {'kind': 'pack', 'fmt': 'ue, u4', 'vals': [3, 2], 'kw': {}, 'opts': [True, False, 'saturate']},
     {'kind': 'dtype', 'tok': 'se', 'len': None, 'opts': [True, False, 'saturate']},
     {'kind': 'readlist', 'fmt': 'se, bits', 'data': '0100110001001001110111001111000111111100', 'kw': {}, 'opts': [True, False, 'saturate']},
     {'kind': 'ctor', 'cls': 'Bits', 's': 'se=3', 'opts': [True, False, 'saturate']},
     {'kind': 'pack', 'fmt': 'se, u4', 'vals': [3, 2], 'kw': {}, 'opts': [True, False, 'saturate']},
     {'kind': 'dtype', 'tok': 'uie', 'len': None, 'opts': [True, False, 'saturate']},
     {'kind': 'readlist', 'fmt': 'uie, bits', 'data': '0100110001001001110111001111000111111100', 'kw': {}, 'opts': [True, False, 'saturate']},
     {'kind': 'ctor', 'cls': 'Bits', 's': 'uie=3', 'opts': [True, False, 'saturate']},
     {'kind': 'pack', 'fmt': 'uie, u4', 'vals': [3, 2], 'kw': {}, 'opts': [True, False, 'saturate']},
     {'kind': 'dtype', 'tok': 'sie', 'len': None, 'opts': [True, False, 'saturate']},
     {'kind': 'readlist', 'fmt': 'sie, bits', 'data': '0100110001001001110111001111000111111100', 'kw': {}, 'opts': [True, False, 'saturate']},
     {'kind': 'ctor', 'cls': 'Bits', 's': 'sie=3', 'opts': [True, False, 'saturate']},
     {'kind': 'pack', 'fmt': 'sie, u4', 'vals': [3, 2], 'kw': {}, 'opts': [True, False, 'saturate']},
     {'kind': 'unpack', 'fmt': 'se, uie, sie, bits', 'data': '0100110001001001110111001111000111111100', 'kw': {}, 'opts': [True, False, 'saturate']},
     {'kind': 'toggle', 'opts': [False, False, 'saturate']},
     {'kind': 'dtype', 'tok': 'ue', 'len': None, 'opts': [False, False, 'saturate']},
     {'kind': 'readlist', 'fmt': 'ue, bits', 'data': '0100110001001001110111001111000111111100', 'kw': {}, 'opts': [False, False, 'saturate']},
     {'kind': 'dtype', 'tok': 'sie', 'len': None, 'opts': [False, False, 'saturate']},
     {'kind': 'readlist', 'fmt': 'sie, bits', 'data': '0100110001001001110111001111000111111100', 'kw': {}, 'opts': [False, False, 'saturate']}],
    # D(iv): an option assignment that is refused, then values that depend on that option
    [{'kind': 'ctor', 'cls': 'Bits', 's': 'e4m3mxfp=449.0', 'opts': [False, False, 'saturate']},
     {'kind': 'bad-toggle', 'what': 'mxfp:clip', 'opts': [False, False, 'saturate']},
     {'kind': 'ctor', 'cls': 'Bits', 's': 'e4m3mxfp=1000', 'opts': [False, False, 'saturate']},
     {'kind': 'ctor', 'cls': 'BitArray', 's': 'e5m2mxfp=1e6', 'opts': [False, False, 'saturate']},
     {'kind': 'pack', 'fmt': 'e4m3mxfp, u4', 'vals': [1000.0, 2], 'kw': {}, 'opts': [False, False, 'saturate']},
     {'kind': 'ctor-kw', 'cls': 'Bits', 'name': 'e5m2mxfp', 'value': -1e6, 'length': None, 'opts': [False, False, 'saturate']},
     {'kind': 'toggle', 'opts': [False, False, 'overflow']},
     {'kind': 'bad-toggle', 'what': 'mxfp:Saturate', 'opts': [False, False, 'overflow']},
     {'kind': 'ctor', 'cls': 'Bits', 's': 'e4m3mxfp=-1000', 'opts': [False, False, 'overflow']},
     {'kind': 'bad-toggle', 'what': 'lsb0:badbool', 'opts': [False, False, 'overflow']},
     {'kind': 'readlist', 'fmt': 'u5, bits', 'data': '0100110001001001', 'kw': {}, 'opts': [False, False, 'overflow']},
     {'kind': 'toggle', 'opts': [False, False, 'saturate']},
     {'kind': 'ctor', 'cls': 'Bits', 's': 'e4m3mxfp=1000', 'opts': [False, False, 'saturate']}],
    # D(v): an object made by fromstring is changed in place; the text is used again
    [{'kind': 'fromstring', 'cls': 'BitStream', 's': '0x3c5a, 0b101', 'then_mutate': True, 'opts': [False, False, 'saturate']},
     {'kind': 'ctor', 'cls': 'Bits', 's': '0x3c5a, 0b101', 'opts': [False, False, 'saturate']},
     {'kind': 'fromstring', 'cls': 'BitArray', 's': 'uint12=77', 'then_mutate': True, 'opts': [False, False, 'saturate']},
     {'kind': 'fromstring', 'cls': 'ConstBitStream', 's': 'uint12=77', 'opts': [False, False, 'saturate']},
     {'kind': 'ctor', 'cls': 'BitStream', 's': 'uint12=77', 'opts': [False, False, 'saturate']}],
]


def run(ctx):
    if ctx.shard == 0:
        for h in DIRECTED:
            ctx.current_case = {'history': h}
            from rv import util
            for _, f in util.find_caches():
                f.cache_clear()
            compare(ctx, h, warm_pass(ctx, h))
    n = ctx.scale(14000, 320000)
    n = max(n, 6000)       # every shard must fill each cache beyond maxsize on its own
    # thorough: several histories one after the other in the same (ever warmer) interpreter, each compared with its own cold run
    for rnd in range(1 if ctx.quick else 8):
        hist = gen_history(ctx, n)
        ctx.current_case = {'history-length': len(hist), 'round': rnd}
        warm = warm_pass(ctx, hist)
        if rnd == 0:
            cache_report(ctx)
        compare(ctx, hist, warm)
        for c in hist[:3] + hist[-2:]:
            ctx.sample(c)


def replay(ctx, case):
    hist = case.get('history') or [case['call']]
    from rv import util
    for _, f in util.find_caches():
        f.cache_clear()
    compare(ctx, hist, warm_pass(ctx, hist))


if __name__ == '__main__':
    if len(sys.argv) > 1 and sys.argv[1] == 'cold':
        cold_main()
