"""C10 - exponential-Golomb codes (ue/se/uie/sie): exact codewords, decode inverse, negative values
rejected for the unsigned codes, self-delimiting streams, truncated codeword -> ReadError with the
position unchanged (ValueError through the whole-bitstring property), codeword + extra bits not
accepted as a single value.

Oracle: the reference encoders / prefix decoders of rv.model.codecs (written from H.264 9.1 and the
Dirac read_uint/read_sint definitions).  They are themselves checked in every shard against the
literal rows of the two standards' tables and against a second, arithmetic formulation (selfcheck).
MSB0 only: the library refuses the codes in lsb0 mode."""
from __future__ import annotations

import itertools

from bitstring import Bits, Dtype, pack

from rv import util
from rv.model import codecs as K
from rv.model.bits import Expect
from rv.util import B, CLASSES, call, exc_matches

PROP = 'C10'
SENTINELS = False      # installed by run() itself, after the two exhaustive sweeps (see run)
SHARDS = {'quick': 4, 'thorough': 16}
RULE = ("int cases: every integer of [-4096,4096] (quick; prefix and extra-bit battery for [-2048,2048]) / [-65536,65536] (thorough) x 4 codes, plus power-of-two "
        "neighbours and random integers out to 2**200, each through every creation route (keyword with the class rotating on v, all 4 classes for |v|<=32, "
        "property assignment on BitArray/BitStream, token string, Dtype.build, pack positional/'=v'/keyword) and "
        "reading route (property, Dtype.parse, unpack, read, peek, readlist, peeklist), every proper prefix of the "
        "codeword (all cuts in the window - in the quick tier a non-boundary cut of |v|>64 alternates between the property and read - boundary+random cuts for huge values) and codeword+{0,1,10}; negative "
        "values for ue/uie through every creation route. dec cases: EVERY bit string of length <=12 (quick) / <=16 "
        "(thorough) as decoder input at pos in {0,2} via read/peek/readlist on ConstBitStream/BitStream and via the "
        "whole-bitstring property and Dtype.parse. seq cases: random mixed sequences of the four codes read one by "
        "one, readlist/peeklist, unpack, re-pack, token string, and with the tail cut inside the last codeword. "
        "key = (code, bit-length of |value|, route) / (code, input bits) for the decoder sweep / (seq, length class, "
        "route); non-trivial = every int case, every non-empty decoder input, every sequence")
ANCHORS = ['ue2bitstore', 'se2bitstore', 'uie2bitstore', 'sie2bitstore',
           'Bits._readue', 'Bits._readse', 'Bits._readuie', 'Bits._readsie',
           'Bits._getue', 'Bits._getse', 'Bits._getuie', 'Bits._getsie',
           'Bits._setue', 'Bits._setse', 'Bits._setuie', 'Bits._setsie',
           'DtypeDefinition.__init__.<locals>.length_checked_get_fn',
           'DtypeDefinition.__init__.<locals>.read_fn']
REQUIRED_OPS = ['reencode-after-mutation', 'create-keyword', 'create-property', 'create-token', 'create-build', 'create-pack-positional',
                'create-pack-eqvalue', 'create-pack-keyword', 'negative', 'property', 'parse', 'unpack', 'read',
                'peek', 'readlist', 'peeklist', 'property-truncated', 'read-truncated', 'peek-truncated',
                'readlist-truncated', 'unpack-truncated', 'parse-truncated', 'property-extra', 'parse-extra',
                'read-extra', 'sweep-read', 'sweep-peek', 'sweep-readlist', 'sweep-property', 'sweep-parse',
                'seq-read', 'seq-readlist', 'seq-peeklist', 'seq-unpack', 'seq-pack', 'seq-token', 'seq-cut-read',
                'seq-cut-readlist', 'table-row']
MIN_EVALS = {'quick': 700000, 'thorough': 15000000}
ASSUMPTIONS = ['MSB0 mode only (the library documents and enforces that exp-Golomb codes are unusable in lsb0 mode)',
               'H.264 (03/2005) 9.1 / Table 9-2, 9.1.1 and Dirac spec read_uint/read_sint are the definitions; the '
               'reference implementation is cross-checked against literal table rows and an arithmetic reformulation',
               'unpack / Dtype.parse on truncated data may reject with ReadError or ValueError (only read-type calls '
               'and the whole-bitstring property have their exception class fixed by the statement)']

CODES = ('ue', 'se', 'uie', 'sie')
UNSIGNED = ('ue', 'uie')
STREAMS = ('ConstBitStream', 'BitStream')
WINDOW = {'quick': 4096, 'thorough': 65536}
PREFIX_WINDOW = {'quick': 2048, 'thorough': 65536}    # truncation / extra-bits battery inside the window
SWEEP_LEN = {'quick': 12, 'thorough': 16}

# Literal rows: H.264 Table 9-2 (codeNum) with 9.1.1 mapping for se(v); Dirac spec (interleaved exp-Golomb) tables.
TABLE = {
    'ue': [('1', 0), ('010', 1), ('011', 2), ('00100', 3), ('00101', 4), ('00110', 5), ('00111', 6),
           ('0001000', 7), ('0001001', 8), ('0001010', 9), ('0001011', 10), ('0001100', 11), ('0001101', 12),
           ('0001110', 13), ('0001111', 14), ('000010000', 15), ('000011111', 30), ('00000100000', 31)],
    'se': [('1', 0), ('010', 1), ('011', -1), ('00100', 2), ('00101', -2), ('00110', 3), ('00111', -3),
           ('0001000', 4), ('0001001', -4), ('0001010', 5), ('0001011', -5), ('0001100', 6), ('0001101', -6),
           ('0001110', 7), ('0001111', -7), ('000010000', 8), ('000010001', -8)],
    'uie': [('1', 0), ('001', 1), ('011', 2), ('00001', 3), ('00011', 4), ('01001', 5), ('01011', 6),
            ('0000001', 7), ('0000011', 8), ('0001001', 9), ('0001011', 10), ('0100001', 11), ('0100011', 12),
            ('0101001', 13), ('0101011', 14), ('000000001', 15)],
    'sie': [('1', 0), ('0010', 1), ('0011', -1), ('0110', 2), ('0111', -2), ('000010', 3), ('000011', -3),
            ('000110', 4), ('000111', -4), ('010010', 5), ('010011', -5), ('010110', 6), ('010111', -6),
            ('00000010', 7), ('00000011', -7)],
}


# ---- reference model self-check ------------------------------------------------------------------
def _alt_encode(code: str, v: int) -> str:
    """Second formulation, arithmetic instead of string based (H.264 (9-1)/(9-2); Dirac bit by bit)."""
    if code == 'se':
        return _alt_encode('ue', 2 * v - 1 if v > 0 else -2 * v)
    if code == 'sie':
        return '1' if v == 0 else _alt_encode('uie', abs(v)) + ('1' if v < 0 else '0')
    if code == 'ue':
        lz = 0
        while (1 << (lz + 1)) - 1 <= v:          # codeNum = 2**lz - 1 + read_bits(lz)
            lz += 1
        info = v - ((1 << lz) - 1)
        return '0' * lz + '1' + ''.join(str((info >> (lz - 1 - i)) & 1) for i in range(lz))
    x, out = v + 1, []
    nb = x.bit_length() - 1
    for i in range(nb - 1, -1, -1):              # follow bit 0, then the data bit
        out.append('0' + str((x >> i) & 1))
    return ''.join(out) + '1'


def selfcheck():
    """Raises AssertionError if the shared reference encoders/decoders disagree with the standards'
    literal tables, with the arithmetic reformulation, or are not mutually inverse / prefix free."""
    for code, rows in TABLE.items():
        for cw, v in rows:
            assert K.GOLOMB_ENC[code](v) == cw, (code, v)
            assert K.GOLOMB_DEC[code](cw, 0) == (v, len(cw)), (code, cw)
    for code in CODES:
        lo = 0 if code in UNSIGNED else -700
        seen = {}
        for v in list(range(lo, 701)) + [(1 << k) + d for k in (20, 63, 64, 199) for d in (-2, -1, 0, 1)]:
            cw = K.GOLOMB_ENC[code](v)
            assert cw == _alt_encode(code, v), (code, v)
            assert K.GOLOMB_DEC[code]('11' + cw + '01', 2) == (v, len(cw)), (code, v)
            assert cw not in seen
            seen[cw] = v
            for cut in range(len(cw)):
                try:
                    K.GOLOMB_DEC[code](cw[:cut], 0)
                except K.Truncated:
                    continue
                raise AssertionError(('prefix decodes', code, v, cut))
        for v in (-1, -2, -700):
            if code in UNSIGNED:
                try:
                    K.GOLOMB_ENC[code](v)
                except Expect:
                    continue
                raise AssertionError(('negative encodes', code, v))


def ref_decode(code: str, bits: str, pos: int):
    """(value, width) or None when the data ends inside (or before) the codeword."""
    try:
        return K.GOLOMB_DEC[code](bits, pos)
    except K.Truncated:
        return None


# ---- small helpers -------------------------------------------------------------------------------
def out(got) -> str:
    return 'ok' if got[0] == 'ok' else type(got[1]).__name__


def sign_class(code: str, v: int) -> str:
    s = 'zero' if v == 0 else 'pos' if v > 0 else 'neg'
    return f'{code}:{s}' + (':huge' if abs(v) > (1 << 17) else '')


def is_int(x) -> bool:
    return isinstance(x, int) and not isinstance(x, bool)


def mkobj(cls: str, bits: str, pos: int = 0):
    o = util.mk(cls, bits)
    if pos:
        o.pos = pos
    return o


def short(case):
    c = dict(case)
    for k in ('bits', 'pre', 'post'):
        if isinstance(c.get(k), str) and len(c[k]) > 120:
            c[k] = c[k][:60] + f'...({len(case[k])} bits)'
    if isinstance(c.get('items'), list) and len(c['items']) > 16:
        c['items'] = c['items'][:16] + [f'...({len(case["items"])} items)']
    return c


class J:
    """Per-case judge context: routes observations to ctx with narrow mechanism keys."""

    def __init__(self, ctx, case):
        self.ctx, self.case = ctx, case

    def bad(self, op, inputclass, shape, detail):
        self.ctx.mismatch(f'C10|{op}|{inputclass}|{shape}', short(self.case), detail)

    def created(self, op, ic, key, got, cw):
        """A creation route must give exactly the codeword."""
        self.ctx.op(op, out(got))
        if got[0] == 'exc':
            return self.bad(op, ic, 'unexpected-exc:' + type(got[1]).__name__, f'expected codeword {cw[:80]}')
        obs = got[1]
        if obs != cw:
            shape = 'wrong-length' if len(obs) != len(cw) else 'wrong-codeword'
            return self.bad(op, ic, shape, f'got {obs[:80]} expected {cw[:80]}')
        self.ctx.ok(key)

    def value(self, op, ic, key, got, exp, nontrivial=True):
        """A decode must give exactly exp (an int, a list of ints, or a (value, pos) tuple)."""
        self.ctx.op(op, out(got))
        if got[0] == 'exc':
            return self.bad(op, ic, 'unexpected-exc:' + type(got[1]).__name__, f'expected {str(exp)[:120]}')
        obs = got[1]
        if obs == exp and _int_typed(obs):
            return self.ctx.ok(key, nontrivial)
        if isinstance(exp, tuple) and isinstance(obs, tuple) and obs[0] == exp[0]:
            shape = 'wrong-pos'
        elif obs == exp:
            shape = 'non-int-result'
        else:
            shape = 'wrong-value'
        self.bad(op, ic, shape, f'got {str(obs)[:120]} expected {str(exp)[:120]}')

    def rejects(self, op, ic, key, got, classes, accepted='accepted', pos=None, nontrivial=True, count_as=None):
        """The call must raise one of classes; pos = (observed, expected) must be equal."""
        self.ctx.op(count_as or op, out(got))
        if got[0] == 'ok':
            return self.bad(op, ic, accepted, f'returned {str(got[1])[:120]}, expected {classes}')
        if not exc_matches(got[1], classes):
            return self.bad(op, ic, 'wrong-exc:' + type(got[1]).__name__, f'expected {classes}')
        if pos is not None and pos[0] != pos[1]:
            return self.bad(op, ic, 'pos-moved-after-raise', f'pos {pos[1]} -> {pos[0]}')
        self.ctx.ok(key, nontrivial)


def _int_typed(x) -> bool:
    if isinstance(x, tuple):
        return _int_typed(x[0])
    if isinstance(x, list):
        return all(is_int(e) for e in x)
    return is_int(x)


def _setprop(cls, code, v):
    o = CLASSES[cls]()
    setattr(o, code, v)
    return B(o)


# ---- int cases -----------------------------------------------------------------------------------
try:
    import numpy as _np
    NUMPY_INTS = [('uint8', 0, 255), ('int8', -128, 127), ('int16', -2 ** 15, 2 ** 15 - 1), ('uint32', 0, 2 ** 32 - 1), ('int64', -2 ** 63, 2 ** 63 - 1),
                  ('uint64', 0, 2 ** 64 - 1)]
except Exception:  # noqa: BLE001 - numpy is optional
    _np, NUMPY_INTS = None, []


def creation_routes(code: str, v: int, classes):
    """(op, route label, thunk returning the created bits as a str)"""
    r = [('create-keyword', 'kw-' + c, (lambda c=c: B(CLASSES[c](**{code: v})))) for c in classes]
    r += [('create-property', 'prop-' + c, (lambda c=c: _setprop(c, code, v))) for c in ('BitArray', 'BitStream')]
    r += [('create-token', 'token', lambda: B(Bits(f'{code}={v}'))),
          ('create-build', 'build', lambda: B(Dtype(code).build(v))),
          ('create-pack-positional', 'pack-pos', lambda: B(pack(code, v))),
          ('create-pack-eqvalue', 'pack-eq', lambda: B(pack(f'{code}={v}'))),
          ('create-pack-keyword', 'pack-kw', lambda: B(pack(f'{code}=val', val=v)))]
    # the same integer as TEXT (how every token string delivers it), in decimal spellings that int() reads as v
    sign = '-' if v < 0 else ''
    texts = {'plain': str(v), 'zero-padded': f'{sign}00{abs(v)}', 'plus': f'+{v}' if v >= 0 else str(v), 'spaced': f' {v} '}
    if abs(v) >= 1000:
        texts['underscore'] = f'{sign}{abs(v) // 1000}_{abs(v) % 1000:03d}'
    for nm, t in texts.items():
        r += [('create-keyword', f'kw-text-{nm}', lambda t=t: B(Bits(**{code: t}))),
              ('create-build', f'build-text-{nm}', lambda t=t: B(Dtype(code).build(t))),
              ('create-pack-positional', f'pack-pos-text-{nm}', lambda t=t: B(pack(code, t))),
              ('create-token', f'token-text-{nm}', lambda t=t: B(Bits(f'{code}={t}'))),
              ('create-property', f'prop-text-{nm}', lambda t=t: _setprop('BitStream', code, t))]
    # the same integer as a fixed-width numpy scalar (an integer whatever its class; arithmetic on it must not wrap at its own width)
    for nm, lo, hi in NUMPY_INTS:
        if lo <= v <= hi:
            nv = getattr(_np, nm)(v)
            r += [('create-keyword', f'kw-{nm}', lambda nv=nv: B(Bits(**{code: nv}))),
                  ('create-build', f'build-{nm}', lambda nv=nv: B(Dtype(code).build(nv))),
                  ('create-property', f'prop-{nm}', lambda nv=nv: _setprop('BitArray', code, nv))]
            break
    return r


def judge_int(ctx, c):
    code, v = c['code'], c['v']
    j = J(ctx, c)
    ic = sign_class(code, v)
    nb = abs(v).bit_length()
    small = abs(v) <= 32
    classes = util.CLASS_NAMES if small else [util.CLASS_NAMES[v % 4]]
    routes = creation_routes(code, v, classes)

    if v < 0 and code in UNSIGNED:
        for op, label, th in routes:
            j.rejects(op, ic, (code, 'neg', nb, label), call(th), 'ValueError', accepted='negative-accepted',
                      count_as='negative')
        return

    cw = K.GOLOMB_ENC[code](v)
    n = len(cw)
    for op, label, th in routes:
        j.created(op, ic, (code, nb, label), call(th), cw)

    # ---- reading routes on exactly the codeword -----------------------------------------------
    for cls in (util.CLASS_NAMES if small else [util.CLASS_NAMES[(v + 1) % 4]]):
        o = mkobj(cls, cw)
        j.value('property', ic, (code, nb, 'property-' + cls), call(lambda: getattr(o, code)), v)
    b = mkobj('Bits', cw)
    j.value('parse', ic, (code, nb, 'parse'), call(lambda: Dtype(code).parse(b)), v)
    j.value('unpack', ic, (code, nb, 'unpack'), call(lambda: b.unpack(code)), [v])
    pre, post = c.get('pre', ''), c.get('post', '')
    p0 = len(pre)
    for i, cls in enumerate(STREAMS):
        s = mkobj(cls, pre + cw + post, p0)
        if small or (v + i) % 2 == 0:
            j.value('peek', ic, (code, nb, 'peek-' + cls), call(lambda: (s.peek(code), s.pos)), (v, p0))
            j.value('read', ic, (code, nb, 'read-' + cls), call(lambda: (s.read(code), s.pos)), (v, p0 + n))
            s.pos = p0
        if small or (v + i) % 2 == 1:
            j.value('peeklist', ic, (code, nb, 'peeklist-' + cls), call(lambda: (s.peeklist([code]), s.pos)), ([v], p0))
            j.value('readlist', ic, (code, nb, 'readlist-' + cls), call(lambda: (s.readlist(code), s.pos)), ([v], p0 + n))

    ctx.state('int', code, n, p0)
    if c.get('routes_only'):
        return

    # ---- codeword + extra bits: read stops after the codeword, whole-bitstring views refuse -----------
    ice = f'{code}:codeword+extra'
    for k, extra in enumerate(('0', '1', '10')):
        s = mkobj(STREAMS[(v + k) % 2], cw + extra)
        j.rejects('property-extra', ice, (code, nb, 'property-extra'), call(lambda: getattr(s, code)), 'ValueError',
                  accepted='extra-bits-accepted')
        j.value('read-extra', ice, (code, nb, 'read-extra'), call(lambda: (s.read(code), s.pos)), (v, n))
        if small or (v + k) % 3 == 0:
            o = mkobj(('Bits', 'BitArray')[(v + k) % 2], cw + extra)
            j.rejects('property-extra', ice, (code, nb, 'property-extra'), call(lambda: getattr(o, code)),
                      'ValueError', accepted='extra-bits-accepted')
            j.rejects('parse-extra', ice, (code, nb, 'parse-extra'), call(lambda: Dtype(code).parse(o)), 'ValueError',
                      accepted='extra-bits-accepted')

    # ---- every proper prefix is truncated ----------------------------------------------------
    z = cw.find('1')
    boundary = {0, n - 1, z, z + 1} if c.get('lite') else {0, 1, n - 1, z, z + 1}
    cuts = c.get('cuts')
    if cuts is None:
        cuts = range(n)
    # lite (quick-tier window): a non-boundary prefix goes through the property or through read,
    # alternating with cut+v; the full battery runs in the thorough tier and at the boundary cuts.
    lite = bool(c.get('lite'))
    for cut in cuts:
        if not 0 <= cut < n:
            continue
        t = cw[:cut]
        ict = f'{code}:' + ('no-bits' if cut == 0 else 'truncated')
        cls = util.CLASS_NAMES[(cut + v) % 4]
        o = mkobj(cls, t)
        both = not lite or cut in boundary
        if both or (cut + v) % 2 == 0:
            j.rejects('property-truncated', ict, (code, nb, 'property-truncated'), call(lambda: getattr(o, code)),
                      'ValueError', accepted='truncated-accepted')
        if both or (cut + v) % 2 == 1:
            s = o if cls in STREAMS else mkobj(STREAMS[cut % 2], t)
            got = call(lambda: s.read(code))
            j.rejects('read-truncated', ict, (code, nb, 'read-truncated'), got, 'ReadError',
                      accepted='truncated-accepted', pos=(s.pos, 0))
        if cut in boundary:
            # the same with bits before the read position, and the other reading routes
            s2 = mkobj(STREAMS[(cut + 1) % 2], '10' + t, 2)
            got = call(lambda: s2.read(code))
            j.rejects('read-truncated', ict, (code, nb, 'read-truncated'), got, 'ReadError',
                      accepted='truncated-accepted', pos=(s2.pos, 2))
            if not lite or (cut + v) % 2 == 0:
                got = call(lambda: s2.peek(code))
                j.rejects('peek-truncated', ict, (code, nb, 'peek-truncated'), got, 'ReadError',
                          accepted='truncated-accepted', pos=(s2.pos, 2))
            if not lite or (cut + v) % 2 == 1:
                got = call(lambda: s2.readlist(code))
                j.rejects('readlist-truncated', ict, (code, nb, 'readlist-truncated'), got, 'ReadError',
                          accepted='truncated-accepted', pos=(s2.pos, 2))
            which = (cut + v) % 3 if not (small or 'cuts' in c) else -1
            if which in (-1, 0):
                got = call(lambda: s2.peeklist(code))
                j.rejects('peeklist-truncated', ict, (code, nb, 'peeklist-truncated'), got, 'ReadError',
                          accepted='truncated-accepted', pos=(s2.pos, 2))
            if which in (-1, 1):
                j.rejects('unpack-truncated', ict, (code, nb, 'unpack-truncated'), call(lambda: o.unpack(code)),
                          ('ReadError', 'ValueError'), accepted='truncated-accepted')
            if which in (-1, 2):
                j.rejects('parse-truncated', ict, (code, nb, 'parse-truncated'), call(lambda: Dtype(code).parse(o)),
                          ('ValueError', 'ReadError'), accepted='truncated-accepted')


# ---- table rows (literal codewords from the standards) ----------------------------------------------
def judge_table(ctx, c):
    code, v, cw = c['code'], c['v'], c['cw']
    j = J(ctx, c)
    ic = f'{code}:table-row'
    got = call(lambda: B(Bits(**{code: v})))
    ctx.op('table-row', out(got))
    j.created('create-keyword', ic, (code, 'table', v, 'enc'), got, cw)
    j.value('property', ic, (code, 'table', v, 'dec'), call(lambda: getattr(Bits(bin=cw), code)), v)


# ---- decoder sweep ---------------------------------------------------------------------------------
def judge_dec(ctx, c):
    bits = c['bits']
    L = len(bits)
    j = J(ctx, c)
    streams = {cls: mkobj(cls, bits) for cls in STREAMS}
    whole = mkobj(c.get('cls', 'Bits'), bits)
    for code in CODES:
        for pos in sorted({0, min(2, L)}):
            ref = ref_decode(code, bits, pos)
            if ref is None:
                ic = f'{code}:' + ('no-bits' if pos == L else 'truncated')
            else:
                ic = f'{code}:' + ('complete-exact' if pos + ref[1] == L else 'complete-more')
            key = ('dec', code, bits)
            nt = L > 0
            for cls, s in streams.items():
                s.pos = pos
                got = call(lambda: s.read(code))
                if ref is None:
                    j.rejects('sweep-read', ic, key, got, 'ReadError', accepted='truncated-accepted',
                              pos=(s.pos, pos), nontrivial=nt)
                else:
                    got = (got[0], (got[1], s.pos)) if got[0] == 'ok' else got
                    j.value('sweep-read', ic, key, got, (ref[0], pos + ref[1]), nt)
            s = streams[STREAMS[(L + pos) % 2]]
            s.pos = pos
            got = call(lambda: s.peek(code))
            if ref is None:
                j.rejects('sweep-peek', ic, key, got, 'ReadError', accepted='truncated-accepted', pos=(s.pos, pos),
                          nontrivial=nt)
            else:
                got = (got[0], (got[1], s.pos)) if got[0] == 'ok' else got
                j.value('sweep-peek', ic, key, got, (ref[0], pos), nt)
            got = call(lambda: s.readlist([code]))
            if ref is None:
                j.rejects('sweep-readlist', ic, key, got, 'ReadError', accepted='truncated-accepted',
                          pos=(s.pos, pos), nontrivial=nt)
            else:
                got = (got[0], (got[1], s.pos)) if got[0] == 'ok' else got
                j.value('sweep-readlist', ic, key, got, ([ref[0]], pos + ref[1]), nt)
            ctx.state('dec', code, bits, pos)
        # whole-bitstring interpretations
        ref = ref_decode(code, bits, 0)
        key = ('dec', code, bits)
        if ref is not None and ref[1] == L:
            ic = f'{code}:exact-codeword'
            j.value('sweep-property', ic, key, call(lambda: getattr(whole, code)), ref[0])
            j.value('sweep-parse', ic, key, call(lambda: Dtype(code).parse(whole)), ref[0])
        else:
            if ref is None:
                ic, acc, pcls = f'{code}:' + ('no-bits' if L == 0 else 'truncated'), 'truncated-accepted', ('ValueError', 'ReadError')
            else:
                ic, acc, pcls = f'{code}:codeword+extra', 'extra-bits-accepted', 'ValueError'
            j.rejects('sweep-property', ic, key, call(lambda: getattr(whole, code)), 'ValueError', accepted=acc,
                      nontrivial=L > 0)
            j.rejects('sweep-parse', ic, key, call(lambda: Dtype(code).parse(whole)), pcls, accepted=acc,
                      nontrivial=L > 0)


# ---- mixed sequences -------------------------------------------------------------------------------
def judge_seq(ctx, c):
    items = [(code, v) for code, v in c['items']]
    j = J(ctx, c)
    cws = [K.GOLOMB_ENC[code](v) for code, v in items]
    bits = ''.join(cws)
    vals = [v for _, v in items]
    names = [code for code, _ in items]
    fmt = ', '.join(names)
    uniform = len(set(names)) == 1
    ic = 'uniform-sequence' if uniform else 'mixed-sequence'
    lc = 'n1' if len(items) == 1 else 'n<=4' if len(items) <= 4 else 'n<=12' if len(items) <= 12 else 'n>12'
    big = 'huge' if any(abs(v) > (1 << 17) for v in vals) else 'small'
    pre, post = c.get('pre', ''), c.get('post', '')
    p0 = len(pre)
    cls = c.get('cls', 'ConstBitStream')

    def key(route):
        return ('seq', ic, lc, big, route)

    # one by one
    s = mkobj(cls, pre + bits + post, p0)
    p = p0
    for i, (code, v) in enumerate(items):
        if c.get('peek_first'):
            j.value('peek', ic, key('peek'), call(lambda: (s.peek(code), s.pos)), (v, p))
        p += len(cws[i])
        got = call(lambda: (s.read(code), s.pos))
        j.value('seq-read', ic, key('read-' + code), got, (v, p))
        if got[0] == 'exc' or got[1] != (v, p):
            break
    # readlist / peeklist, string and list spellings
    s = mkobj(cls, pre + bits + post, p0)
    j.value('seq-peeklist', ic, key('peeklist'), call(lambda: (s.peeklist(fmt), s.pos)), (vals, p0))
    j.value('seq-readlist', ic, key('readlist-str'), call(lambda: (s.readlist(fmt), s.pos)), (vals, p0 + len(bits)))
    s.pos = p0
    j.value('seq-readlist', ic, key('readlist-list'), call(lambda: (s.readlist(names), s.pos)), (vals, p0 + len(bits)))
    if len(items) >= 2:
        # two readlist calls splitting the sequence at k
        k = c.get('split', 1) % len(items) or 1
        s.pos = p0
        w = len(''.join(cws[:k]))
        j.value('seq-readlist', ic, key('readlist-split'), call(lambda: (s.readlist(names[:k]), s.pos)), (vals[:k], p0 + w))
        j.value('seq-readlist', ic, key('readlist-split'), call(lambda: (s.readlist(names[k:]), s.pos)),
                (vals[k:], p0 + len(bits)))
    if uniform:
        s.pos = p0
        j.value('seq-readlist', ic, key('readlist-mult'), call(lambda: (s.readlist(f'{len(items)}*{names[0]}'), s.pos)),
                (vals, p0 + len(bits)))
    # unpack (whole object, no leading bits)
    o = mkobj(c.get('ucls', 'Bits'), bits + post)
    j.value('seq-unpack', ic, key('unpack'), call(lambda: o.unpack(fmt)), vals)
    if uniform:
        j.value('seq-unpack', ic, key('unpack-mult'), call(lambda: o.unpack(f'{len(items)}*{names[0]}')), vals)
    # the codewords are followed by data that a length-less token takes: each codeword still advances by exactly its own length
    t_ = mkobj(c.get('ucls', 'Bits'), bits + post)
    rest = post
    n_ = len(vals)

    def split_(r, *more):
        return (r[:n_], tuple(B(x) if isinstance(x, Bits) else x for x in r[n_:]) + more)
    j.value('seq-unpack', ic, key('unpack-then-rest'), call(lambda: split_(t_.unpack(fmt + ', bits'))), (vals, (rest,)))
    j.value('seq-unpack', ic, key('unpack-then-bin'), call(lambda: split_(t_.unpack(fmt + ', bin'))), (vals, (rest,)))
    if len(post) >= 4:
        fx = f'{fmt}, bin, uint:4'
        j.value('seq-unpack', ic, key('unpack-then-rest-then-fixed'), call(lambda: split_(t_.unpack(fx))), (vals, (rest[:-4], int(rest[-4:], 2))))
    s2 = mkobj(cls, pre + bits + post, p0)
    j.value('seq-readlist', ic, key('readlist-then-rest'), call(lambda: split_(s2.readlist(fmt + ', bits'), s2.pos)), (vals, (rest, p0 + len(bits) + len(post))))
    # re-pack / token string / join
    j.created('seq-pack', ic, key('pack-pos'), call(lambda: B(pack(fmt, *vals))), bits)
    eq = ', '.join(f'{code}={v}' for code, v in items)
    j.created('seq-pack', ic, key('pack-eq'), call(lambda: B(pack(eq))), bits)
    j.created('seq-token', ic, key('token'), call(lambda: B(CLASSES[c.get('ucls', 'Bits')](eq))), bits)
    j.created('seq-token', ic, key('join'), call(lambda: B(Bits().join(f'{code}={v}' for code, v in items))), bits)
    # round trip of the library's own packing
    got = call(lambda: pack(fmt, *vals).unpack(fmt))
    j.value('seq-unpack', ic, key('pack-unpack'), got, vals)

    # tail cut inside the last codeword
    cut = c.get('cut')
    if cut:
        cut = 1 + (cut - 1) % len(cws[-1])
        tb = bits[:-cut]
        icc = 'sequence-cut-in-last-codeword'
        s = mkobj(cls, pre + tb, p0)
        p = p0
        okay = True
        for i, (code, v) in enumerate(items[:-1]):
            p += len(cws[i])
            got = call(lambda: (s.read(code), s.pos))
            j.value('seq-cut-read', icc, key('cut-read-head'), got, (v, p))
            if got[0] == 'exc' or got[1] != (v, p):
                okay = False
                break
        if okay:
            got = call(lambda: s.read(names[-1]))
            j.rejects('seq-cut-read', icc, key('cut-read-last'), got, 'ReadError', accepted='truncated-accepted',
                      pos=(s.pos, p))
        s = mkobj(cls, pre + tb, p0)
        got = call(lambda: s.readlist(fmt))
        j.rejects('seq-cut-readlist', icc, key('cut-readlist'), got, 'ReadError', accepted='truncated-accepted',
                  pos=(s.pos, p0))
        got = call(lambda: s.peeklist(names))
        j.rejects('seq-cut-readlist', icc, key('cut-peeklist'), got, 'ReadError', accepted='truncated-accepted',
                  pos=(s.pos, p0))
        o = mkobj(c.get('ucls', 'Bits'), tb)
        j.rejects('seq-unpack', icc, key('cut-unpack'), call(lambda: o.unpack(fmt)), ('ReadError', 'ValueError'),
                  accepted='truncated-accepted')
    ctx.state('seq', bits, p0)


# ---- dispatch ------------------------------------------------------------------------------------
JUDGES = {'int': judge_int, 'dec': judge_dec, 'seq': judge_seq, 'table': judge_table}


def judge_reencode(ctx, c):
    """The codeword of a value must not depend on what was done to an object that was built from the same value earlier
    (an encoder that caches and hands out its result would be poisoned by an in-place change)."""
    import bitstring
    code, v = c['code'], c['v']
    exp = K.GOLOMB_ENC[code](v)
    cls = util.CLASSES[c['mcls']]
    with util.options(lsb0=False):
        if c['route'] == 'keyword':
            a = cls(**{code: v})
        else:
            a = cls()
            setattr(a, code, v)
        first = a.bin
        for m in c['mutations']:
            if m == 'append':
                a.append('0b1')
            elif m == 'invert' and len(a):
                a.invert()
            elif m == 'prepend':
                a.prepend('0b0')
            elif m == 'del' and len(a):
                del a[0]
            elif m == 'setitem' and len(a):
                a[-1] = not a[-1]
        ctx.op('reencode-after-mutation')
        again = {}
        for cname in util.CLASS_NAMES:
            again[cname + '(kw)'] = util.CLASSES[cname](**{code: v}).bin
        again['token'] = bitstring.Bits(f'{code}={v}').bin
        again['pack'] = bitstring.pack(code, v).bin
        t = bitstring.BitArray()
        setattr(t, code, v)
        again['setter'] = t.bin
        bad = {k: b for k, b in again.items() if b != exp}
        if first != exp or bad:
            ctx.mismatch(f'C10|reencode-after-mutation|{code}:{c["route"]}|codeword-depends-on-history', c,
                         f'{code}={v}: expected {exp}, first {first}, after mutating that object: {bad}')
        else:
            ctx.ok(('reencode', code, c['route'], c['mcls']), True)


def judge(ctx, c):
    if c.get('k') == 'reencode':
        return judge_reencode(ctx, c)
    # options.bytealigned governs searches only; a code word and its decoding must not depend on it
    with util.options(lsb0=False, bytealigned=bool(c.get('oba'))):
        JUDGES[c['k']](ctx, c)


# ---- generators -----------------------------------------------------------------------------------
def rand_int(rng, signed: bool) -> int:
    r = rng.random()
    if r < 0.35:
        v = rng.getrandbits(rng.randint(9, 200))
    elif r < 0.6:
        v = rng.getrandbits(rng.randint(1, 20))
    elif r < 0.9:
        v = max(0, (1 << rng.randint(1, 200)) + rng.choice([-2, -1, 0, 1]))
    elif r < 0.95:
        v = rng.choice([0, 1, 2, 3])
    else:
        # sparse values: a high bit, a long run of zeros, then low-order content (an address, a counter next to a flag bit)
        k = rng.choice([66, 70, 96, 100, 128, 200])
        j = rng.randint(1, k - 34)
        v = (1 << k) + rng.choice([rng.getrandbits(j) | (1 << (j - 1)), (1 << j) - 1, 1 << (j - 1), 1])
    if signed and rng.random() < 0.5:
        v = -v
    return v


def huge_cuts(rng, cw: str):
    n = len(cw)
    z = cw.find('1')
    cuts = {0, 1, 2, n - 1, n - 2, n - 3, z - 1, z, z + 1, z + 2, n // 2}
    cuts |= {rng.randrange(n) for _ in range(6)}
    return sorted(x for x in cuts if 0 <= x < n)


def gen_huge(ctx, v: int, code: str):
    rng = ctx.rng
    c = {'k': 'int', 'code': code, 'v': v, 'pre': util.rb(rng, rng.choice([0, 1, 3, 8])),
         'post': util.rb(rng, rng.choice([0, 0, 1, 5]))}
    if not (v < 0 and code in UNSIGNED):
        c['cuts'] = huge_cuts(rng, K.GOLOMB_ENC[code](v))
    return c


def gen_seq(ctx):
    rng = ctx.rng
    r = rng.random()
    n = rng.randint(1, 4) if r < 0.3 else rng.randint(5, 12) if r < 0.9 else rng.randint(13, 40)
    if rng.random() < 0.03:
        n = rng.choice([63, 64, 65, 100, 256, 300])                 # many codes in one call (where a bulk decoder could take over)
    uniform = rng.random() < 0.2
    one = rng.choice(CODES)
    style = rng.random()
    items = []
    for _ in range(n):
        code = one if uniform else rng.choice(CODES)
        if style < 0.55:
            v = rng.randint(-50, 50)
        elif style < 0.75:
            v = rng.choice([0, 0, 1, -1, 2, -2])              # dense in one-bit codewords
        else:
            v = rand_int(rng, True)
        if code in UNSIGNED:
            v = abs(v)
        items.append([code, v])
    return {'k': 'seq', 'items': items, 'cls': rng.choice(STREAMS), 'ucls': rng.choice(util.CLASS_NAMES),
            'pre': util.rb(rng, rng.choice([0, 0, 1, 2, 7, 8, 9])), 'post': util.rb(rng, rng.choice([0, 0, 0, 1, 3, 8])),
            'split': rng.randint(1, 40), 'cut': rng.choice([0, 1, 1, 2, 3, rng.randint(1, 400)]),
            'peek_first': rng.random() < 0.3}


def directed(ctx):
    cases = []
    for code, rows in TABLE.items():
        for cw, v in rows:
            cases.append({'k': 'table', 'code': code, 'v': v, 'cw': cw})
    # the documentation's own examples
    cases.append({'k': 'seq', 'items': [['ue', x] for x in [3, 0, 0, 2, 2, 1, 0, 0, 8, 4]], 'cut': 1, 'split': 3})
    cases.append({'k': 'seq', 'items': [['se', -5], ['se', 2], ['se', 0], ['se', -1]], 'cls': 'BitStream', 'cut': 2})
    cases.append({'k': 'seq', 'items': [['se', -9], ['ue', 4]], 'cut': 3, 'peek_first': True})
    cases.append({'k': 'seq', 'items': [['ue', 423], ['ue', 12]], 'cls': 'BitStream', 'pre': '1', 'post': '0'})
    # all-zero runs ending exactly at the end of data, lone ones, sign bit missing
    for b in ['', '0', '00', '0' * 16, '1', '01', '001', '0001', '00001', '0' * 15 + '1', '0010', '0110', '011']:
        cases.append({'k': 'dec', 'bits': b})
    for code in CODES:
        for v in (0, 1, -1, 2, -2, (1 << 64) - 1, 1 << 64, -(1 << 64), (1 << 200), -(1 << 200) + 1):
            cases.append({'k': 'int', 'code': code, 'v': v, 'pre': '101', 'post': '1',
                          **({'cuts': [0, 1, 2, 60, 64, 65, 128, 129, 130, 199, 200, 201, 399, 400, 401]} if abs(v) > 9 else {})})
    for c in cases:
        ctx.run_case(judge, c)


def boundary_ints(ctx):
    """Neighbours of powers of two beyond the exhaustive window."""
    W = PREFIX_WINDOW[ctx.tier]
    ks = range(W.bit_length(), 201) if not ctx.quick else \
        sorted(set(range(W.bit_length(), 21)) | {31, 32, 33, 63, 64, 65, 127, 128, 199, 200})
    for k in ks:
        for d in (-2, -1, 0, 1):
            for sg in (1, -1):
                yield sg * ((1 << k) + d)


def run(ctx):
    try:
        selfcheck()
    except AssertionError as e:
        ctx.inconclusive_because(f'reference exp-Golomb model failed its self-check: {e!r}')
        return
    rng = ctx.rng

    # 1. exhaustive integer window x 4 codes
    W = WINDOW[ctx.tier]
    P = PREFIX_WINDOW[ctx.tier]
    cnt = 0
    for i, v in enumerate(range(-W, W + 1)):
        if not ctx.mine(i):
            continue
        for code in CODES:
            c = {'k': 'int', 'code': code, 'v': v}
            if i % 5 == 4:
                c['oba'] = True
            if ctx.quick and abs(v) > 64:
                c['lite'] = True
            if abs(v) > P:
                c['routes_only'] = True
            ctx.run_case(judge, c)
            cnt += 1
            if cnt % 4001 == 0:
                ctx.sample(c)
    ctx.exhaustive[f'integers[-{W},{W}] x (ue,se,uie,sie) x every creation and reading route: exact codeword, '
                   f'decode inverse, negative rejected'] = True
    ctx.exhaustive[f'integers[-{P},{P}] x (ue,se,uie,sie): every proper prefix of the codeword rejected, '
                   f'codeword+{{0,1,10}} refused by the whole-bitstring views'] = True

    # 2. every bit string up to N bits as decoder input
    N = SWEEP_LEN[ctx.tier]
    i = 0
    for L in range(N + 1):
        for tup in itertools.product('01', repeat=L):
            i += 1
            if not ctx.mine(i):
                continue
            c = {'k': 'dec', 'bits': ''.join(tup), 'cls': util.CLASS_NAMES[i % 4]}
            if i % 7 == 6:
                c['oba'] = True
            ctx.run_case(judge, c)
            if i % 6007 == 0:
                ctx.sample(c)
    ctx.exhaustive[f'decoder input: every bit string of length <= {N} x 4 codes x pos in {{0,2}}'] = True

    # The class-wide sentinels (owned by C04/C06/C20, only recorded as foreign trips here) make every
    # per-bit __getitem__ of a property decode a checked boundary call (+50% wall).  They watch the
    # directed cases, the huge integers and the sequences, not the two exhaustive sweeps above.
    from rv import sentinels
    sentinels.install(ctx)
    if ctx.shard == 0:
        directed(ctx)

    # 3. power-of-two neighbours and random integers out to 2**200
    for i, v in enumerate(boundary_ints(ctx)):
        if ctx.mine(i):
            for code in CODES:
                ctx.run_case(judge, gen_huge(ctx, v, code))
    for i in range(ctx.scale(400, 40000)):
        code = rng.choice(CODES)
        c = gen_huge(ctx, rand_int(rng, True), code)
        if i % 4 == 3:
            c['oba'] = True
        ctx.run_case(judge, c)
        if i % 499 == 0:
            ctx.sample(short(c))

    # 3b. re-encoding a value after an object built from the same value was changed in place
    for i in range(ctx.scale(1200, 40000)):
        code = rng.choice(CODES)
        v = rng.choice([0, 1, 2, 3, 5, 10, 100, 255, 256, 4095, rng.randint(0, 70000)])
        if code in ('se', 'sie') and rng.random() < 0.5:
            v = -v
        c = {'k': 'reencode', 'code': code, 'v': v, 'mcls': rng.choice(util.MUTABLE), 'route': rng.choice(['keyword', 'setter']),
             'mutations': [rng.choice(['append', 'invert', 'prepend', 'del', 'setitem']) for _ in range(rng.randint(1, 3))]}
        ctx.run_case(judge, c)

    # 4. mixed sequences
    for i in range(ctx.scale(2000, 120000)):
        c = gen_seq(ctx)
        if i % 4 == 3:
            c['oba'] = True
        ctx.run_case(judge, c)
        if i % 997 == 0:
            ctx.sample(short(c))


def replay(ctx, case):
    ctx.run_case(judge, case)
