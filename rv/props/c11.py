"""C11 - 8-bit, micro-scaling and bfloat codecs decode and round exactly as specified.

Oracle: rv.model.minifloat (exact rational arithmetic, written from the format definitions).
Observed at the public API only: the code produced for an input (``.uint`` of the created
bitstring / of ``Array.data``) and the Python float produced for a code."""
from __future__ import annotations

import math
import struct
import sys
from fractions import Fraction as F

import bitstring
from bitstring import Array, Bits, Dtype

from rv import util
from rv.model import minifloat as mf
from rv.util import CLASSES, call

AMBIENT = ['bytealigned']      # an option this property does not depend on: a quarter of the cases run with it switched on
PROP = 'C11'
SHARDS = {'quick': 4, 'thorough': 16}
RULE = ("exhaustive: every code of every format (bfloat/bfloatle: all 65536) decoded through property, read, "
        "readlist, unpack, Dtype.parse and Array; all 65536 binary16 inputs x {p3binary, p4binary, e5m2mxfp x 2 modes, "
        "e4m3mxfp x 2 modes, e3m2mxfp, e2m3mxfp, e2m1mxfp} encoded (keyword route; thorough: every route, the "
        "mode-insensitive formats also under 'overflow', and mxint/e8m0mxfp/bfloat too); decode->re-encode of every "
        "non-NaN code. sampled: float64 inputs that are not binary16 numbers (format midpoints and binary16 tie points "
        "+-1 ulp, (65504,65520), >=65520, 1e300, subnormals, +-inf, NaN, -0.0, random doubles) through keyword / property "
        "assignment / token string / Dtype.build / pack / Array; mxint on the k/128 grid +-1 ulp; e8m0 powers of two and "
        "non-powers; scaled dtypes (2**k, k in -8..8, 3, -2) through Dtype.build/parse, read and Array. "
        "key = (format, mode, input code) for enumerated inputs (keyword route; other routes: one key per block of 1024), "
        "(format, mode, input class, route) for sampled ones; "
        "non-trivial = input is not +-0 / code is not 0")
ANCHORS = ['Binary8Format.float_to_int8', 'MXFPFormat.float_to_int',
           'p4binary2bitstore', 'p3binary2bitstore', 'e4m3mxfp2bitstore', 'e5m2mxfp2bitstore', 'e3m2mxfp2bitstore',
           'e2m3mxfp2bitstore', 'e2m1mxfp2bitstore', 'e8m0mxfp2bitstore', 'mxint2bitstore', 'bfloat2bitstore',
           'Bits._getp4binary', 'Bits._getp3binary', 'Bits._gete4m3mxfp', 'Bits._gete5m2mxfp', 'Bits._gete3m2mxfp',
           'Bits._gete2m3mxfp', 'Bits._gete2m1mxfp', 'Bits._gete8m0mxfp', 'Bits._getmxint',
           'Bits._getbfloatbe', 'Bits._getbfloatle',
           'scaled_get_fn.<locals>.wrapper', 'scaled_set_fn.<locals>.wrapper', 'scaled_read_fn.<locals>.wrapper']
ENC_ROUTES = ['kw', 'prop', 'token', 'build', 'build2', 'pack', 'packkw', 'array', 'array-set', 'array-append', 'kw-after-mutated', 'array-after-equal', 'array-extend-after-equal', 'pack-after-equal', 'pack-after-other-mode', 'build-after-other-mode']
DEC_ROUTES = ['prop', 'read', 'readlist', 'unpack', 'parse', 'array', 'array-item', 'array-pp', 'array-big']
S_ENC_ROUTES = ['build', 'array', 'array-set', 'array-append', 'array-after-equal', 'array-extend-after-equal']
S_DEC_ROUTES = ['parse', 'read', 'readlist', 'unpack', 'array', 'array-item', 'array-pp', 'array-big']
REQUIRED_OPS = (['encode:' + r for r in ENC_ROUTES] + ['decode:' + r for r in DEC_ROUTES] +
                ['scaled-encode:' + r for r in S_ENC_ROUTES] + ['scaled-decode:' + r for r in S_DEC_ROUTES] +
                ['roundtrip'])
MIN_EVALS = {'quick': 400000, 'thorough': 3000000}
ASSUMPTIONS = ['a NaN result may be any NaN code of the format (payload / sign of NaN is not specified: T11)',
               "scaled dtypes: 'divides' / 'multiplies' is Python's own float / and * (results compared with ==: T12)",
               'MSB0 mode only; inputs are Python floats (plus str via the token route)',
               "the token-string route is used only after clearing the library's token cache (its mode-blind "
               "caching is C09's finding, not C11's)"]

MODES = ('saturate', 'overflow')
NATIVE_LE = sys.byteorder == 'little'
SPELL = {'p3binary': ['p3binary', 'p3binary8'], 'p4binary': ['p4binary', 'p4binary8'],
         'e5m2mxfp': ['e5m2mxfp', 'e5m2mxfp8'], 'e4m3mxfp': ['e4m3mxfp', 'e4m3mxfp8'],
         'e3m2mxfp': ['e3m2mxfp', 'e3m2mxfp6'], 'e2m3mxfp': ['e2m3mxfp', 'e2m3mxfp6'],
         'e2m1mxfp': ['e2m1mxfp', 'e2m1mxfp4'], 'e8m0mxfp': ['e8m0mxfp', 'e8m0mxfp8'], 'mxint': ['mxint', 'mxint8'],
         'bfloat': ['bfloat', 'bfloat16', 'bfloatbe'] + ([] if NATIVE_LE else ['bfloatne']),
         'bfloatle': ['bfloatle', 'bfloatle16'] + (['bfloatne'] if NATIVE_LE else [])}
FORMATS = list(SPELL)
MINI = list(mf.MINIFLOATS)
BLOCK = 1024


def modes_of(fmt):
    return MODES if mf.CODECS[fmt].mode_sensitive else ('saturate',)


# ---- the library, by route ---------------------------------------------------------------------------------
def clear_token_cache():
    try:
        bitstring.bitstore_helpers.str_to_bitstore.cache_clear()
    except AttributeError:
        for _, c in util.find_caches():
            c.cache_clear()


def split_name(fmt: str, nm: str):
    """('e4m3mxfp', 8) for any spelling of the format fmt."""
    nb = mf.CODECS[fmt].nbits
    suffix = str(nb)
    if nm.endswith(suffix) and nm[:-len(suffix)] in SPELL[fmt]:
        return nm[:-len(suffix)], nb
    return nm, nb


def lib_encode(route, clsname, fmt, nm, x):
    """nm: a dtype name spelling (str) or a Dtype (scaled).  -> ('ok', (length, uint)) | ('exc', e)"""
    cls = CLASSES[clsname]
    nb = mf.CODECS[fmt].nbits

    def f():
        if route == 'kw':
            b = cls(**{nm: x})
        elif route == 'prop':
            mcls = cls if clsname in util.MUTABLE else CLASSES['BitArray']
            b = mcls() if clsname == 'Bits' else mcls(uint=(1 << nb) - 2, length=nb)
            setattr(b, nm, x)
        elif route == 'kw-after-mutated':
            # the value assigned to a mutable object, that object changed in place, then the value encoded afresh
            t = CLASSES['BitArray' if clsname != 'BitStream' else 'BitStream']()
            setattr(t, nm, x)
            if len(t):
                t.invert()
            t.append('0b1')
            b = cls(**{nm: x})
        elif route == 'token':
            clear_token_cache()
            b = cls(f'{nm}={x!r}')
        elif route == 'build':
            b = (nm if isinstance(nm, Dtype) else Dtype(nm)).build(x)
        elif route == 'build2':
            b = Dtype(*split_name(fmt, nm)).build(x)
        elif route == 'pack':
            b = bitstring.pack(nm, x)
        elif route == 'pack-after-equal':
            # the same call made just before with a value that compares equal (the other zero for a zero)
            bitstring.pack(nm, -x if isinstance(x, float) and x == 0 else x)
            b = bitstring.pack(nm, x)
        elif route in ('pack-after-other-mode', 'build-after-other-mode'):
            # the same call made just before under the other overflow setting: the result follows the setting in force NOW
            now = bitstring.options.mxfp_overflow
            bitstring.options.mxfp_overflow = 'overflow' if now == 'saturate' else 'saturate'
            try:
                try:
                    bitstring.pack(nm, x) if route.startswith('pack') else Dtype(nm).build(x)
                except ValueError:
                    pass
            finally:
                bitstring.options.mxfp_overflow = now
            b = bitstring.pack(nm, x) if route.startswith('pack') else Dtype(nm).build(x)
        elif route == 'packkw':
            b = bitstring.pack(f'{nm}=v', v=x)
        elif route == 'array':
            b = Array(nm, [x]).data
        elif route in ('array-after-equal', 'array-extend-after-equal'):
            # the value as the last of several given at once, after one that compares equal to it (the other zero for a zero, itself otherwise)
            first = -x if isinstance(x, float) and x == 0 else x
            if route == 'array-after-equal':
                a = Array(nm, [first, x, first, x])
            else:
                a = Array(nm)
                a.extend(iter([first, first, x]))
            b = a.data[-nb:]
        elif route == 'array-set':
            a = Array(nm, 1)
            a[0] = x
            b = a.data
        elif route == 'array-append':
            a = Array(nm)
            a.append(x)
            b = a.data
        else:
            raise KeyError(route)
        return len(b), (b.uint if len(b) else None)
    return call(f)


def lib_decode(route, clsname, fmt, nm, codes):
    """Decode the codes (one bitstring holding all of them).  -> ('ok', [floats]) | ('exc', e)"""
    cls = CLASSES[clsname]
    nb = mf.CODECS[fmt].nbits
    k = len(codes)
    scaled = isinstance(nm, Dtype)

    def whole():
        return cls(bin=''.join(format(c, f'0{nb}b') for c in codes))

    def f():
        if route == 'prop':
            return [getattr(cls(uint=c, length=nb), nm) for c in codes]
        if route == 'parse':
            d = nm if scaled else Dtype(nm)
            return [d.parse(cls(uint=c, length=nb)) for c in codes]
        if route == 'read':
            s = CLASSES[clsname if clsname in util.STREAMS else 'ConstBitStream'](whole())
            out = []
            for i in range(k):
                out.append(s.read(nm))
                if s.pos != nb * (i + 1):
                    raise AssertionError('pos')
            return out
        if route == 'readlist':
            s = CLASSES[clsname if clsname in util.STREAMS else 'BitStream'](whole())
            return s.readlist([nm] * k if scaled or k < 3 else f'{k}*{nm}')
        if route == 'unpack':
            return whole().unpack([nm] * k if scaled or k < 3 else f'{k}*{nm}')
        if route == 'array':
            return Array(nm, whole()).tolist()
        if route == 'array-item':
            a = Array(nm, whole())
            return [a[i] if i % 2 else a[i - k] for i in range(k)]
        if route == 'array-big':
            # more than a thousand items (where a bulk decoding path could take over): the codes repeated, every repeat decoded alike
            reps = 1100 // k + 1
            out = Array(nm, whole() * reps).tolist()
            first = out[:k]
            for j in range(1, reps):
                if [repr(x) for x in out[j * k:(j + 1) * k]] != [repr(x) for x in first]:
                    raise AssertionError('repeat %d decoded differently' % j)
            return first
        if route == 'array-pp':
            # what the pretty-printer shows for the items (its own dtype, no fmt argument): the numbers between the header line and ']'
            import io
            a = Array(nm, whole())
            sink = io.StringIO()
            with util.options(no_color=True):
                a.pp(stream=sink, width=100, show_offset=False)
            body = sink.getvalue().split('> [', 1)[1].rsplit(']', 1)[0]
            return [float(t) for t in body.split()]
        raise KeyError(route)
    return call(f)


# ---- classes of inputs / shapes of failures (for mechanism keys) -------------------------------------------------
def input_class(fmt: str, x: float) -> str:
    v = mf.from_float(x)
    if v[0] == 'nan':
        return 'nan'
    if v[0] == 'inf':
        return 'inf'
    if v[2] == 0:
        return 'zero'
    if fmt == 'mxint':
        q = v[2] * 64
        if q > F(255, 2):
            return 'saturating'
        fr = q - (q.numerator // q.denominator)
        if fr == 0:
            return 'grid'
        if fr == F(1, 2):
            return 'tie'
        if abs(fr - F(1, 2)) < F(1, 1 << 40):
            return 'near-tie:sub-lsb' if q < 1 else 'near-tie'
        return 'between'
    if fmt == 'e8m0mxfp':
        if v[1]:
            return 'negative'
        k = mf.floor_log2(v[2])
        if F(2) ** k != v[2]:
            return 'non-pow2'
        return 'pow2' if -127 <= k <= 127 else 'pow2-out-of-range'
    if fmt in ('bfloat', 'bfloatle'):
        r = mf.round_binary32(v)
        if r[0] == 'inf':
            return 'overflow32'
        pre = 'f32' if r == v else 'f64'
        if r[2] < F(2) ** -126:
            return pre + ':subnormal'
        return pre + (':exact' if mf.binary32_bits(r) & 0xffff == 0 else ':truncating')
    fm = mf.MINIFLOATS[fmt]
    h = mf.round_binary16(v)
    if h[0] == 'inf':
        return 'clamp>=65520'
    pre = 'f16' if h == v else 'f64'
    m = h[2]
    if m == 0:
        return pre + ':underflow16'
    if m > fm.max_finite:
        return pre + ':above-max'
    if m in fm._code_of:
        return pre + ':exact'
    r = mf.rne(m, fm.M, 1 - fm.bias)
    if abs(r - m) * 2 == F(2) ** (max(mf.floor_log2(m), 1 - fm.bias) - fm.M):
        return pre + ':tie'
    if m < fm.min_positive:
        return pre + ':below-min'
    return pre + ':between'


def code_shape(fmt: str, exp, got) -> str:
    """How a produced code differs from the expected one."""
    c = mf.CODECS[fmt]
    if exp is None:
        return 'no-raise'
    if got is None:
        return 'raised:ValueError'
    ve, vg = c.decode(exp), c.decode(got)
    if ve[0] != vg[0]:
        return f'code:{vg[0]}-for-{ve[0]}'
    if ve[0] == 'inf':
        return 'code:sign'
    if ve[0] == 'nan':
        return 'code:nan'
    if ve[2] == vg[2]:
        return 'code:sign'
    if fmt in mf.MINIFLOATS and ve[1] == vg[1]:
        mags = mf.MINIFLOATS[fmt].finite_magnitudes()
        if abs(mags.index(ve[2]) - mags.index(vg[2])) == 1:
            return 'code:neighbour'
    if fmt == 'mxint' and abs(ve[2] - vg[2]) == F(1, 64) and (ve[1] == vg[1] or 0 in (ve[2], vg[2])):
        return 'code:neighbour'
    return 'code:far'


def value_class(v) -> str:
    if v[0] != 'fin':
        return v[0]
    return 'zero' if v[2] == 0 else 'finite'


def value_shape(v, got) -> str:
    if not isinstance(got, float):
        return 'type:' + type(got).__name__
    g = mf.from_float(got)
    if g[0] != v[0]:
        return f'value:{g[0]}-for-{v[0]}'
    if v[0] == 'inf' or g[2] == v[2]:
        return 'value:sign'
    return 'value:magnitude'


def fkey(fmt: str, mode: str) -> str:
    """Format part of a mechanism key: the overflow mode only where the format's definition depends on it."""
    return f'{fmt}/{mode}' if mf.CODECS[fmt].mode_sensitive else fmt


def hx(x: float) -> str:
    return float(x).hex()


def unhx(s) -> float:
    return float.fromhex(s) if isinstance(s, str) else float(s)


def scale_of(spec):
    return int(spec[1]) if spec[0] == 'int' else unhx(spec[1])


def outcome(res):
    return 'ok' if res[0] == 'ok' else type(res[1]).__name__


def got_code(res, nb):
    """(code | None for a ValueError, problem | None)"""
    if res[0] == 'exc':
        if isinstance(res[1], ValueError):
            return None, None
        return None, 'raised:' + type(res[1]).__name__
    ln, u = res[1]
    if ln != nb:
        return None, 'length'
    return u, None


# ---- judges ----------------------------------------------------------------------------------------------------
def judge_enc(ctx, c):
    """One float through the listed routes."""
    fmt, nm, mode, x = c['fmt'], c['nm'], c['mode'], unhx(c['x'])
    codec = mf.CODECS[fmt]
    exp = codec.encode(x, mode)
    ic = input_class(fmt, x)
    kw_good = None
    with util.options(mxfp_overflow=mode, lsb0=False):
        if 'reject' in c:
            # an assignment the option refuses must leave the current setting in force
            bad = {'none': None, 'zero': 0}.get(c['reject'], c['reject'])
            r = call(lambda: setattr(bitstring.options, 'mxfp_overflow', bad))
            ctx.op('option-reject', outcome(r))
            now = bitstring.options.mxfp_overflow
            if r[0] == 'ok' or now != mode:
                ctx.mismatch('C11|option|mxfp_overflow:invalid-value|' + ('accepted' if r[0] == 'ok' else 'setting-changed-by-rejected-assignment'), c,
                             f'mxfp_overflow = {bad!r}: now {now!r}, was {mode!r}')
                bitstring.options.mxfp_overflow = mode
        for route in c['routes']:
            res = lib_encode(route, c['cls'], fmt, nm, x)
            ctx.op('encode:' + route, outcome(res))
            got, problem = got_code(res, codec.nbits)
            good = problem is None and codec.acceptable(exp, got)
            if route == 'kw':
                kw_good = good
            if good:
                if exp is not None and got != exp:
                    ctx.tolerate('T11')
                ctx.ok(c.get('key') or (fmt, mode, ic, route), x != 0)
                continue
            if route != 'kw' and kw_good is None:
                g2, p2 = got_code(lib_encode('kw', c['cls'], fmt, nm, x), codec.nbits)
                kw_good = p2 is None and codec.acceptable(exp, g2)
            opname = f'encode-route:{route}' if (route != 'kw' and kw_good) else 'encode'
            one = dict(c, routes=[route])
            one.pop('key', None)
            ctx.mismatch(f'C11|{opname}|{fkey(fmt, mode)}:{ic}|{problem or code_shape(fmt, exp, got)}', one,
                         f'{nm}={x!r} ({hx(x)}) mode={mode} route={route} cls={c["cls"]}: got '
                         f'{res[1] if res[0] == "ok" else repr(res[1])[:80]} expected code {exp}')
    ctx.state(fmt, mode, exp)


def judge_enc16(ctx, c):
    """A block of binary16 inputs through one route (fast path; a disagreement is re-judged, classified and
    recorded as a single-input 'enc' case)."""
    fmt, nm, mode, route, clsname = c['fmt'], c['nm'], c['mode'], c['route'], c['cls']
    codec = mf.CODECS[fmt]
    nb = codec.nbits
    opname = 'encode:' + route
    blockkey = f'{fmt}|{mode}|{route}|block{c["lo"] // BLOCK}'      # non-keyword routes: one key per block
    with util.options(mxfp_overflow=mode, lsb0=False):
        for i in range(c['lo'], c['hi']):
            x = struct.unpack('>e', i.to_bytes(2, 'big'))[0]
            exp = codec.encode(x, mode)
            res = lib_encode(route, clsname, fmt, nm, x)
            got, problem = got_code(res, nb)
            if problem is None and (got == exp or codec.acceptable(exp, got)):
                ctx.op(opname, 'ok' if got is not None else 'ValueError')
                ctx.ok(f'{fmt}|{mode}|{i:04x}' if route == 'kw' else blockkey, i & 0x7fff != 0)
                continue
            judge_enc(ctx, {'k': 'enc', 'fmt': fmt, 'nm': nm, 'mode': mode, 'x': hx(x), 'routes': [route], 'cls': clsname})
    ctx.state(fmt, mode, c['lo'])


def judge_dec(ctx, c):
    """Codes [lo, hi) of a format through one decode route."""
    fmt, nm, route = c['fmt'], c['nm'], c['route']
    codec = mf.CODECS[fmt]
    codes = list(range(c['lo'], c['hi']))
    with util.options(mxfp_overflow=c.get('mode', 'saturate'), lsb0=False):
        res = lib_decode(route, c['cls'], fmt, nm, codes)
        ctx.op('decode:' + route, outcome(res))
        if res[0] == 'exc' or len(res[1]) != len(codes):
            if len(codes) > 1:                      # find the culprit(s) one by one
                for code in codes:
                    judge_dec(ctx, dict(c, lo=code, hi=code + 1))
                return
            shape = ('raised:' + type(res[1]).__name__) if res[0] == 'exc' else 'count'
            ctx.mismatch(f'C11|decode|{fmt}:{value_class(codec.decode(codes[0]))}|{shape}', c, repr(res[1])[:200])
            return
        for code, got in zip(codes, res[1]):
            v = codec.decode(code)
            if mf.same(v, got):
                ctx.ok(f'{fmt}|dec|{code:x}|{route}', code != 0)
                continue
            one = dict(c, lo=code, hi=code + 1)
            opname = 'decode'
            if route != 'prop':
                r2 = lib_decode('prop', c['cls'], fmt, nm, [code])
                if r2[0] == 'ok' and mf.same(v, r2[1][0]):
                    opname = f'decode-route:{route}'
            ctx.mismatch(f'C11|{opname}|{fmt}:{value_class(v)}|{value_shape(v, got)}', one,
                         f'{nm} code {code:#x} route={route} cls={c["cls"]}: got {got!r} expected {v}')
    ctx.state(fmt, 'dec', c['lo'])


def judge_rt(ctx, c):
    """decode -> re-encode of the codes [lo, hi) returns the code (NaN codes skipped)."""
    fmt, nm, mode = c['fmt'], c['nm'], c['mode']
    codec = mf.CODECS[fmt]
    cls = CLASSES[c['cls']]
    with util.options(mxfp_overflow=mode, lsb0=False):
        for code in range(c['lo'], c['hi']):
            v = codec.decode(code)
            if v[0] == 'nan':
                continue
            exp = code
            if fmt == 'e5m2mxfp' and mode == 'saturate' and v[0] == 'inf':
                exp = (0xfb if v[1] else 0x7b)      # the stated exception: infinities saturate
            res = call(lambda: (lambda b: (len(b), b.uint))(cls(**{nm: getattr(cls(uint=code, length=codec.nbits), nm)})))
            ctx.op('roundtrip', outcome(res))
            got, problem = got_code(res, codec.nbits)
            if problem is None and got == exp:
                ctx.ok(f'{fmt}|{mode}|rt|{code:x}', code != 0)
            else:
                ctx.mismatch(f'C11|roundtrip|{fkey(fmt, mode)}:{value_class(v)}|{problem or code_shape(fmt, exp, got)}',
                             dict(c, lo=code, hi=code + 1), f'{nm} code {code:#x} mode={mode}: came back as {got}')


def same_number(exp, got) -> bool:
    if not isinstance(got, (int, float)) or isinstance(got, bool):
        return False
    if isinstance(exp, float) and math.isnan(exp):
        return isinstance(got, float) and math.isnan(got)
    if got != exp:
        return False
    return exp != 0 or math.copysign(1.0, got) == math.copysign(1.0, exp)


def judge_sdec(ctx, c):
    """Scaled dtype: decoded value times scale."""
    fmt, route = c['fmt'], c['route']
    codec = mf.CODECS[fmt]
    scale = scale_of(c['scale'])
    codes = list(range(c['lo'], c['hi']))
    with util.options(mxfp_overflow=c.get('mode', 'saturate'), lsb0=False):
        d = call(lambda: Dtype(c['nm'], scale=scale))
        if d[0] == 'exc':
            ctx.mismatch(f'C11|scaled-dtype|{fmt}|raised:{type(d[1]).__name__}', c, repr(d[1])[:200])
            return
        res = lib_decode(route, c['cls'], fmt, d[1], codes)
        ctx.op('scaled-decode:' + route, outcome(res))
        if res[0] == 'exc' or len(res[1]) != len(codes):
            if len(codes) > 1:
                for code in codes:
                    judge_sdec(ctx, dict(c, lo=code, hi=code + 1))
                return
            shape = ('raised:' + type(res[1]).__name__) if res[0] == 'exc' else 'count'
            ctx.mismatch(f'C11|scaled-decode|{fmt}:{value_class(codec.decode(codes[0]))}|{shape}', c, repr(res[1])[:200])
            return
        sclass = 'pow2' if mf.e8m0_encode(abs(float(scale))) is not None else 'non-pow2'
        for code, got in zip(codes, res[1]):
            v = codec.decode(code)
            exp = mf.to_float(v) * scale
            if same_number(exp, got):
                if type(got) is not float:
                    ctx.tolerate('T12')
                ctx.ok(f'{fmt}|sdec|{c["scale"][1]}|{code:x}', code != 0)
                continue
            unscaled = lib_decode(route, c['cls'], fmt, c['nm'], [code])
            shape = 'not-multiplied' if (unscaled[0] == 'ok' and same_number(mf.to_float(v), unscaled[1][0])) else 'value'
            if shape == 'not-multiplied' and isinstance(got, float) and same_number(mf.to_float(v), got) and scale != 1:
                shape = 'scale-ignored'
            ctx.mismatch(f'C11|scaled-decode:{route}|{fmt}:{value_class(v)}/scale-{sclass}|{shape}',
                         dict(c, lo=code, hi=code + 1),
                         f'{c["nm"]} scale={scale!r} code {code:#x} route={route}: got {got!r} expected {exp!r}')
        # neighbours of the same format with different scales (and none) in ONE format list: every item is read with its own scale
        if route in ('unpack', 'readlist', 'read') and len(codes) >= 1:
            four = [codes[i % len(codes)] for i in range(4)]
            dts = [d[1], Dtype(c['nm'], scale=scale * 2), Dtype(c['nm']), d[1]]
            scs = [scale, scale * 2, 1, scale]
            whole = CLASSES[c['cls']](bin=''.join(format(k, f'0{codec.nbits}b') for k in four))
            mixed = call(lambda: whole.unpack(dts) if route == 'unpack' else
                         CLASSES[c['cls'] if c['cls'] in util.STREAMS else 'ConstBitStream'](whole).readlist(dts) if route == 'readlist' else
                         CLASSES[c['cls'] if c['cls'] in util.STREAMS else 'BitStream'](whole).peeklist(dts))
            ctx.op('scaled-decode:mixed-scales-in-one-list', outcome(mixed))
            wantm = [mf.to_float(codec.decode(k)) * sc for k, sc in zip(four, scs)]
            if mixed[0] != 'ok' or len(mixed[1]) != 4 or not all(same_number(w, g) for w, g in zip(wantm, mixed[1])):
                ctx.mismatch(f'C11|scaled-decode:mixed-scales-in-one-list|{fmt}|{"raised:" + type(mixed[1]).__name__ if mixed[0] == "exc" else "value"}', c,
                             f'{c["nm"]} scales {scs} codes {four}: got {mixed[1]!r:.100} expected {wantm!r:.100}')
            else:
                ctx.ok(f'{fmt}|sdec-mixed|{route}', True)
        # ... and the plain format is still plain afterwards, also after a scaled Dtype was asked for FROM the plain Dtype object
        plain = Dtype(c['nm'])
        call(lambda: Dtype(plain, scale=scale))
        again = Dtype(c['nm'])
        back = lib_decode(route, c['cls'], fmt, c['nm'], codes[:3])
        want = [mf.to_float(codec.decode(k)) for k in codes[:3]]
        if plain.scale is not None or again.scale is not None or back[0] != 'ok' or not all(same_number(w, g) for w, g in zip(want, back[1])):
            ctx.mismatch(f'C11|plain-dtype-after-scaled-use|{fmt}|scale-stuck-to-the-plain-format', c,
                         f'{c["nm"]}: scale now {again.scale!r}, codes {codes[:3]} decode to {back[1]!r:.80} expected {want!r:.80}')
            for _, c_ in util.find_caches():
                c_.cache_clear()
            plain._set_scale(None) if hasattr(plain, '_set_scale') else None
        else:
            ctx.ok(f'{fmt}|plain-after-scaled|{route}', True)


def judge_senc(ctx, c):
    """Scaled dtype: value divided by scale, then encoded."""
    fmt, mode, x = c['fmt'], c['mode'], unhx(c['x'])
    codec = mf.CODECS[fmt]
    scale = scale_of(c['scale'])
    if c.get('xint'):
        x = int(x)          # a Python int value (with an int scale: 'divides' is still true division)
    y = x / scale
    exp = codec.encode(y, mode)
    ic = input_class(fmt, y)
    sclass = 'pow2' if mf.e8m0_encode(abs(float(scale))) is not None else 'non-pow2'
    with util.options(mxfp_overflow=mode, lsb0=False):
        d = call(lambda: Dtype(c['nm'], scale=scale))
        if d[0] == 'exc':
            ctx.mismatch(f'C11|scaled-dtype|{fmt}|raised:{type(d[1]).__name__}', c, repr(d[1])[:200])
            return
        for route in c['routes']:
            res = lib_encode(route, c['cls'], fmt, d[1], x)
            ctx.op('scaled-encode:' + route, outcome(res))
            got, problem = got_code(res, codec.nbits)
            if problem is None and codec.acceptable(exp, got):
                ctx.ok((fmt, mode, 'senc', c['scale'][1], ic, route), x != 0)
                continue
            shape = problem or code_shape(fmt, exp, got)
            mech = f'C11|scaled-encode:{route}|{fkey(fmt, mode)}:{ic}/scale-{sclass}|{shape}'
            if problem is None:
                # the division was done and the unscaled codec itself mis-encodes x/scale: that is the
                # plain encode mechanism, not one of the scaling layer
                base = got_code(lib_encode('kw', c['cls'], fmt, c['nm'], y), codec.nbits)
                if base == (got, None):
                    mech = f'C11|encode|{fkey(fmt, mode)}:{ic}|{shape}'
                elif scale != 1 and codec.acceptable(codec.encode(x, mode), got):
                    mech = mech.rsplit('|', 1)[0] + '|scale-ignored'
                elif scale != 1 and codec.acceptable(codec.encode(x * scale, mode), got):
                    mech = mech.rsplit('|', 1)[0] + '|multiplied'
            ctx.mismatch(mech, dict(c, routes=[route]),
                         f'{c["nm"]} scale={scale!r} x={x!r} (x/scale={y!r}) mode={mode} route={route}: got '
                         f'{res[1] if res[0] == "ok" else repr(res[1])[:80]} expected code {exp}')


def judge_sastype(ctx, c):
    """Array.astype to a dtype of the same format with another scale: the VALUES are converted (decoded, divided by the new scale, encoded)."""
    fmt, mode = c['fmt'], c['mode']
    codec = mf.CODECS[fmt]
    s_from, s_to = (None if c['from'] is None else scale_of(c['from'])), (None if c['to'] is None else scale_of(c['to']))
    with util.options(mxfp_overflow=mode, lsb0=False):
        d_from = Dtype(c['nm']) if s_from is None else Dtype(c['nm'], scale=s_from)
        d_to = Dtype(c['nm']) if s_to is None else Dtype(c['nm'], scale=s_to)
        codes = c['codes']
        a = Array(d_from)
        a.data = bitstring.BitArray().join(Bits(uint=k, length=codec.nbits) for k in codes)
        vals = call(a.tolist)
        if vals[0] != 'ok' or any(isinstance(v, float) and (math.isnan(v) or math.isinf(v)) for v in vals[1]):
            return
        got = call(lambda: a.astype(d_to))
        ref = call(lambda: Array(d_to, vals[1]))
        ctx.op('scaled-astype', outcome(got))
        if got[0] == 'ok' and ref[0] == 'ok' and got[1].data == ref[1].data and got[1].dtype.scale == d_to.scale:
            ctx.ok((fmt, 'sastype', c['from'] is None, c['to'] is None), True)
        elif got[0] == 'exc' and ref[0] == 'exc':
            ctx.ok((fmt, 'sastype', 'both-refuse'), True)       # a value that does not fit the target is refused by both routes
        elif got[0] != ref[0] and ref[0] == 'exc':
            ctx.mismatch(f'C11|scaled-astype|{fmt}|accepted-values-that-do-not-fit', c, f'{vals[1]!r:.80}')
        elif got[0] == 'exc':
            ctx.mismatch(f'C11|scaled-astype|{fmt}|raised:{type(got[1]).__name__}', c, f'{got[1]!s:.100}')
        else:
            ctx.mismatch(f'C11|scaled-astype|{fmt}|codes-differ-from-building-the-values-afresh', c,
                         f'{vals[1]!r:.60} -> {got[1].tolist()!r:.60}, Array(dtype, values) gives {ref[1].tolist()!r:.60}')


def judge_sauto(ctx, c):
    """Array(Dtype(fmt, scale='auto'), values): whatever scale is chosen, it is an ordinary scale from then on - the codes are
    those of building the same values with that scale given explicitly, and the items read back as decoded code x scale."""
    fmt, mode = c['fmt'], c['mode']
    vals = [unhx(v) for v in c['vals']]
    with util.options(mxfp_overflow=mode, lsb0=False):
        got = call(lambda: Array(Dtype(c['nm'], scale='auto'), vals))
        ctx.op('auto-scale', outcome(got))
        if got[0] == 'exc':
            if isinstance(got[1], (ValueError, TypeError)):
                ctx.ok((fmt, 'sauto', 'refused'), True)
            else:
                ctx.mismatch(f'C11|auto-scale|{fmt}|raised:{type(got[1]).__name__}', c, f'{got[1]!s:.100}')
            return
        a = got[1]
        sc = a.dtype.scale
        if not isinstance(sc, (int, float)) or isinstance(sc, bool) or not (sc > 0) or math.isinf(sc) or math.frexp(sc)[0] != 0.5:
            ctx.mismatch(f'C11|auto-scale|{fmt}|scale-not-a-power-of-two', c, f'{sc!r}')
            return
        ref = call(lambda: Array(Dtype(c['nm'], scale=sc), vals))
        if ref[0] != 'ok' or ref[1].data != a.data or len(a) != len(vals):
            ctx.mismatch(f'C11|auto-scale|{fmt}|codes-differ-from-explicit-scale', c,
                         f'scale {sc!r}: {a.data!s:.60} vs {(ref[1].data if ref[0] == "ok" else ref[1])!s:.60}')
            return
        plain = Array(Dtype(c['nm']), a.data).tolist()
        back = a.tolist()
        if any(not same_number(p_ * sc, b) for b, p_ in zip(back, plain)):
            ctx.mismatch(f'C11|auto-scale|{fmt}|items-not-code-value-times-scale', c, f'scale {sc!r}: {back!r:.60} vs codes {plain!r:.60}')
            return
        ctx.ok((fmt, 'sauto', len(vals), sc >= 1), True)


JUDGES = {'enc': judge_enc, 'enc16': judge_enc16, 'dec': judge_dec, 'rt': judge_rt, 'sdec': judge_sdec,
          'senc': judge_senc, 'sastype': judge_sastype, 'sauto': judge_sauto}


def judge(ctx, case):
    JUDGES[case['k']](ctx, case)


# ---- input pools -------------------------------------------------------------------------------------------------
def ulp_nb(x: float):
    return [math.nextafter(x, -math.inf), x, math.nextafter(x, math.inf)]


GLOBAL_POOL = ([65504.0, 65519.99999999999, 65520.0, 65536.0, 65504.00000000001, 65512.0, 65519.0, 65520.00000000001,
                1e5, 1e300, 1.7976931348623157e308, 5e-324, 2.2250738585072014e-308, 1e-310,
                2.0 ** -24, 2.0 ** -25, 2.0 ** -26, 6e-8, 2.0 ** -14, 2.0 ** -15, 6.097555160522461e-05,
                0.1, 1 / 3, 1.0, 1.5, 2.0, 3.3, 448.0, 464.0, 480.0, 57344.0, 61440.0, 224.0, 232.0, 240.0, 49152.0,
                53248.0, 28.0, 30.0, 7.5, 7.75, 6.0, 7.0, 0.0, math.inf]
               + ulp_nb(2.0 ** -25)[::2] + ulp_nb(65520.0)[::2] + ulp_nb(3 * 2.0 ** -25))


def mini_pool(fmt: str):
    """Deterministic boundary inputs of a minifloat format (positive; the caller adds the sign)."""
    fm = mf.MINIFLOATS[fmt]
    mags = fm.finite_magnitudes()
    quantum_top = F(2) ** (mf.floor_log2(fm.max_finite) - fm.M)
    mags = mags + [fm.max_finite + quantum_top, fm.max_finite + 2 * quantum_top]   # would-be next values
    out = []
    for a, b in zip(mags, mags[1:]):
        m = (a + b) / 2
        mfl = m.numerator / m.denominator
        if mfl > 65519 or F(mfl) != m:
            out += [float(b)] if b < 1e300 else []
            continue
        out += ulp_nb(mfl)
        # the binary16 tie points on either side of the format's tie point
        hm = mf.round_binary16(mf.fin(0, m))
        if hm[0] == 'fin' and hm[2] == m:
            i16 = mf.BINARY16._code_of[m]
            for j in (i16 - 1, i16 + 1):
                if 0 <= j < 0x7c00:
                    t = (mf.BINARY16.decode(j)[2] + m) / 2
                    out += ulp_nb(t.numerator / t.denominator)
        out += ulp_nb(float(b))[::2] if b <= 65504 else []
    return out


def mxint_pool():
    out = []
    for k in range(-300, 301):
        out += ulp_nb(k / 128)
    return out + [2.0, -2.0, 1.984375, 1.9921875, -1.9921875, -2.0078125, 5e-324, -5e-324, 1e300, -1e300, math.inf,
                  -math.inf, math.nan, 0.0, -0.0, 1.7976931348623157e308, 0.0078125, 0.00390625, -0.0078125]


def e8m0_pool():
    out = [0.0, -0.0, math.inf, -math.inf, math.nan, 3.0, -1.0, -2.0, 0.1, 1e300, 5e-324, 2.0 ** -1022]
    for k in range(-131, 131):
        p = 2.0 ** k
        out += ulp_nb(p) + [3 * p, -p, 1.5 * p]
    return out


def bfloat_pool(rng, n):
    out = [0.0, math.inf, math.nan, 3.4028234663852886e38, 3.4028235677973366e38, 3.402823669209385e38, 1e39, 1e300,
           3.3895313892515355e38, 2.0 ** -126, 2.0 ** -127, 2.0 ** -133, 2.0 ** -134, 2.0 ** -149, 2.0 ** -150,
           2.0 ** -151, 1.401298464324817e-45, 5e-324, 1.0, 1.00390625, 1.0078125, 1.0078124403953552, 0.1, 1 / 3, 65504.0]
    out += ulp_nb(3.4028235677973366e38)[::2] + ulp_nb(2.0 ** -150)[::2]
    for _ in range(n):
        e = rng.choice([-149, -140, -133, -127, -126, -125, -64, -1, 0, 1, 10, 64, 126, 127])
        b = (rng.getrandbits(7) | 0x80) * 2.0 ** (e - 7) if e > -140 else rng.getrandbits(4) * 2.0 ** -149
        u16 = 2.0 ** (max(e, -126) - 7)           # spacing of bfloat numbers here
        u32 = 2.0 ** (max(e, -126) - 23)          # spacing of binary32 numbers here
        for t in (b + u16 / 2, b + u16 - u32, b + u16 - u32 / 2, b + u32 / 2, b + 3 * u32 / 2, b + u16 / 2 + u32 / 2):
            out += ulp_nb(t)
    return out


def random_double(rng):
    r = rng.random()
    if r < 0.3:
        return struct.unpack('>d', rng.getrandbits(64).to_bytes(8, 'big'))[0]
    if r < 0.8:
        return rng.choice([-1, 1]) * math.ldexp(rng.random() + 1, rng.randint(-30, 18))
    return struct.unpack('>f', rng.getrandbits(32).to_bytes(4, 'big'))[0]


SCALES = ([['float', hx(2.0 ** k)] for k in range(-8, 0)] + [['int', 2 ** k] for k in range(0, 9)] +
          [['float', hx(2.0 ** k)] for k in (1, 3, 8)] + [['int', 3], ['int', -2], ['float', hx(3.0)]] +
          # scales whose reciprocal is not exact: dividing by them and multiplying by 1/scale differ in the last place
          [['int', 5], ['int', 7], ['int', 49], ['int', -3], ['int', 10], ['float', hx(0.1)], ['float', hx(1.1)], ['float', hx(7.3)], ['float', hx(-0.75)]])


# ---- workload ----------------------------------------------------------------------------------------------------
def directed(ctx):
    """Hand-aimed inputs every run must see (including the reproducer of the known finding)."""
    cases = []
    every = ENC_ROUTES
    for s in (1, -1):
        cases.append({'k': 'enc', 'fmt': 'mxint', 'nm': 'mxint', 'mode': 'saturate', 'cls': 'BitArray',
                      'x': hx(s * (0.5 + 2.0 ** -53) / 64), 'routes': every})        # C11-D1
        cases.append({'k': 'enc', 'fmt': 'mxint', 'nm': 'mxint8', 'mode': 'saturate', 'cls': 'Bits',
                      'x': hx(s * 126.5 / 64), 'routes': every})
        for fmt in MINI:
            for mode in MODES:
                for x in (1e300, 65520.0, math.inf, 0.0, 70000.0):
                    cases.append({'k': 'enc', 'fmt': fmt, 'nm': fmt, 'mode': mode, 'cls': 'BitStream', 'x': hx(s * x),
                                  'routes': every})
    for fmt in FORMATS:
        cases.append({'k': 'enc', 'fmt': fmt, 'nm': SPELL[fmt][-1], 'mode': 'overflow', 'cls': 'ConstBitStream',
                      'x': 'nan', 'routes': every})
    for c in cases:
        ctx.run_case(judge, c)


def model_selfcheck():
    """The oracle's own consistency (pure model; an AssertionError here is a harness fault)."""
    for fmt, codec in mf.CODECS.items():
        step = 1 if codec.nbits <= 8 else 97
        for code in range(0, codec.ncodes, step):
            v = codec.decode(code)
            if v[0] == 'nan':
                continue
            for mode in MODES:
                back = codec.encode(mf.to_float(v), mode)
                if fmt == 'e5m2mxfp' and mode == 'saturate' and v[0] == 'inf':
                    assert back in (0x7b, 0xfb)
                else:
                    assert back == code, (fmt, code, back)
    for i in range(0, 65536, 7):
        x = struct.unpack('>e', i.to_bytes(2, 'big'))[0]
        assert mf.same(mf.BINARY16.decode(i), x) and mf.round_binary16(mf.from_float(x)) == mf.from_float(x)


def run(ctx):
    rng = ctx.rng
    model_selfcheck()
    if ctx.shard == 0:
        directed(ctx)
    job = 0                                     # running index for the shard partition
    import time
    tm = ctx.extra.setdefault('section_cpu_s', {})
    t_last = [time.process_time()]

    def lap(name):
        now = time.process_time()
        tm[name] = round(tm.get(name, 0) + now - t_last[0], 2)
        t_last[0] = now

    def mine():
        nonlocal job
        job += 1
        return ctx.mine(job)

    def spell(fmt):
        return rng.choice(SPELL[fmt])

    # -- 1. every code of every format decodes to its defined value, through every route ------------------------------
    for fmt in FORMATS:
        n = mf.CODECS[fmt].ncodes
        blk = min(n, 256) if n <= 256 else BLOCK
        for bi, lo in enumerate(range(0, n, blk)):
            for ri, route in enumerate(DEC_ROUTES):
                if n > 256 and ctx.quick and route != 'prop' and (bi + ri) % 7:
                    continue
                if mine():
                    ctx.run_case(judge, {'k': 'dec', 'fmt': fmt, 'nm': spell(fmt), 'lo': lo, 'hi': min(n, lo + blk),
                                         'route': route, 'cls': rng.choice(util.CLASS_NAMES),
                                         'mode': rng.choice(MODES)})
    ctx.exhaustive['every code of every format decoded (bfloat, bfloatle: 65536 each)'] = True

    lap('1 decode every code')
    # -- 2. every binary16 input x every table ------------------------------------------------------------------------
    combos = [(fmt, mode) for fmt in MINI for mode in modes_of(fmt)]
    extra = []
    if not ctx.quick:
        extra = [(fmt, 'overflow') for fmt in MINI if len(modes_of(fmt)) == 1]
        extra += [(fmt, m) for fmt in ('mxint', 'e8m0mxfp', 'bfloat', 'bfloatle') for m in MODES]
    other_routes = [r for r in ENC_ROUTES if r != 'kw']
    for lo in range(0, 65536, BLOCK):
        for ci, (fmt, mode) in enumerate(combos + extra):
            base = {'k': 'enc16', 'fmt': fmt, 'mode': mode, 'lo': lo, 'hi': lo + BLOCK}
            if mine():
                ctx.run_case(judge, dict(base, nm=spell(fmt), route='kw', cls=rng.choice(util.CLASS_NAMES)))
            routes = other_routes if not ctx.quick else [other_routes[(lo // BLOCK + ci) % len(other_routes)]]
            for route in routes:
                if ctx.quick and (lo // BLOCK + ci) % 4:
                    continue
                if mine():
                    ctx.run_case(judge, dict(base, nm=spell(fmt), route=route, cls=rng.choice(util.CLASS_NAMES)))
    ctx.exhaustive['all 65536 binary16 inputs x 9 format/mode tables encoded (keyword route)'] = True
    if not ctx.quick:
        ctx.exhaustive['all 65536 binary16 inputs x 9 tables x every creation route; mode-insensitive formats under overflow too'] = True
    if ctx.quick:                               # the non-table formats see the binary16 grid at a stride
        for fmt in ('mxint', 'e8m0mxfp', 'bfloat', 'bfloatle'):
            for lo in range(0, 65536, BLOCK * 4):
                if mine():
                    ctx.run_case(judge, {'k': 'enc16', 'fmt': fmt, 'mode': 'saturate', 'lo': lo, 'hi': lo + BLOCK,
                                         'nm': spell(fmt), 'route': 'kw', 'cls': rng.choice(util.CLASS_NAMES)})

    lap('2 binary16 inputs x tables')
    # -- 3. decode -> re-encode -------------------------------------------------------------------------------------
    for fmt in FORMATS:
        n = mf.CODECS[fmt].ncodes
        for mode in (MODES if (mf.CODECS[fmt].mode_sensitive or not ctx.quick) else ('saturate',)):
            for lo in range(0, n, BLOCK):
                if mine():
                    ctx.run_case(judge, {'k': 'rt', 'fmt': fmt, 'nm': spell(fmt), 'mode': mode, 'lo': lo,
                                         'hi': min(n, lo + BLOCK), 'cls': rng.choice(util.CLASS_NAMES)})
    ctx.exhaustive['decode -> re-encode of every non-NaN code'] = True

    lap('3 roundtrip')
    # -- 4. sampled float64 inputs through every creation route ---------------------------------------------------------
    def enc_cases(fmt, xs, modes, routes_per_case):
        for x in xs:
            for mode in modes:
                if mine():
                    routes = ENC_ROUTES if routes_per_case is None else ['kw'] + rng.sample(other_routes, routes_per_case)
                    c = {'k': 'enc', 'fmt': fmt, 'nm': spell(fmt), 'mode': mode, 'x': hx(x), 'routes': routes,
                         'cls': rng.choice(util.CLASS_NAMES)}
                    ctx.run_case(judge, c)
                    if job % 1499 == 0:
                        ctx.sample(c)

    rpc = 2 if ctx.quick else None
    for fmt in MINI:
        pool = mini_pool(fmt) + GLOBAL_POOL
        xs = [s * x for x in pool for s in (1, -1)] + [math.nan]
        enc_cases(fmt, xs, modes_of(fmt), rpc)
    enc_cases('mxint', mxint_pool(), ('saturate',), rpc)
    enc_cases('e8m0mxfp', e8m0_pool(), ('saturate',), rpc)
    bp = bfloat_pool(random_for_pool(ctx), 40 if ctx.quick else 400)
    for fmt in ('bfloat', 'bfloatle'):
        enc_cases(fmt, [s * x for x in bp for s in (1, -1)], ('saturate',), rpc)
    # random doubles (this part differs from seed to seed)
    nrand = ctx.scale(12000, 400000)
    for _ in range(nrand):
        fmt = rng.choice(FORMATS)
        x = random_double(rng)
        if fmt == 'mxint' and rng.random() < 0.7:
            x = rng.choice([-1, 1]) * (rng.randint(0, 300) + rng.choice([0, 0.5, 0.25, rng.random()])) / 64
            x = rng.choice(ulp_nb(x))
        if fmt == 'e8m0mxfp' and rng.random() < 0.7:
            x = 2.0 ** rng.randint(-140, 140) if rng.random() < 0.8 else rng.choice(ulp_nb(2.0 ** rng.randint(-127, 127)))
        c = {'k': 'enc', 'fmt': fmt, 'nm': spell(fmt), 'mode': rng.choice(MODES), 'x': hx(x),
             'routes': ['kw', rng.choice(other_routes)], 'cls': rng.choice(util.CLASS_NAMES)}
        if _ % 9 == 4:
            c['reject'] = rng.choice(['Saturate', 'clip', 'none', '', 'OVERFLOW', 'zero', 'saturate ', 'overflow,saturate'])
        ctx.run_case(judge, c)
        if _ % 1999 == 0:
            ctx.sample(c)

    lap('4 sampled float64')
    # -- 5. scaled dtypes ---------------------------------------------------------------------------------------------
    for fmt in FORMATS:
        n = mf.CODECS[fmt].ncodes
        for si, sc in enumerate(SCALES):
            for ri, route in enumerate(S_DEC_ROUTES):
                if n > 256:                     # bfloat: a strided sample of blocks per scale and route
                    los = [((si * 7 + ri * 3 + j * 11) % 256) * 256 for j in range(1 if ctx.quick else 6)]
                else:
                    los = [0]
                for lo in los:
                    if mine():
                        ctx.run_case(judge, {'k': 'sdec', 'fmt': fmt, 'nm': spell(fmt), 'scale': sc, 'lo': lo,
                                             'hi': lo + min(n, 256), 'route': route, 'cls': rng.choice(util.CLASS_NAMES),
                                             'mode': rng.choice(MODES)})
    nsc = ctx.scale(6000, 150000)
    pools = {fmt: (mini_pool(fmt) + GLOBAL_POOL) for fmt in MINI}
    pools['mxint'] = mxint_pool()
    pools['e8m0mxfp'] = e8m0_pool()
    pools['bfloat'] = pools['bfloatle'] = bp
    for i in range(nsc):
        fmt = rng.choice(FORMATS)
        sc = rng.choice(SCALES)
        s = scale_of(sc)
        t = rng.choice(pools[fmt]) * rng.choice([1, -1]) if rng.random() < 0.7 else random_double(rng)
        x = t * s if rng.random() < 0.8 else t
        c = {'k': 'senc', 'fmt': fmt, 'nm': spell(fmt), 'mode': rng.choice(modes_of(fmt)), 'scale': sc, 'x': hx(x),
             'routes': S_ENC_ROUTES if rng.random() < 0.3 else [rng.choice(S_ENC_ROUTES)],
             'cls': rng.choice(util.CLASS_NAMES)}
        if rng.random() < 0.25:
            # integer-typed values (and, for the int scales, int / int)
            xi = rng.choice([rng.randint(-40, 40), rng.randint(-3000, 3000), int(s) * rng.randint(-8, 8) + rng.choice([0, 1, -1, int(s) // 2])])
            if fmt == 'e8m0mxfp':
                xi = abs(xi) or 1
            c['x'], c['xint'] = hx(float(xi)), True
        ctx.run_case(judge, c)
        if i % 1999 == 0:
            ctx.sample(c)
    for i in range(ctx.scale(1500, 40000)):
        fmt = rng.choice([f for f in FORMATS if mf.CODECS[f].nbits <= 8])
        codec = mf.CODECS[fmt]
        c = {'k': 'sastype', 'fmt': fmt, 'nm': spell(fmt), 'mode': rng.choice(modes_of(fmt)), 'from': rng.choice([None, None, rng.choice(SCALES)]),
             'to': rng.choice([None, rng.choice(SCALES), rng.choice(SCALES)]), 'codes': [rng.randrange(codec.ncodes) for _ in range(rng.choice([1, 2, 5]))]}
        ctx.run_case(judge, c)
    for i in range(ctx.scale(1500, 40000)):
        fmt = rng.choice(FORMATS)
        mags = [rng.choice(GLOBAL_POOL), rng.uniform(0, 10) * 2.0 ** rng.randint(-160, 160), float(rng.randint(0, 10 ** 6)), 0.0, rng.random()]
        vals = [rng.choice(mags) * rng.choice([1, -1]) for _ in range(rng.choice([1, 1, 2, 5]))]
        if rng.random() < 0.05:
            vals[rng.randrange(len(vals))] = rng.choice([math.inf, -math.inf, math.nan])
        if rng.random() < 0.02:
            vals = []
        c = {'k': 'sauto', 'fmt': fmt, 'nm': spell(fmt), 'mode': rng.choice(modes_of(fmt)), 'vals': [hx(v) for v in vals]}
        ctx.run_case(judge, c)
        if i % 499 == 0:
            ctx.sample(c)
    lap('5 scaled')


def random_for_pool(ctx):
    """The bfloat boundary pool is the same in every shard of a run (it is partitioned with ctx.mine)."""
    import random
    return random.Random(f'C11:pool:{ctx.seed}')


def replay(ctx, case):
    ctx.run_case(judge, case)
