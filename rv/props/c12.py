"""C12 - LSB0 mode is a pure index mirror of MSB0 mode."""
from __future__ import annotations

import bitstring
from bitstring import Bits

from rv import util
from rv.model import bits as M
from rv.model import codecs as K
from rv.props import _mut
from rv.util import B, CLASSES, build_operand, call, exc_matches, mk, norm_window, rb

PROP = 'C12'
SHARDS = {'quick': 4, 'thorough': 16}
RULE = ("toggle histories: an object (any of the 4 classes) receives a random sequence of steps, each preceded by "
        "setting options.lsb0 to a random value; a step is a read-only probe (index, slice with any step, find, "
        "rfind, findall, startswith, endswith, cut, whole-value interpretations, ==, hash, len, bin) or, for "
        "mutable classes, one of the mutators named in the statement; under lsb0 the expected result is "
        "rev(msb0-model(rev(operands), same positions)), under msb0 the plain model (so behaviour after "
        "switching back is judged too). plus pack/unpack/read/peek order cases. key = (mode, op, argument "
        "shape incl. sign of step, alignment, length bucket); non-trivial = lsb0 step on non-empty content")
AMBIENT = ['bytealigned']
ANCHORS = ['offset_slice_indices_lsb0', 'BitStore.getindex_lsb0', 'BitStore.getslice_lsb0',
           'BitStore.getslice_withstep_lsb0', 'BitStore.setitem_lsb0', 'BitStore.delitem_lsb0', 'BitStore.invert_lsb0',
           'Bits._find_lsb0', 'Bits._rfind_lsb0', 'Bits._findall_lsb0', 'BitArray._append_lsb0', 'BitArray._replace',
           'pack', 'Options.set_lsb0']
PROBES = ['index', 'slice', 'find', 'rfind', 'findall', 'startswith', 'endswith', 'cut', 'interp', 'eqhash']
MUTS = ['append', 'prepend', 'insert', 'overwrite', 'delitem', 'setitem_bits', 'setitem_int', 'set', 'invert',
        'reverse', 'byteswap', 'replace', 'rol', 'ror', 'ilshift', 'irshift']
REQUIRED_OPS = PROBES + MUTS + ['pack', 'unpack', 'read', 'peek', 'readlist']
MIN_EVALS = {'quick': 20000, 'thorough': 300000}
ASSUMPTIONS = ['scope is exactly the operation list of the statement (split, token-string concatenation, offsets of '
               'file/BytesIO windows under lsb0 are not judged)']


WIDTH_INTERPS = {
    4: ['e2m1mxfp', 'uint', 'int', 'hex', 'bin'],
    6: ['e3m2mxfp', 'e2m3mxfp', 'oct'],
    8: ['p3binary', 'p4binary', 'e5m2mxfp', 'e4m3mxfp', 'e8m0mxfp', 'mxint', 'uint', 'int', 'bytes'],
    16: ['bfloat', 'bfloatbe', 'bfloatle', 'bfloatne', 'float', 'floatbe', 'floatle', 'floatne', 'intbe', 'intle', 'intne', 'uintbe', 'uintle', 'uintne'],
    32: ['float', 'floatle', 'floatne', 'intle', 'uintle', 'uintne'],
    64: ['float', 'floatle', 'floatne', 'intle', 'uintne'],
}
NEEDS_LENGTH = {'uint', 'int', 'hex', 'bin', 'oct', 'float', 'floatbe', 'floatle', 'floatne', 'intbe', 'intle', 'intne', 'uintbe', 'uintle', 'uintne'}


def gen_probe(rng, m, hint=None):
    L = len(m)
    kind = rng.choice(PROBES)
    ro = lambda: rng.choice([None, None, 0, 1, L, L - 1, L // 2, -1, -L, 8, 7, 9, 16, L + 1, -L - 1])  # noqa: E731
    if kind == 'index':
        return kind, [rng.randint(-L - 2, L + 1)]
    if kind == 'slice':
        return kind, [ro(), ro(), rng.choice([None, 1, -1, 2, -2, 3, -3, 8, -8, 7, -7])]
    if kind in ('find', 'rfind', 'findall', 'startswith', 'endswith'):
        pl = rng.choice([1, 2, 3, 8, 9, 16])
        if hint and rng.random() < 0.8:
            pat_bits = hint
            edge = lambda: rng.choice([None, None, 0, 3, 8, L, L - 3, L - 8, 8192, 8195, L - 8192, L - 8189, 16384])  # noqa: E731
            return kind, [util.operand_spec(rng, pat_bits, ['Bits', 'BitArray', 'str', 'bitarray']), edge(), edge(),
                          rng.choice([None, None, 1, 2]), rng.choice([False, None, True, True])]
        if L >= pl and rng.random() < 0.7:
            k = rng.randrange(0, L - pl + 1)
            if rng.random() < 0.4:
                k = (L - pl - ((L - pl - k) // 8) * 8)  # aligned from the LSB end
                k = max(k, 0)
            p = m[k:k + pl]
        else:
            p = rb(rng, pl)
        return kind, [util.operand_spec(rng, p, ['Bits', 'BitArray', 'str', 'bitarray']), ro(), ro(),
                      rng.choice([None, None, 1, 2, 0]), rng.choice([False, False, None, True])]
    if kind == 'cut':
        return kind, [rng.choice([1, 3, 8, 9, 64]), ro(), ro(), rng.choice([None, None, 2])]
    if kind == 'interp':
        return kind, []
    return kind, []


def _same_types(a, b) -> bool:
    """True and 1 are equal but not the same result: a bit is a bool in both modes (tuples / lists element by element)."""
    if isinstance(a, (list, tuple)) and isinstance(b, (list, tuple)):
        return len(a) == len(b) and all(_same_types(x, y) for x, y in zip(a, b))
    if isinstance(a, bool) or isinstance(b, bool):
        return isinstance(a, bool) and isinstance(b, bool)
    return True


def probe(ctx, s, m, lsb0, kind, a, case):
    L = len(m)
    r_ = m[::-1]
    oba = util.get_options()[1]
    mode = 'lsb0' if lsb0 else 'msb0'

    def verdict(got, exp, shape_in, key_extra=''):
        ctx.op(kind, 'ok' if got[0] == 'ok' else type(got[1]).__name__)
        good = (got[0] == 'ok' and exp[0] == 'ok' and got[1] == exp[1] and _same_types(got[1], exp[1])) or \
               (got[0] == 'exc' and exp[0] == 'exc' and exc_matches(got[1], exp[1]))
        if good:
            ctx.ok((mode, kind, shape_in, key_extra, util.lbucket(L)), lsb0 and L > 0)
        else:
            if exp[0] == 'exc':
                shape = 'no-raise' if got[0] == 'ok' else 'wrong-exc:' + type(got[1]).__name__
            else:
                shape = 'value' if got[0] == 'ok' else 'unexpected-exc:' + type(got[1]).__name__
            gv = got[1] if got[0] == 'ok' else repr(got[1])
            ctx.mismatch(f'C12|{mode}|{kind}|{shape_in}|{shape}', case,
                         f'{kind}{a}: got {str(gv)[:100]} expected {str(exp[1])[:100]}')

    if kind == 'index':
        i = a[0]
        got = call(lambda: s[i])
        src = r_ if lsb0 else m
        exp = ('ok', src[i] == '1') if -L <= i < L else ('exc', 'IndexError')
        verdict(got, exp, 'in' if -L <= i < L else 'out')
    elif kind == 'slice':
        key = slice(*a)
        got = call(lambda: B(s[key]))
        exp = ('ok', r_[key][::-1] if lsb0 else m[key])
        verdict(got, exp, 'step<0' if (a[2] or 1) < 0 else 'step>0')
    elif kind in ('find', 'rfind', 'findall', 'startswith', 'endswith'):
        spec, st, en, cnt, ba = a
        p = spec[1]
        eff = oba if ba is None else ba
        w = norm_window(st, en, L)
        d = r_ if lsb0 else m
        pp = p[::-1] if lsb0 else p
        P = lambda: build_operand(spec)  # noqa: E731
        if kind in ('find', 'rfind'):
            got = call(lambda: getattr(s, kind)(P(), st, en, ba))
            if w is None:
                exp = ('exc', 'ValueError')
            else:
                o = M.occ(d, pp, w[0], w[1], eff)
                exp = ('ok', ((o[0] if kind == 'find' else o[-1]),) if o else ())
            if isinstance(s, bitstring.ConstBitStream) and got[0] == 'ok' and got[1] and exp[0] == 'ok' and got[1] == exp[1]:
                if s.pos != got[1][0]:
                    ctx.mismatch(f'C12|{mode}|{kind}|stream-pos-after-hit', case, f'pos={s.pos} match={got[1]}')
            verdict(got, exp, ('bytealigned' if eff else 'unaligned') + ('' if w is not None else '&bad-window'))
        elif kind == 'findall':
            got = call(lambda: list(s.findall(P(), st, en, cnt, ba)))
            if w is None:
                exp = ('exc', 'ValueError')
            else:
                o = M.occ(d, pp, w[0], w[1], eff)
                exp = ('ok', o if cnt is None else o[:cnt])
            shape_in = ('bytealigned' if eff else 'unaligned') + ('&count' if cnt is not None else '') + \
                       ('&long' if L > 8000 else '') + ('' if w is not None else '&bad-window')
            verdict(got, exp, shape_in)
        else:
            got = call(lambda: getattr(s, kind)(P(), st, en))
            if w is None:
                exp = ('exc', 'ValueError')
            elif kind == 'startswith':
                exp = ('ok', w[0] + len(p) <= w[1] and d[w[0]:w[0] + len(p)] == pp)
            else:
                exp = ('ok', w[0] + len(p) <= w[1] and d[w[1] - len(p):w[1]] == pp)
            verdict(got, exp, 'window' if w is not None else 'bad-window')
    elif kind == 'cut':
        bits, st, en, cnt = a
        w = norm_window(st, en, L)
        got = call(lambda: [B(x) for x in s.cut(bits, st, en, cnt)])
        if w is None:
            exp = ('exc', 'ValueError')
        else:
            d = r_ if lsb0 else m
            ch = M.cut_model(d, bits, w[0], w[1], cnt)
            exp = ('ok', [x[::-1] for x in ch] if lsb0 else ch)
        verdict(got, exp, 'window' if w is not None else 'bad-window')
    elif kind == 'interp':
        # whole-value interpretations, len and the stored bit order are mode-independent
        obs = [('len', lambda: len(s), L), ('bin', lambda: B(s), m), ('tobytes', lambda: s.tobytes(),
               int(m + '0' * (-L % 8), 2).to_bytes((L + 7) // 8, 'big') if L else b'')]
        if L:
            obs += [('uint', lambda: s.uint, int(m, 2)), ('int', lambda: s.int, K.bits_to_int(m, True))]
        if L % 4 == 0:
            obs.append(('hex', lambda: s.hex, K.decode('hex', m)))
        if L % 3 == 0:
            obs.append(('oct', lambda: s.oct, K.decode('oct', m)))
        if L and L % 8 == 0:
            obs += [('bytes', lambda: s.bytes, K.decode('bytes', m)), ('uintle', lambda: s.uintle, K.decode('uintle', m)),
                    ('intbe', lambda: s.intbe, K.decode('intbe', m))]
        if L in (16, 32, 64):
            obs.append(('float', lambda: s.float, K.decode('float', m)))
        for name, f, expv in obs:
            got = call(f)
            if got[0] == 'ok' and K.same_value(got[1], expv):
                ctx.ok((mode, 'interp', name), lsb0 and L > 0)
            else:
                ctx.mismatch(f'C12|{mode}|interp|{name}|value', case, f'got {got!r:.100} expected {expv!r:.100}')
        # every fixed-width interpretation of a window of the content: the value read with the option on is the value read with it off
        # (what that value should be is C02's and C11's question)
        fill = (m + '0110100110010110' * 4)
        for width, names in WIDTH_INTERPS.items():
            w = fill[:width] if L % 2 else fill[L // 2:L // 2 + width]
            t = mk(type(s), w)
            for name in names:
                with util.options(lsb0=False):
                    a0 = call(lambda: repr(getattr(t, name)))
                with util.options(lsb0=True):
                    a1 = call(lambda: repr(getattr(t, name)))
                    a2 = call(lambda: repr(bitstring.Dtype(name, width if name in NEEDS_LENGTH else None).parse(t)))
                if a0[0] == 'ok' and a1 == a0 and a2 == a0:
                    ctx.ok(('interp-modes', name), True)
                elif a0[0] == 'ok':
                    ctx.mismatch(f'C12|lsb0|interp|{name}|differs-from-msb0', case, f'{w}: msb0 {a0[1]} lsb0 property {a1[1]!s:.60} Dtype.parse {a2[1]!s:.60}')
        # the printed forms spell the stored bits from the most significant end in both modes
        for name, f in (('str', lambda: str(s)), ('repr', lambda: repr(s))):
            with util.options(lsb0=False):
                p0 = call(f)
            with util.options(lsb0=True):
                p1 = call(f)
            if p0[0] == 'ok' and p1 == p0:
                ctx.ok(('interp-modes', name, 'hex+bin' if L > 32 and L % 4 else 'plain'), True)
            else:
                ctx.mismatch(f'C12|lsb0|interp|{name}|differs-from-msb0', case, f'len {L}: msb0 {p0[1]!s:.80} lsb0 {p1[1]!s:.80}')
        ctx.op('interp')
    elif kind == 'eqhash':
        t = mk(Bits, m)
        got = call(lambda: (s == t, t == s, s != t))
        ctx.op('eqhash')
        if got == ('ok', (True, True, False)):
            ctx.ok((mode, 'eq'), lsb0 and L > 0)
        else:
            ctx.mismatch(f'C12|{mode}|eq|value', case, f'{got!r:.100}')
        if type(s).__name__ in ('Bits', 'ConstBitStream'):
            with util.options(lsb0=False):
                h0 = hash(mk(type(s), m))
            if hash(s) == h0:
                ctx.ok((mode, 'hash', L > 2000), lsb0 and L > 0)
            else:
                ctx.mismatch(f'C12|{mode}|hash|{"len>2000" if L > 2000 else "len<=2000"}|differs-from-msb0', case, '')


def episode(ctx, case, nsteps=0):
    cls = CLASSES[case['cls']]
    m = case['init']
    steps = case['steps']
    mutable = case['cls'] in util.MUTABLE
    rng = ctx.rng
    with util.options(lsb0=False, bytealigned=False):
        s = mk(cls, m)
        i = 0
        mode = False
        while True:
            if i < len(steps):
                mode, what, op, a = steps[i]
            elif i < nsteps:
                if rng.random() < 0.35:
                    mode = rng.random() < 0.7
                if mutable and rng.random() < 0.5:
                    op, a = _mut.gen_step(rng, len(m), MUTS, max_len=20000)
                    what = 'mut'
                else:
                    op, a = gen_probe(rng, m, case.get('hint'))
                    what = 'probe'
                steps.append([mode, what, op, a])
            else:
                break
            i += 1
            bitstring.options.lsb0 = mode
            if what == 'mut':
                m = _mut.judge_step(ctx, PROP + ('|lsb0' if mode else '|msb0'), s, m, op, a, case, lsb0=mode,
                                    extra_key='lsb0' if mode else 'msb0')
            else:
                probe(ctx, s, m, mode, op, a, case)
            ctx.state(mode, m if len(m) < 200 else hash(m))


# ---- pack / unpack / read order -----------------------------------------------------------------
TOK = [('uint', 5), ('int', 7), ('hex', 8), ('bin', 3), ('uint', 12), ('bool', None), ('float', 16), ('uintle', 16), ('bits', 6), ('oct', 6)]


def order_case(ctx, case):
    toks = case['tokens']
    vals = [v if not isinstance(v, dict) else bytes.fromhex(v['hex']) for v in case['values']]
    encs = [K.encode(n, l, v) for (n, l), v in zip(toks, vals)]
    fmt = ', '.join(n + (str(l) if l is not None else '') for n, l in toks)
    with util.options(lsb0=True):
        pv = [mk(Bits, v) if n == 'bits' else v for (n, _), v in zip(toks, vals)]
        # the same items in every spelling pack accepts: positional, literal, keyword value, keyword length, bare keyword name
        hows = case.get('how') or ['pos'] * len(toks)
        ptoks, pos_vals, kw = [], [], {}
        for i, ((n, l), v, e, how) in enumerate(zip(toks, pv, encs, hows)):
            plain = n + (str(l) if l is not None else '')
            if how == 'eq' and n in ('uint', 'int', 'hex', 'bin', 'oct'):
                ptoks.append(f'{n}:{l}={v}')
            elif how == 'kwval':
                ptoks.append(f'{plain}=k{i}')
                kw[f'k{i}'] = v
            elif how == 'kwlen' and l is not None:
                ptoks.append(f'{n}:n{i}')
                kw[f'n{i}'] = l
                pos_vals.append(v)
            elif how == 'bare':
                ptoks.append(f'w{i}')
                kw[f'w{i}'] = mk(Bits, e)
            else:
                ptoks.append(plain)
                pos_vals.append(v)
        pfmt = ', '.join(ptoks)
        got = call(lambda: B(bitstring.pack(pfmt, *pos_vals, **kw)))
        ctx.op('pack')
        exp = ''.join(reversed(encs))        # first token sits at the LSB end
        spelling = '+'.join(sorted(set(hows)))
        if got == ('ok', exp):
            ctx.ok(('lsb0', 'pack', len(toks), spelling))
        else:
            ctx.mismatch(f'C12|lsb0|pack|order,spelling={spelling}|value', case, f'pack({pfmt!r}): got {got!r:.120} expected {exp}')
        whole = exp
        expvals = [K.decode(n, e) for (n, _), e in zip(toks, encs)]
        for cname in ('Bits', 'BitStream', 'ConstBitStream'):
            s = mk(cname, whole)
            got = call(lambda: s.unpack(fmt))
            ctx.op('unpack')
            if got[0] == 'ok' and len(got[1]) == len(expvals) and all(K.same_value(x, y) for x, y in zip(got[1], expvals)):
                ctx.ok(('lsb0', 'unpack', cname))
            else:
                ctx.mismatch('C12|lsb0|unpack|order|value', case, f'got {got!r:.120} expected {expvals!r:.120}')
        for cname in ('BitStream', 'ConstBitStream'):
            s = mk(cname, whole)
            pos = 0
            for (n, l), e, v in zip(toks, encs, expvals):
                tok = n + (str(l) if l is not None else '')
                g1 = call(lambda: s.peek(tok))
                p_after_peek = s.pos
                g2 = call(lambda: s.read(tok))
                ctx.op('peek')
                ctx.op('read')
                pos += len(e)
                if g1[0] == 'ok' and g2[0] == 'ok' and K.same_value(g1[1], v) and K.same_value(g2[1], v) and \
                        p_after_peek == pos - len(e) and s.pos == pos:
                    ctx.ok(('lsb0', 'read', n))
                else:
                    ctx.mismatch('C12|lsb0|read|order|value-or-pos', case,
                                 f'token {tok}: peek {g1!r:.60} read {g2!r:.60} pos {s.pos} expected {v!r:.40} pos {pos}')
            s = mk(cname, whole)
            got = call(lambda: s.readlist(fmt))
            ctx.op('readlist')
            if got[0] == 'ok' and all(K.same_value(x, y) for x, y in zip(got[1], expvals)) and s.pos == len(whole):
                ctx.ok(('lsb0', 'readlist', cname))
            else:
                ctx.mismatch('C12|lsb0|readlist|order|value-or-pos', case, f'got {got!r:.120}')


def gen_order(ctx):
    rng = ctx.rng
    toks = [list(rng.choice(TOK)) for _ in range(rng.randint(1, 6))]
    vals = []
    for n, l in toks:
        v = K.rand_value(rng, n, l if l is not None else 1)
        if isinstance(v, float) and v != v:
            v = 1.5
        vals.append(v)
    how = [rng.choice(['pos', 'pos', 'eq', 'kwval', 'kwlen', 'bare']) for _ in toks] if rng.random() < 0.6 else None
    return {'tokens': toks, 'values': vals, 'how': how}


DIRECTED = [
    ('Bits', '0000011111', [[True, 'probe', 'slice', [None, None, -1]], [True, 'probe', 'slice', [8, 2, -2]],
                            [True, 'probe', 'slice', [None, None, 2]], [False, 'probe', 'slice', [None, None, -1]]]),
    ('Bits', '1' + '0' * 7 + '1111' + '0' * 4 + '1', [[True, 'probe', 'find', [['str', '1'], None, None, None, True]],
                                                      [True, 'probe', 'rfind', [['str', '1'], None, None, None, True]],
                                                      [True, 'probe', 'findall', [['str', '1'], None, None, None, True]],
                                                      [True, 'probe', 'findall', [['str', '1'], None, None, 1, True]],
                                                      [True, 'probe', 'findall', [['str', '1'], None, None, 2, False]],
                                                      [False, 'probe', 'findall', [['str', '1'], None, None, None, True]]]),
    ('BitArray', '0' * 12, [[True, 'mut', 'set', [1, {'range': [0, 12, 2]}]]]),
    ('BitArray', '0' * 12, [[True, 'mut', 'set', [1, [0, 2, 4]]], [True, 'mut', 'invert', [[0, 1]]],
                            [True, 'mut', 'setitem_int', [3, 1]], [True, 'mut', 'setitem_int', [[0, 4, None], 5]]]),
    ('BitArray', '01' * 6, [[True, 'mut', 'setitem_bits', [[5, 2, None], ['str', '111']]]]),
    ('BitArray', '01' * 6, [[True, 'mut', 'setitem_bits', [[2, 2, None], ['str', '111']]]]),
    ('BitArray', '01' * 6, [[True, 'mut', 'setitem_bits', [[None, None, -1], ['str', '110011001100']]],
                            [True, 'mut', 'delitem', [[None, None, -2]]]]),
    ('BitArray', '0011' * 6, [[True, 'mut', 'delitem', [[None, None, 2]]], [True, 'mut', 'append', [['str', '111']]],
                              [True, 'mut', 'prepend', [['str', '000']]], [True, 'mut', 'insert', [['str', '10'], 1]],
                              [True, 'mut', 'overwrite', [['str', '11'], 0]], [True, 'mut', 'reverse', [0, 4]],
                              [True, 'mut', 'rol', [1, 0, 8]], [True, 'mut', 'ilshift', [2]],
                              [False, 'mut', 'append', [['str', '1']]], [False, 'probe', 'index', [0]]]),
]


def run(ctx):
    if ctx.shard == 0:
        for cls, init, steps in DIRECTED:
            ctx.run_case(lambda c, k: episode(c, k), {'cls': cls, 'init': init, 'steps': [list(x) for x in steps]})
    # byte-periodic data searched byte-aligned for a pattern of two or three periods (occurrences that overlap by whole bytes)
    for i in range(ctx.scale(40, 600)):
        rng = ctx.rng
        unit = rng.choice(['00000000', '10101011', '11111111', util.rb(rng, 8)])
        nbytes = rng.choice([3, 4, 5, 7, 9, 16])
        data = unit * nbytes
        if rng.random() < 0.4:
            k = rng.randrange(nbytes)
            data = data[:8 * k] + util.rb(rng, 8) + data[8 * k + 8:]
        if rng.random() < 0.2:
            data = data + util.rb(rng, rng.choice([1, 3, 7]))
        pat = unit * rng.choice([2, 2, 3])
        new = rng.choice(['1' * 16, '0' * 8, '', '01' * 8])
        on = rng.random() < 0.8
        steps = [[on, 'probe', 'findall', [['str', pat], None, None, rng.choice([None, None, 1, 2]), True]],
                 [on, 'probe', rng.choice(['find', 'rfind']), [['Bits', pat], rng.choice([None, 8]), None, None, True]],
                 [on, 'mut', 'replace', [['str', pat], ['str', new], None, None, rng.choice([None, None, 1]), True]],
                 [on, 'probe', 'findall', [['str', unit], None, None, None, True]]]
        ctx.run_case(lambda c, k: episode(c, k), {'cls': rng.choice(util.MUTABLE), 'init': data, 'steps': steps})
    if ctx.shard == 0:
        # findall over data longer than the 8192-bit reverse chunk
        long = ('0' * 63 + '1') * 400
        ctx.run_case(lambda c, k: episode(c, k), {'cls': 'Bits', 'init': long, 'steps': [
            [True, 'probe', 'findall', [['str', '1'], None, None, None, False]],
            [True, 'probe', 'findall', [['str', '01'], 100, 20000, 7, False]],
            [True, 'probe', 'find', [['str', '1'], 9000, None, None, False]],
            [True, 'probe', 'rfind', [['str', '1'], None, 20000, None, False]]]})
    n = ctx.scale(48000, 500000)
    lengths = [0, 1, 7, 8, 9, 16, 17, 24, 33, 64, 65, 100, 129, 257]
    for i in range(n):
        r = ctx.rng.random()
        L = ctx.rng.choice(lengths) if r < 0.96 else ctx.rng.choice([8300, 9000, 16384, 17000, 24600])
        case = {'cls': ctx.rng.choice(util.CLASS_NAMES), 'init': util.content(ctx.rng, L), 'steps': []}
        ns = ctx.rng.randint(3, 10) if ctx.quick else ctx.rng.randint(3, 30)
        if L > 8000:
            ns = 4
            if ctx.rng.random() < 0.6:
                # almost empty data with a pattern planted next to multiples of 8192 bits counted from either end
                L += ctx.rng.choice([0, 1, 3, 5, 8])
                pl = ctx.rng.choice([8, 16, 9, 3, 12])
                pat = '1' + rb(ctx.rng, pl - 2) + '1'
                d = ['0'] * L
                edges = [b + k * 8192 for b in (0, L) for k in (-2, -1, 0, 1, 2)]
                cands = [e + dl for e in edges for dl in (-pl - 8, -pl, -9, -8, -7, -1, 0, 1, 7, 8)]
                cands = [c for c in cands if 0 <= c <= L - pl]
                for pos in ctx.rng.sample(cands, min(len(cands), ctx.rng.choice([1, 2, 3]))):
                    if ctx.rng.random() < 0.5:
                        pos = L - pl - ((L - pl - pos) // 8) * 8        # aligned when counted from the LSB end
                        pos = max(pos, 0)
                    d[pos:pos + pl] = list(pat)
                case['init'] = ''.join(d)
                case['hint'] = pat
                case['cls'] = ctx.rng.choice(['Bits', 'ConstBitStream'])
        ctx.run_case(lambda c, k: episode(c, k, ns), case)
        if i % 499 == 0:
            ctx.sample({'cls': case['cls'], 'init': case['init'][:48], 'steps': case['steps'][:5]})
    for i in range(ctx.scale(3000, 40000)):
        ctx.run_case(order_case, gen_order(ctx))
    for i in range(ctx.scale(4000, 60000)):
        ctx.run_case(deferred_case, gen_deferred(ctx))
    bitstring.options.lsb0 = False


# ---- iterators that are consumed after the object has changed --------------------------------------------------------
def gen_deferred(ctx):
    rng = ctx.rng
    L = rng.choice([9, 16, 17, 24, 40, 65])
    m = util.content(rng, L)
    pat = rng.choice(['1', '0', '10', '11', m[3:6], m[-4:]])
    edge = lambda: rng.choice([None, None, 0, 1, 3, 8, L - 1, L, -1, -3])  # noqa: E731
    mut = rng.choice([['append', rb(rng, rng.choice([1, 3, 8]))], ['prepend', rb(rng, rng.choice([1, 3, 8]))], ['insert', rb(rng, 2), rng.randrange(L)],
                      ['del', rng.randrange(L - 3), rng.choice([1, 2, 3])], ['invert'], ['overwrite', rb(rng, 3), rng.randrange(L - 3)], ['reverse']])
    return {'deferred': rng.choice(['findall', 'findall', 'cut']), 'cls': rng.choice(util.MUTABLE), 'init': m, 'pat': pat, 'start': edge(), 'end': edge(),
            'count': rng.choice([None, None, 2]), 'ba': rng.choice([False, False, True]), 'mut': mut, 'consume_first': 0}


def deferred_case(ctx, c):
    """g = s.findall(...) / s.cut(...) / s.split(...); the object is changed in place; only then is g consumed.  Whatever the library
    does in that situation in msb0 mode on the reversed operands, reversed back, is what it has to do in lsb0 mode."""
    cls = CLASSES[c['cls']]

    def run(lsb0):
        rv = (lambda b: b[::-1]) if lsb0 else (lambda b: b)          # lsb0 runs on the content itself, msb0 on the mirror image
        with util.options(lsb0=lsb0, bytealigned=False):
            s = mk(cls, c['init'] if lsb0 else c['init'][::-1])
            p = mk(Bits, c['pat'] if lsb0 else c['pat'][::-1])
            if c['deferred'] == 'findall':
                g = s.findall(p, c['start'], c['end'], c['count'], c['ba'])
            elif c['deferred'] == 'cut':
                g = s.cut(3, c['start'], c['end'], c['count'])
            else:
                g = s.split(p, c['start'], c['end'], c['count'], c['ba'])
            head = [next(g, 'end') for _ in range(c['consume_first'])]
            mu = c['mut']
            arg = mk(Bits, mu[1] if lsb0 else mu[1][::-1]) if len(mu) > 1 and isinstance(mu[1], str) else None
            if mu[0] == 'append':
                s.append(arg)
            elif mu[0] == 'prepend':
                s.prepend(arg)
            elif mu[0] == 'insert':
                s.insert(arg, mu[2])
            elif mu[0] == 'overwrite':
                s.overwrite(arg, mu[2])
            elif mu[0] == 'del':
                del s[mu[1]:mu[1] + mu[2]]
            elif mu[0] == 'invert':
                s.invert()
            else:
                s.reverse()
            rest = list(g)
            norm = lambda x: (rv(B(x)) if hasattr(x, 'bin') or hasattr(x, '_bitstore') else x)  # noqa: E731
            return [norm(x) for x in head + rest], rv(B(s))
    a, b = call(lambda: run(True)), call(lambda: run(False))
    ctx.op('deferred:' + c['deferred'], 'ok' if a[0] == 'ok' else type(a[1]).__name__)
    same = (a[0] == b[0] == 'ok' and a[1] == b[1]) or (a[0] == b[0] == 'exc' and type(a[1]) is type(b[1]))
    if same:
        ctx.ok(('deferred', c['deferred'], c['mut'][0], c['consume_first'], a[0]), True)
    else:
        ctx.mismatch(f'C12|lsb0|{c["deferred"]}-consumed-after-{c["mut"][0]}|window|differs-from-mirrored-msb0', c, f'lsb0 {a[1]!s:.90} mirrored msb0 {b[1]!s:.90}')


def replay(ctx, case):
    if 'deferred' in case:
        return ctx.run_case(deferred_case, case)
    if 'tokens' in case:
        ctx.run_case(order_case, case)
    else:
        ctx.run_case(lambda c, k: episode(c, k), case)
