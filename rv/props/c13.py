"""C13 - equality and hashing form one contract across the four classes and all construction routes.

Oracle: two bitstrings are equal exactly when their publicly reported bit strings (`len`, `.bin`)
are equal.  Every object of a case is built by its own route (bin=, hex=, oct=, bytes= with
offset/length, bytes/bytearray/memoryview/array auto, iterables, bitarray, BytesIO, slices, copies,
concatenation, mutation histories, stream reads, token strings, real files), given its own stream
position, and then compared with every other object of the case in both operand orders.

Judged per pair / triple:
  * `a == b` is the bool (bits agree); `a != b` is its negation; both operand orders agree;
  * reflexivity on every object; transitivity on the observed relation;
  * the same answers after every stream object has been moved to another position;
  * Bits / ConstBitStream: `hash` is an int, stable, equal for equal objects (all lengths incl. the
    > 2000-bit sampled branch) and unaffected by pos; set / dict / list membership agrees with ==;
  * BitArray / BitStream: `hash`, `{x}` and `{x: 1}` raise TypeError; not `collections.abc.Hashable`.
Judged per operand case (MSB0):
  * a promotable operand (token string, bytes, bytearray, memoryview, list, tuple, generator,
    truthy/falsy list, bitarray, frozenbitarray, array.array, BytesIO, open binary file) compares
    like the bitstring it denotes, in both operand orders;
  * a non-promotable operand gives False / != True in both orders and never raises;
  * an invalid token string gives False or ValueError (tolerance T8).

Only "equal => equal hash" is judged for hashes: pairs that differ only in the un-hashed middle may
collide.  Whether a route delivers the *intended* bits is C08's business: the relation is always
derived from the bits the objects themselves report, and a deviation from the intended bits is
only counted in the evidence (`route_bits_differ_from_intended`).

Mechanism keys: `C13|<op>|<input class>|<shape>` with op in eq, ne, hash, set, dict, list-membership,
eq/ne/hash-after-pos-move, construct; input class = store class of the pair (memory | file |
file-length<filesize), `len<=2000` / `len>2000` / `mutable-class` for hash-related checks,
`promotable:<str|bytes-like|file-like|iterable|bitarray>`, `non-promotable:<type category>`,
`invalid-token-str`; operand cases prefix the shape with the operand order (obj-left / obj-right).

Defect of the pinned snapshot (mechanism of C08), repaired in /repo by commit eb24d22: a Bits /
ConstBitStream created with filename=, offset 0 and a `length` shorter than the file kept the whole
mapped buffer; `BitStore.__eq__` compares the raw buffers, so the object was != to its own bits and ==
to the whole file.  The route (`file_short`) and its directed reproducer stay in every run as a
regression case; its mismatches carry the narrow input class `file-length<filesize`
(`C13|eq|file-length<filesize|false-for-equal-bits`, `C13|eq|file-length<filesize|true-for-different-bits`;
container checks are skipped for a pair whose == is already reported, so the defect produces no other
key).  The oracle follows the bits the object itself reports, so it is independent of how C08's part
of that defect (which bits such an object holds) is resolved.
"""
from __future__ import annotations

import array
import collections.abc
import decimal
import fractions
import io
import itertools
import os
import shutil
import tempfile

import bitarray
import bitstring
from bitstring import Bits, BitArray, ConstBitStream, BitStream

from rv import util
from rv.util import CLASSES, call, rb

AMBIENT = ['bytealigned', 'mxfp_overflow']      # options this property does not depend on: a quarter of the cases run with them switched
PROP = 'C13'
SHARDS = {'quick': 4, 'thorough': 16}
RULE = ("object cases: 2 or 3 objects, each = class x construction route (~40 routes incl. real files) x "
        "stream pos, contents related as equal / one bit flipped in the first 800, last 800 or the un-hashed "
        "middle / trailing or leading zero bits added (same tobytes()) / last bit dropped / complement / "
        "independent, lengths from {0,1,2,7,8,9,..,799..801,1599..1601,1999,2000,2001,2007,2008,3599,3600,"
        "3601,4096,5000,20000(,70000)}, MSB0 and LSB0; all ordered pairs are compared. operand cases: "
        "object x promotable operand kind x (equal / differing) in both operand orders; every class x "
        "non-promotable value x small content and every class x invalid token string are enumerated "
        "completely, as are all pairs of bit strings up to 3 (quick) / 5 (thorough) bits over all 16 class "
        "pairs. key = (kind, classes, routes (unordered), equal/differ) and (relation, length bucket, "
        "hashable pair?, lsb0); non-trivial = all objects non-empty and built from different specs")
ANCHORS = ['Bits.__eq__', 'Bits.__ne__', 'Bits.__hash__', 'BitStore.__eq__', 'Bits._create_from_bitstype']
REQUIRED_OPS = ['eq', 'ne', 'reflexive', 'transitive', 'hash', 'hash-mutable', 'set', 'dict', 'list-membership',
                'eq-promotable', 'ne-promotable', 'eq-nonpromotable', 'ne-nonpromotable', 'eq-badstr',
                'eq-after-pos-move', 'hash-after-pos-move']
MIN_EVALS = {'quick': 200000, 'thorough': 5000000}
ASSUMPTIONS = ['"the bits of an object" are what it reports publicly through len() and .bin',
               'equal => equal hash is the only hash requirement judged (collisions are allowed)',
               'promotable operands are judged in MSB0 mode only, where the bits they denote are unambiguous; '
               'object pairs are judged in both modes',
               'array.array operands denote their tobytes() data and open binary files their content (documented '
               'auto initialisers); memoryview / BytesIO are taken as listed in BitsType',
               'route "file_short" (filename= with length < file size; defective on the pinned snapshot, repaired by '
               '/repo commit eb24d22) is kept as a regression case with its own mechanism keys']

IMMUTABLE = ('Bits', 'ConstBitStream')
SMALL = [0, 1, 2, 7, 8, 9, 15, 16, 17, 24, 63, 64, 65]
MID = [255, 256, 257, 799, 800, 801, 1000, 1599, 1600, 1601]
THR = [1999, 2000, 2001, 2007, 2008, 2400, 3599, 3600, 3601, 4096, 5000]
RELS = ['equal', 'equal', 'equal', 'diff_first', 'diff_last', 'diff_mid', 'diff_mid', 'trail_zero', 'trail_zero',
        'lead_zero', 'prefix', 'complement', 'random']
BAD_STRINGS = ['hello', '0xzz', '0b12', 'uint:8', 'u8=300', 'float:7=1', '0o8', '0x', '0b', 'int:0=0', 'bin=2',
               'u8=-1', '=', ':', 'bool=2', '1', 'abc=1', 'u=5']
TRUTHY = [1, 2, -1, 'x', 0.5, True, [0], '0']
FALSY = [0, '', None, 0.0, False, [], 0, '']
RHS_FAMILY = {'str_bin': 'str', 'str_hex': 'str', 'str_oct': 'str', 'str_mix': 'str', 'str_uint': 'str',
              'bytes': 'bytes-like', 'bytearray': 'bytes-like', 'memoryview': 'bytes-like', 'array': 'bytes-like',
              'memoryview_cast': 'bytes-like', 'memoryview_strided': 'bytes-like', 'array_H': 'bytes-like',
              'bytesio': 'file-like', 'filehandle': 'file-like', 'bytesio_used': 'file-like', 'bytesio_written': 'file-like',
              'list': 'iterable', 'tuple': 'iterable', 'gen': 'iterable', 'truthy': 'iterable', 'truthy_iter': 'iterable',
              'bitarray': 'bitarray', 'frozenbitarray': 'bitarray',
              # instances of subclasses of the promotable built-in types stand for their base value
              'str_sub': 'str', 'str_enum': 'str', 'bytes_sub': 'bytes-like', 'bytearray_sub': 'bytes-like',
              'memoryview_ro': 'bytes-like', 'list_sub': 'iterable', 'tuple_sub': 'iterable'}


class _K:
    pass


def _fn():
    return None


def nonprom_table():
    """name -> (category used in the mechanism key, value)."""
    return {
        'int0': ('int', 0), 'int1': ('int', 1), 'int-1': ('int', -1), 'int8': ('int', 8), 'int-big': ('int', 2 ** 70),
        'int-huge': ('int', 10 ** 5000), 'int-huge-negative': ('int', -10 ** 6000),        # beyond what str() of an int is allowed to print
        'int-uint': ('int', None), 'int-len': ('int', None),
        'true': ('bool', True), 'false': ('bool', False),
        'float1': ('float', 1.0), 'float0': ('float', 0.0), 'nan': ('float', float('nan')),
        'inf': ('float', float('inf')), 'complex': ('complex', 1j), 'complex0': ('complex', 0j),
        'none': ('None', None), 'object': ('object', object()), 'instance': ('object', _K()),
        'class': ('class', _K), 'type-int': ('class', int), 'type-Bits': ('class', Bits),
        'type-BitStream': ('class', BitStream),
        'function': ('function', _fn), 'lambda': ('function', lambda: 0), 'builtin': ('function', len),
        'method': ('function', Bits(bin='1').find),
        'ellipsis': ('Ellipsis', Ellipsis), 'notimplemented': ('NotImplemented', NotImplemented),
        'fraction': ('other-number', fractions.Fraction(1)), 'decimal': ('other-number', decimal.Decimal(1)),
        'module': ('other', os), 'exception': ('other', ValueError('x')), 'slice': ('other', slice(1)),
        'dtype': ('other', bitstring.Dtype('u8')),
    }


NONPROM = nonprom_table()
NONPROM_NAMES = list(NONPROM)


# ---- scratch files ----------------------------------------------------------------------------
class _Scratch:
    def __init__(self):
        self.dir = None
        self.n = 0

    def path(self):
        if self.dir is None:
            self.dir = tempfile.mkdtemp(prefix='rv_c13_')
        self.n += 1
        return os.path.join(self.dir, f'f{self.n}.bin')

    def cleanup(self):
        if self.dir is not None:
            shutil.rmtree(self.dir, ignore_errors=True)
            self.dir = None


SCRATCH = _Scratch()


def write_file(raw: bytes, made: list) -> str:
    p = SCRATCH.path()
    with open(p, 'wb') as f:
        f.write(raw)
    made.append(p)
    return p


def drop_files(made: list) -> None:
    for p in made:
        try:
            os.unlink(p)
        except OSError:
            pass
    del made[:]


# ---- content helpers --------------------------------------------------------------------------
def to_raw(bits: str) -> bytes:
    return int(bits, 2).to_bytes(len(bits) // 8, 'big') if bits else b''


def pad8(bits: str, fill: str = '0') -> str:
    return bits + fill * (-len(bits) % 8)


def inv(bits: str) -> str:
    return bits.translate({48: 49, 49: 48})


def filler(n: int, fill: str = '1') -> str:
    return (('10' if fill == '1' else '01') * (n // 2 + 1))[:n]


def hexof(bits: str) -> str:
    return format(int(bits, 2), f'0{len(bits) // 4}x') if bits else ''


def octof(bits: str) -> str:
    return format(int(bits, 2), f'0{len(bits) // 3}o') if bits else ''


def flip(bits: str, i: int) -> str:
    return bits[:i] + ('1' if bits[i] == '0' else '0') + bits[i + 1:]


def OB(x):
    """Public observation of an object's bits."""
    n = len(x)
    return x.bin if n else ''


# ---- construction routes ----------------------------------------------------------------------
def build_obj(spec, lsb0: bool, made: list):
    """-> (object, store class).  store class: memory | file | file-length<filesize."""
    cls = CLASSES[spec['cls']]
    bits = spec['bits']
    L = len(bits)
    r = spec['route']
    a = spec.get('arg') or []
    pos = spec.get('pos')
    stream = spec['cls'] in util.STREAMS
    store = 'memory'
    if r == 'bin':
        if a and a[0] == 'ctorpos' and stream and pos is not None:
            x = cls(bin=bits, pos=pos)
        else:
            x = cls(bin=bits)
    elif r == 'hex':
        x = cls(hex=('0x' if a and a[0] else '') + hexof(bits))
    elif r == 'oct':
        x = cls(oct=octof(bits))
    elif r == 'zeros':
        x = cls(L) if (a and a[0]) else cls(length=L)
    elif r in ('bytes_kw', 'bytesio_ol'):
        off, extra, fill, uselen = a
        src = pad8(fill * off + bits, fill) + fill * (8 * extra)
        raw = to_raw(src)
        if r == 'bytes_kw':
            x = cls(bytes=raw, length=L if uselen else None, offset=off)
        else:
            x = cls(io.BytesIO(raw), length=L if uselen else None, offset=off)
    elif r == 'bitarray_kw':
        off, extra, fill, uselen = a[:4]
        ba = bitarray.bitarray(fill * off + bits + (fill * extra if uselen else ''), endian='little' if len(a) > 4 and a[4] else 'big')
        x = cls(bitarray=ba, length=L if uselen else None, offset=off)
    elif r == 'bytes_auto':
        x = cls(to_raw(bits))
    elif r == 'bytearray_auto':
        x = cls(bytearray(to_raw(bits)))
    elif r == 'memoryview_auto':
        x = cls(memoryview(to_raw(bits)))
    elif r == 'array_auto':
        x = cls(array.array('B', to_raw(bits)))
    elif r == 'bytesio_auto':
        x = cls(io.BytesIO(to_raw(bits)))
    elif r.startswith('rhs:'):
        # the auto initialiser given exactly what an operand of == would be given
        x = cls(build_rhs([r[4:], bits, L], made))
    elif r == 'list':
        x = cls([int(ch) for ch in bits])
    elif r == 'tuple':
        x = cls(tuple(ch == '1' for ch in bits))
    elif r == 'gen':
        x = cls(int(ch) for ch in bits)
    elif r == 'truthy':
        x = cls(truthy_list(bits))
    elif r == 'truthy_iter':
        x = cls(one_shot(truthy_list(bits), L))
    elif r == 'bitarray_auto':
        x = cls(bitarray.bitarray(bits))
    elif r == 'bitarray_little_auto':
        x = cls(bitarray.bitarray(bits, endian='little'))
    elif r == 'frozenbitarray_auto':
        x = cls(bitarray.frozenbitarray(bits))
    elif r == 'slice':
        pre, post = a
        big = cls(bin=filler(pre) + bits + filler(post, '0'))
        st = post if lsb0 else pre
        x = big[st:st + L]
    elif r == 'slice_step':
        x = cls(bin=''.join(ch + '1' for ch in bits))[::2]
    elif r == 'copy_from':
        x = cls(CLASSES[a[0]](bin=bits))
    elif r in ('pickle', 'deepcopy'):
        import copy
        import pickle
        pre = filler(3)
        src = cls(bin=(bits + pre) if lsb0 else (pre + bits))[3:] if L % 2 else cls(bin=bits)      # odd lengths: a slice of a longer store
        x = pickle.loads(pickle.dumps(src)) if r == 'pickle' else copy.deepcopy(src)
    elif r == 'concat':
        k = min(a[0], L)
        x = cls(bin=bits[:k]) + CLASSES[a[1]](bin=bits[k:])
    elif r == 'mutate':
        x = build_mutated(cls, bits, a)
    elif r == 'read':
        pre, post = a
        big = cls(bin=filler(pre) + bits + filler(post, '0'))
        big.pos = pre
        x = big.read(L)
    elif r == 'token_bin':
        s = ('0b' + bits) if bits else ''
        x = cls(s)
        if a and a[0]:
            x = cls(s)                      # second use: parser-cache hit
    elif r == 'token_hex':
        x = cls('0x' + hexof(bits))
    elif r == 'token_mix':
        x = cls(mix_token(bits, a[0], a[1]))
    elif r == 'token_uint':
        x = cls(f'uint:{L}={int(bits, 2)}')
    elif r.startswith('file_'):
        x, store = build_file(cls, r, bits, a, made)
    else:
        raise KeyError(r)
    if stream and pos is not None and not (r == 'bin' and a and a[0] == 'ctorpos'):
        x.pos = pos
    return x, store


def one_shot(items, style: int):
    """An iterator that can be consumed once only (iter / generator / map), over arbitrary truthy and falsy items."""
    if style % 3 == 0:
        return iter(items)
    if style % 3 == 1:
        return (x for x in items)
    return map(lambda x: x, items)


def truthy_list(bits: str):
    return [(TRUTHY if ch == '1' else FALSY)[i % 8] for i, ch in enumerate(bits)]


def mix_token(bits: str, k4: int, style: int) -> str:
    k = min(4 * k4, len(bits) - len(bits) % 4)
    parts = []
    if k:
        parts.append(('0x', '0X', 'hex=', '0x')[style % 4] + hexof(bits[:k]))
    if bits[k:]:
        parts.append(('0b', '0B', 'bin=', '0b')[style % 4] + bits[k:])
    return (', ', ',', ' ,  ', ',')[style % 4].join(parts)


def build_mutated(cls, bits, a):
    var, k = a
    L = len(bits)
    k = min(k, L)
    if L == 0:
        x = cls(bin='1')
        x.clear()
        return x
    if var == 'append':
        x = cls(bin=bits[:k])
        x.append(Bits(bin=bits[k:]))
    elif var == 'prepend':
        x = cls(bin=bits[k:])
        x.prepend(Bits(bin=bits[:k]))
    elif var == 'invert':
        x = cls(bin=inv(bits))
        x.invert()
    elif var == 'iadd':
        x = cls(bin=bits[:k])
        x += ('0b' + bits[k:]) if bits[k:] else Bits()
    elif var == 'del':
        x = cls(bin=bits[:k] + '1011' + bits[k:])
        del x[k:k + 4]
    elif var == 'setslice':
        seg = bits[k:k + 8]
        x = cls(bin=bits[:k] + inv(seg) + bits[k + 8:])
        if seg:
            x[k:k + len(seg)] = Bits(bin=seg)
    elif var == 'clear':
        x = cls(bin='1' + bits[:3])
        x.clear()
        x.append(Bits(bin=bits))
    else:
        raise KeyError(var)
    return x


def build_file(cls, r, bits, a, made):
    L = len(bits)
    if r in ('file_name', 'file_whole', 'file_off0', 'file_handle'):
        path = write_file(to_raw(bits), made)
        if r == 'file_name':
            return cls(filename=path), 'file'
        if r == 'file_whole':
            return cls(filename=path, length=L), 'file'
        if r == 'file_off0':
            return cls(filename=path, offset=0, length=L if (a and a[0]) else None), 'file'
        with open(path, 'rb') as fh:
            return cls(fh), 'file'
    if r == 'file_offset':
        off, extra, uselen = a
        src = pad8(filler(off) + bits, '1') + '1' * (8 * extra)
        path = write_file(to_raw(src), made)
        return cls(filename=path, offset=off, length=L if uselen else None), 'memory'
    if r == 'file_piece':
        # a piece of a larger file-backed object, obtained the ways a caller obtains pieces
        pre, post, how = a
        src = pad8(filler(pre) + bits + filler(post, '0'), '1')
        path = write_file(to_raw(src), made)
        big = cls(filename=path)
        if how == 'read' and hasattr(big, 'read'):
            big.pos = pre
            return big.read(L), 'file'
        if how == 'readbits' and hasattr(big, 'read'):
            big.pos = pre
            return big.read(f'bits:{L}'), 'file'
        if how == 'unpack':
            return big.unpack(f'bits:{pre}, bits:{L}')[1], 'file'
        if how == 'cut' and L:
            return next(big.cut(L, pre)), 'file'
        return big[pre:pre + L], 'file'
    if r == 'file_short':
        src = pad8(bits + filler(a[0]), '0')
        path = write_file(to_raw(src), made)
        return cls(filename=path, length=L), 'file-length<filesize'
    raise KeyError(r)


def pick_route(rng, clsname, bits, lsb0, short_ok=False):
    L = len(bits)
    c = ['bin', 'bin', 'token_bin', 'list', 'tuple', 'gen', 'truthy', 'truthy_iter', 'bitarray_auto', 'bitarray_little_auto', 'frozenbitarray_auto',
         'slice', 'slice', 'copy_from', 'pickle', 'deepcopy', 'rhs:str_sub', 'rhs:str_enum', 'rhs:list_sub', 'rhs:tuple_sub']
    if L % 4 == 0:
        c += ['hex'] + (['token_hex'] if L else [])
    if L % 3 == 0:
        c += ['oct']
    if L > 0:
        c += ['token_mix']
    if 0 < L <= 5000:
        c += ['token_uint']
    if L % 8 == 0:
        c += ['bytes_auto', 'bytearray_auto', 'memoryview_auto', 'array_auto', 'bytesio_auto', 'rhs:bytes_sub', 'rhs:bytearray_sub',
              'rhs:memoryview_ro', 'rhs:memoryview_cast', 'rhs:array_H', 'rhs:bytesio_used', 'rhs:bytesio_written']
        if L >= 8:
            c += ['file_name', 'file_whole', 'file_off0', 'file_handle']
    if not lsb0:
        c += ['bytes_kw', 'bytes_kw', 'bitarray_kw', 'bytesio_ol', 'slice_step', 'concat']
        if L > 0:
            c += ['file_offset', 'file_piece']
            if L > 30000:
                c += ['file_piece'] * 6
        if clsname in util.STREAMS:
            c += ['read']
    if clsname in util.MUTABLE:
        c += ['mutate', 'mutate']
    if L > 0 and '1' not in bits:
        c += ['zeros', 'zeros']
    if short_ok and L > 0 and rng.random() < 0.25:
        c = ['file_short']
    r = rng.choice(c)
    return r, route_arg(rng, r, L, lsb0)


def route_arg(rng, r, L, lsb0):
    if r == 'bin':
        return ['ctorpos'] if rng.random() < 0.3 else []
    if r in ('hex', 'zeros', 'token_bin', 'file_off0'):
        return [rng.randrange(2)]
    if r in ('bytes_kw', 'bytesio_ol', 'bitarray_kw'):
        off = rng.choice([0, 1, 3, 7, 8, 9, 13, 64])
        extra = rng.choice([0, 0, 1, 3])
        uselen = 1
        if extra == 0 and (r == 'bitarray_kw' or (off + L) % 8 == 0) and rng.random() < 0.5:
            uselen = 0
        return [off, extra, rng.choice('01'), uselen] + ([rng.random() < 0.4] if r == 'bitarray_kw' else [])
    if r in ('slice', 'read'):
        return [rng.choice([0, 1, 3, 8, 13]), rng.choice([0, 1, 5, 8])]
    if r == 'copy_from':
        return [rng.choice(util.CLASS_NAMES)]
    if r == 'concat':
        return [rng.choice([0, 1, L // 2, max(L - 1, 0), L, min(L, 800), min(L, 2000)]), rng.choice(util.CLASS_NAMES)]
    if r == 'mutate':
        var = 'invert' if lsb0 else rng.choice(['append', 'prepend', 'invert', 'iadd', 'del', 'setslice', 'clear'])
        return [var, rng.choice([0, 1, L // 2, max(L - 1, 0), L, min(L, 799), min(L, 1999)])]
    if r == 'token_mix':
        return [rng.choice([0, 1, 2, L // 8, L // 4]), rng.randrange(4)]
    if r == 'file_offset':
        off = rng.choice([1, 3, 7, 8, 9, 16])
        extra = rng.choice([0, 0, 2])
        uselen = 1
        if extra == 0 and (off + L) % 8 == 0 and rng.random() < 0.5:
            uselen = 0
        return [off, extra, uselen]
    if r == 'file_short':
        return [rng.choice([1, 3, 8, 9, 64])]
    if r == 'file_piece':
        return [rng.choice([0, 0, 8, 16, 13, 4096 * 8]), rng.choice([0, 1, 5, 8, 64]), rng.choice(['read', 'readbits', 'unpack', 'cut', 'slice'])]
    return []


# ---- case generation --------------------------------------------------------------------------
def pick_len(ctx):
    rng = ctx.rng
    k = rng.random()
    if k < 0.28:
        return rng.choice(SMALL)
    if k < 0.45:
        return rng.choice(MID)
    if k < (0.96 if ctx.quick else 0.92):
        return rng.choice(THR)
    return rng.choice([20000, 32771, 40003] if ctx.quick else [8193, 20000, 20000, 32768, 32771, 40003, 70000])


def related(rng, rel, L):
    """-> (rel actually used, [content a, content b])."""
    a = util.content(rng, L)
    if rel == 'equal' or (L == 0 and rel in ('diff_first', 'diff_last', 'diff_mid', 'prefix', 'complement')):
        return 'equal', [a, a]
    if rel == 'diff_mid' and L <= 1600:
        rel = 'diff_first'
    if rel == 'diff_first':
        return rel, [a, flip(a, rng.choice([0, min(L, 800) - 1, rng.randrange(min(L, 800))]))]
    if rel == 'diff_last':
        lo = max(0, L - 800)
        return rel, [a, flip(a, rng.choice([L - 1, lo, rng.randrange(lo, L)]))]
    if rel == 'diff_mid':
        return rel, [a, flip(a, rng.choice([800, L - 801, rng.randrange(800, L - 800)]))]
    if rel == 'trail_zero':
        if L % 8 == 0 and L > 0:
            a = a[:-1]
        k = rng.randint(1, 8 - len(a) % 8) if len(a) % 8 else rng.choice([1, 8])
        return rel, [a, a + '0' * k]
    if rel == 'lead_zero':
        return rel, [a, '0' * rng.choice([1, 7, 8]) + a]
    if rel == 'prefix':
        return rel, [a, a[:-1]]
    if rel == 'complement':
        return rel, [a, inv(a)]
    return 'random', [a, util.content(rng, L)]


def obj_spec(rng, bits, lsb0, short_ok=False, cls=None):
    cls = cls or rng.choice(util.CLASS_NAMES)
    r, arg = pick_route(rng, cls, bits, lsb0, short_ok)
    L = len(bits)
    s = {'cls': cls, 'route': r, 'arg': arg, 'bits': bits}
    if cls in util.STREAMS:
        cand = [0, 0, 1, L // 2, L - 1, L]
        s['pos'] = min(max(rng.choice(cand), 0), L)
        s['pos2'] = min(max(rng.choice(cand), 0), L)
    return s


def gen_objs_case(ctx):
    rng = ctx.rng
    L = pick_len(ctx)
    lsb0 = rng.random() < 0.2
    rel, contents = related(rng, rng.choice(RELS), L)
    if rng.random() < 0.45:
        contents = contents + [rng.choice(contents)]
        rng.shuffle(contents)
    # immutable classes are favoured a little so that enough pairs are hash-comparable
    objs = []
    for b in contents:
        cls = rng.choice(IMMUTABLE) if rng.random() < 0.3 else None
        objs.append(obj_spec(rng, b, lsb0, short_ok=(rng.random() < 0.04), cls=cls))
    return {'kind': 'objs', 'rel': rel, 'lsb0': lsb0, 'objs': objs}


def rhs_for(rng, bits):
    L = len(bits)
    kinds = ['str_bin', 'str_bin', 'str_mix', 'list', 'tuple', 'gen', 'truthy', 'truthy_iter', 'bitarray', 'frozenbitarray',
             'str_sub', 'str_enum', 'list_sub', 'tuple_sub']
    if L % 4 == 0 and L:
        kinds += ['str_hex', 'str_hex']
    if L % 3 == 0 and L:
        kinds += ['str_oct']
    if 0 < L <= 5000:
        kinds += ['str_uint']
    if L % 8 == 0:
        kinds += ['bytes', 'bytes', 'bytearray', 'memoryview', 'memoryview_cast', 'memoryview_strided', 'array', 'array_H', 'bytesio',
                  'bytes_sub', 'bytearray_sub', 'memoryview_ro', 'bytesio_used', 'bytesio_written']
        if L >= 8:
            kinds += ['filehandle']
    return [rng.choice(kinds), bits, rng.randrange(8)]


def gen_operand_case(ctx):
    rng = ctx.rng
    L = pick_len(ctx)
    if L > 5000:
        L = 5000
    rel, (a, b) = related(rng, rng.choice(['equal', 'equal', 'equal', 'diff_first', 'diff_last', 'diff_mid',
                                           'trail_zero', 'lead_zero', 'prefix', 'random']), L)
    if rng.random() < 0.5:
        a, b = b, a
    return {'kind': 'operand', 'rel': rel, 'obj': obj_spec(rng, a, False), 'rhs': rhs_for(rng, b)}


def build_rhs(rhs, made):
    r = _build_rhs(rhs, made)
    if type(r) is str and rhs[0] in ('str_bin', 'str_hex', 'str_oct'):
        return util._str_operand(r, rhs[1])         # what was done with this text before (util.STR_HISTORY)
    return r


def _build_rhs(rhs, made):
    kind, bits, style = rhs
    L = len(bits)
    if kind == 'str_bin':
        return (('0b', '0B', 'bin=', ' 0b')[style % 4] + bits) if bits else ('', ' ')[style % 2]
    if kind == 'str_hex':
        return ('0x', '0X', 'hex=', '0x')[style % 4] + (hexof(bits).upper() if style & 4 else hexof(bits))
    if kind == 'str_oct':
        return ('0o', 'oct=')[style % 2] + octof(bits)
    if kind == 'str_mix':
        return mix_token(bits, (0, 1, 2, L // 8)[style % 4], style // 2)
    if kind == 'str_uint':
        return ('uint:%d=%d', 'u%d=%d', 'uint%d = %d', 'uintbe:%d=%d')[style % 4 if L % 8 == 0 else style % 3] % (L, int(bits, 2))
    if kind in ('str_sub', 'str_enum'):
        text = (('0b' + bits) if bits else '') if style % 2 or L % 4 or not L else '0x' + hexof(bits)
        return util.StrSub(text) if kind == 'str_sub' else util.str_enum_member(text)
    if kind == 'bytes_sub':
        return util.BytesSub(to_raw(bits))
    if kind == 'bytearray_sub':
        return util.BytearraySub(to_raw(bits))
    if kind == 'memoryview_ro':
        return memoryview(bytearray(to_raw(bits))).toreadonly()
    if kind == 'list_sub':
        return util.ListSub(int(ch) for ch in bits)
    if kind == 'tuple_sub':
        return util.TupleSub(ch == '1' for ch in bits)
    if kind == 'bytes':
        return to_raw(bits)
    if kind == 'bytearray':
        return bytearray(to_raw(bits))
    if kind == 'memoryview':
        return memoryview(to_raw(bits))
    if kind == 'array':
        return array.array('B', to_raw(bits))
    if kind == 'memoryview_cast':
        # the same bytes seen as 2- or 4-byte items (len() of such a view counts items, not bytes)
        mv = memoryview(to_raw(bits))
        return mv.cast('I') if L % 32 == 0 and L else mv.cast('H') if L % 16 == 0 and L else mv
    if kind == 'memoryview_strided':
        # a view that is not contiguous in memory: every second byte of a longer buffer, or a buffer seen backwards
        raw = to_raw(bits)
        if style % 2:
            return memoryview(raw[::-1])[::-1]
        return memoryview(bytes(b for x in raw for b in (x, 0xa5)))[::2]
    if kind == 'array_H':
        raw = to_raw(bits)
        return array.array('H', raw) if L % 16 == 0 else array.array('B', raw)
    if kind == 'bytesio':
        return io.BytesIO(to_raw(bits))
    if kind in ('bytesio_used', 'bytesio_written'):
        return util.build_operand(['BytesIO-used' if kind == 'bytesio_used' else 'BytesIO-written', bits])
    if kind == 'list':
        return [int(ch) for ch in bits]
    if kind == 'tuple':
        return tuple(ch == '1' for ch in bits)
    if kind == 'gen':
        return (int(ch) for ch in bits)
    if kind == 'truthy':
        return truthy_list(bits)
    if kind == 'truthy_iter':
        return one_shot(truthy_list(bits), style)
    if kind == 'bitarray':
        return bitarray.bitarray(bits, endian='little') if len(bits) % 3 == 1 else bitarray.bitarray(bits)
    if kind == 'frozenbitarray':
        return bitarray.frozenbitarray(bits)
    if kind == 'filehandle':
        return open(write_file(to_raw(bits), made), 'rb')
    raise KeyError(kind)


# ---- judging ------------------------------------------------------------------------------------
def short(case):
    def cut(s):
        return s if len(s) <= 96 else s[:48] + f'...({len(s)} bits)'
    c = dict(case)
    if 'objs' in c:
        c['objs'] = [dict(o, bits=cut(o['bits'])) for o in c['objs']]
    if 'obj' in c:
        c['obj'] = dict(c['obj'], bits=cut(c['obj']['bits']))
    if 'rhs' in c:
        c['rhs'] = [c['rhs'][0], cut(c['rhs'][1])] + list(c['rhs'][2:])
    return c


def lbucket(L):
    for b in (0, 8, 800, 2000, 3600):
        if L <= b:
            return f'<={b}'
    return '>3600'


def lclass(L):
    return 'len<=2000' if L <= 2000 else 'len>2000'


STORE_RANK = {'memory': 0, 'file': 1, 'file-length<filesize': 2}


def worst(*stores):
    return max(stores, key=STORE_RANK.__getitem__)


def shape_bool(got, exp: bool):
    """None when `got` is exactly the bool `exp`, else the failure shape."""
    kind, v = got
    if kind == 'exc':
        return 'raised:' + type(v).__name__
    if type(v) is not bool:
        return 'non-bool'
    if v is exp:
        return None
    return 'false-for-equal-bits' if exp else 'true-for-different-bits'


def construct(ctx, spec, lsb0, made, case):
    got = call(lambda: build_obj(spec, lsb0, made))
    ctx.op('construct:' + spec['route'], 'ok' if got[0] == 'ok' else type(got[1]).__name__)
    if got[0] == 'exc':
        if isinstance(got[1], KeyError) and got[1].args and got[1].args[0] == spec['route']:
            raise got[1]
        ctx.mismatch(f'C13|construct|{spec["route"]}|raised:{type(got[1]).__name__}', short(case), repr(got[1])[:200])
        return None
    return got[1]


def judge_objs(ctx, c):
    lsb0 = bool(c.get('lsb0'))
    made = []
    sc = short(c)
    try:
        with util.options(lsb0=lsb0, bytealigned=False):
            built = []
            for spec in c['objs']:
                b = construct(ctx, spec, lsb0, made, c)
                if b is None:
                    return
                built.append(b)
            objs = [b[0] for b in built]
            stores = [b[1] for b in built]
            n = len(objs)
            obs = [OB(x) for x in objs]
            for spec, o in zip(c['objs'], obs):
                if o != spec['bits']:
                    d = ctx.extra.setdefault('route_bits_differ_from_intended', {})
                    k = spec['route'] + ('/lsb0' if lsb0 else '')
                    d[k] = d.get(k, 0) + 1
            hashable = [type(x).__name__ in IMMUTABLE for x in objs]
            nontrivial = all(obs) and all(c['objs'][i] != c['objs'][j] for i in range(n) for j in range(i))
            clean = True            # every == observation agreed with the oracle

            def round_(prev=None):
                """prev=None: judge against the oracle.  prev=(E, N) of the first round: judge only that
                moving the stream positions did not change any answer."""
                nonlocal clean
                tag = '' if prev is None else '-after-pos-move'
                E = [[None] * n for _ in range(n)]
                N = [[None] * n for _ in range(n)]
                for i, x in enumerate(objs):
                    ic = stores[i]
                    g1 = call(lambda: x == x)
                    g2 = call(lambda: x != x)
                    ctx.op('reflexive', 'ok' if g1[0] == 'ok' and g2[0] == 'ok' else 'exc')
                    s1, s2 = shape_bool(g1, True), shape_bool(g2, False)
                    if s1 is None and s2 is None:
                        ctx.ok(('reflexive', c['objs'][i]['cls'], c['objs'][i]['route']), bool(obs[i]), 2)
                    else:
                        ctx.mismatch(f'C13|eq|{ic}|irreflexive', sc, f'object {i}: x==x -> {g1[1]!r}, x!=x -> {g2[1]!r}')
                for i, j in itertools.permutations(range(n), 2):
                    x, y = objs[i], objs[j]
                    ic = worst(stores[i], stores[j])
                    ge = call(lambda: x == y)
                    gn = call(lambda: x != y)
                    ctx.op('eq' + tag, 'ok' if ge[0] == 'ok' else type(ge[1]).__name__)
                    ctx.op('ne' + tag, 'ok' if gn[0] == 'ok' else type(gn[1]).__name__)
                    E[i][j] = ge[1] if ge[0] == 'ok' else ('raised', type(ge[1]).__name__)
                    N[i][j] = gn[1] if gn[0] == 'ok' else ('raised', type(gn[1]).__name__)
                    if prev is not None:
                        if E[i][j] is prev[0][i][j] or E[i][j] == prev[0][i][j]:
                            ctx.ok(('eq-pos', c['objs'][i]['cls'], c['objs'][j]['cls'], bool(E[i][j])), nontrivial)
                        else:
                            ctx.mismatch(f'C13|eq-after-pos-move|{ic}|answer-depends-on-pos', sc,
                                         f'objects {i}=={j}: {prev[0][i][j]!r} before, {E[i][j]!r} after moving pos')
                        if N[i][j] is prev[1][i][j] or N[i][j] == prev[1][i][j]:
                            ctx.ok()
                        else:
                            ctx.mismatch(f'C13|ne-after-pos-move|{ic}|answer-depends-on-pos', sc,
                                         f'objects {i}!={j}: {prev[1][i][j]!r} before, {N[i][j]!r} after moving pos')
                        continue
                    exp = obs[i] == obs[j]
                    sh = shape_bool(ge, exp)
                    if sh is None:
                        a, b = c['objs'][i], c['objs'][j]
                        ctx.ok(('pair', a['cls'], b['cls'], tuple(sorted((a['route'], b['route']))), exp), nontrivial)
                        ctx.ok(('rel', c['rel'], lbucket(max(len(obs[i]), len(obs[j]))),
                                hashable[i] and hashable[j], lsb0, exp), nontrivial, 0)
                    else:
                        clean = False
                        ctx.mismatch(f'C13|eq|{ic}|{sh}', sc,
                                     f'objects {i}=={j}: got {ge[1]!r}, bits agree: {exp} (len {len(obs[i])} vs {len(obs[j])})')
                    if gn[0] == 'exc':
                        ctx.mismatch(f'C13|ne|{ic}|raised:{type(gn[1]).__name__}', sc, f'objects {i}!={j}')
                    elif type(gn[1]) is not bool:
                        ctx.mismatch(f'C13|ne|{ic}|non-bool', sc, f'objects {i}!={j} -> {gn[1]!r}')
                    elif ge[0] == 'ok' and type(ge[1]) is bool and gn[1] is ge[1]:
                        ctx.mismatch(f'C13|ne|{ic}|not-negation-of-eq', sc, f'objects {i},{j}: == {ge[1]} and != {gn[1]}')
                    else:
                        ctx.ok()
                if prev is not None:
                    return E, N
                for i, j in itertools.combinations(range(n), 2):
                    if type(E[i][j]) is bool and type(E[j][i]) is bool and E[i][j] is not E[j][i]:
                        ctx.mismatch(f'C13|eq|{worst(stores[i], stores[j])}|asymmetric', sc,
                                     f'{i}=={j}: {E[i][j]!r} but {j}=={i}: {E[j][i]!r}')
                    else:
                        ctx.ok()
                if n >= 3:
                    ctx.op('transitive')
                    for i, j, k in itertools.permutations(range(n), 3):
                        if E[i][j] is True and E[j][k] is True and E[i][k] is False:
                            ctx.mismatch(f'C13|eq|{worst(*stores)}|intransitive', sc, f'{i}=={j}=={k} but {i}!={k}')
                        else:
                            ctx.ok(('transitive', c['rel']), nontrivial)
                return E, N

            def hashes(tag, E):
                H = [None] * n
                for i, x in enumerate(objs):
                    if not hashable[i]:
                        continue
                    g = call(lambda: hash(x))
                    with util.options(lsb0=not lsb0):          # an object's hash is fixed for its lifetime, whatever options are set meanwhile
                        g2 = call(lambda: hash(x))
                    if g2 == g:
                        g2 = call(lambda: hash(x))
                    ctx.op('hash' + tag, 'ok' if g[0] == 'ok' else type(g[1]).__name__)
                    hc = stores[i] if stores[i] != 'memory' else lclass(len(obs[i]))
                    if g[0] == 'exc':
                        ctx.mismatch(f'C13|hash{tag}|{hc}|raised:{type(g[1]).__name__}', sc, f'hash(object {i})')
                    elif type(g[1]) is not int:
                        ctx.mismatch(f'C13|hash{tag}|{hc}|non-int', sc, f'hash(object {i}) -> {g[1]!r}')
                    elif g2 != g:
                        ctx.mismatch(f'C13|hash{tag}|{hc}|unstable', sc, f'hash(object {i}) twice: {g[1]} then {g2[1]}')
                    else:
                        H[i] = g[1]
                        ctx.ok()
                for i, j in itertools.combinations(range(n), 2):
                    if tag or H[i] is None or H[j] is None:
                        continue                  # after a pos move only "hash unchanged" is judged (below)
                    if obs[i] == obs[j] and E[i][j] is True and E[j][i] is True:
                        st = worst(stores[i], stores[j])
                        hc = st if st != 'memory' else lclass(len(obs[i]))
                        if H[i] == H[j]:
                            a, b = c['objs'][i], c['objs'][j]
                            ctx.ok(('hash-equal', a['cls'], b['cls'], tuple(sorted((a['route'], b['route']))),
                                    lbucket(len(obs[i]))), nontrivial)
                        else:
                            ctx.mismatch(f'C13|hash{tag}|{hc}|equal-objects-different-hash', sc,
                                         f'objects {i},{j} are == (len {len(obs[i])}) but hashes {H[i]} != {H[j]}')
                return H

            E, N = round_()
            H = hashes('', E)

            # ---- unhashable classes -----------------------------------------------------------------
            for i, x in enumerate(objs):
                if hashable[i]:
                    continue
                for what, f in (('hash', lambda: hash(x)), ('set', lambda: {x}), ('dict', lambda: {x: 1})):
                    g = call(f)
                    ctx.op('hash-mutable', 'ok' if g[0] == 'ok' else type(g[1]).__name__)
                    if g[0] == 'ok':
                        ctx.mismatch('C13|hash|mutable-class|hashable', sc, f'{what} of {type(x).__name__} did not raise')
                    elif not isinstance(g[1], TypeError):
                        ctx.mismatch(f'C13|hash|mutable-class|raised:{type(g[1]).__name__}', sc, what)
                    else:
                        ctx.ok(('unhashable', type(x).__name__, what), True)
                if isinstance(x, collections.abc.Hashable):
                    ctx.mismatch('C13|hash|mutable-class|abc-hashable', sc, type(x).__name__)
                else:
                    ctx.ok()

            # ---- containers --------------------------------------------------------------------------
            for i, j in itertools.permutations(range(n), 2):
                x, y = objs[i], objs[j]
                if type(E[i][j]) is not bool or E[i][j] is not (obs[i] == obs[j]) or E[j][i] is not E[i][j]:
                    continue                  # == itself is already reported for this pair
                exp = E[i][j]
                st = worst(stores[i], stores[j])
                g = call(lambda: (y in [x], [x].count(y), (x,).index(y) if exp else None))
                ctx.op('list-membership', 'ok' if g[0] == 'ok' else type(g[1]).__name__)
                if g == ('ok', (exp, int(exp), 0 if exp else None)):
                    ctx.ok()
                else:
                    ctx.mismatch(f'C13|list-membership|{st}|differs-from-equality', sc, f'{g[1]!r} with == {exp}')
                if not (hashable[i] and hashable[j]) or H[i] is None or H[j] is None:
                    continue
                hc = st if st != 'memory' else lclass(len(obs[i]))
                g = call(lambda: (y in {x}, y in frozenset([x]), len({x, y})))
                ctx.op('set', 'ok' if g[0] == 'ok' else type(g[1]).__name__)
                if g == ('ok', (exp, exp, 1 if exp else 2)):
                    ctx.ok(('set', exp, lbucket(len(obs[i]))), nontrivial)
                else:
                    ctx.mismatch(f'C13|set|{hc}|membership-differs-from-equality', sc, f'{g[1]!r} with == {exp}')
                g = call(lambda: ({x: 'v'}.get(y, 'absent'), y in {x: 1}, len({x: 1, y: 2}), {x: 1, y: 2}[x]))
                ctx.op('dict', 'ok' if g[0] == 'ok' else type(g[1]).__name__)
                if g == ('ok', ('v' if exp else 'absent', exp, 1 if exp else 2, 2 if exp else 1)):
                    ctx.ok(('dict', exp, lbucket(len(obs[i]))), nontrivial)
                else:
                    ctx.mismatch(f'C13|dict|{hc}|lookup-differs-from-equality', sc, f'{g[1]!r} with == {exp}')
            hs = [i for i in range(n) if hashable[i] and H[i] is not None]
            if clean and len(hs) >= 2:
                g = call(lambda: (len({objs[i] for i in hs}),
                                  [dict((objs[i], obs[i]) for i in hs)[objs[k]] == obs[k] for k in hs]))
                ctx.op('set', 'ok' if g[0] == 'ok' else type(g[1]).__name__)
                st = worst(*[stores[i] for i in hs])
                hc = st if st != 'memory' else lclass(max(len(obs[i]) for i in hs))
                if g == ('ok', (len({obs[i] for i in hs}), [True] * len(hs))):
                    ctx.ok()
                else:
                    ctx.mismatch(f'C13|set|{hc}|group-size-differs-from-distinct-bits', sc, repr(g[1])[:200])

            # ---- independence of the stream position ------------------------------------------------
            moved = False
            for spec, x in zip(c['objs'], objs):
                if spec['cls'] in util.STREAMS and spec.get('pos2') is not None and spec['pos2'] != spec.get('pos'):
                    x.pos = spec['pos2']
                    moved = True
            if moved:
                round_((E, N))
                H2 = hashes('-after-pos-move', E)
                for i in range(n):
                    if H[i] is not None and H2[i] is not None:
                        if H[i] != H2[i]:
                            hc = stores[i] if stores[i] != 'memory' else lclass(len(obs[i]))
                            ctx.mismatch(f'C13|hash-after-pos-move|{hc}|hash-depends-on-pos', sc,
                                         f'object {i}: {H[i]} then {H2[i]}')
                        else:
                            ctx.ok(('hash-pos', c['objs'][i]['cls'], lbucket(len(obs[i]))), bool(obs[i]))
            ctx.state(tuple(len(o) for o in obs), tuple(hash(o) for o in obs), lsb0)
    finally:
        drop_files(made)


def judge_operand(ctx, c):
    made, opened = [], []
    sc = short(c)
    kind = c['rhs'][0]
    ic = 'promotable:' + RHS_FAMILY[kind]
    try:
        with util.options(lsb0=False, bytealigned=False):
            b = construct(ctx, c['obj'], False, made, c)
            if b is None:
                return
            x = b[0]
            if b[1] == 'file-length<filesize':
                ic += ':' + b[1]
            xb = OB(x)
            exp = xb == c['rhs'][1]

            def R():
                r = build_rhs(c['rhs'], made)
                if kind == 'filehandle':
                    opened.append(r)
                return r
            for order in ('obj-left', 'obj-right'):
                r1, r2 = R(), R()
                if order == 'obj-left':
                    ge, gn = call(lambda: x == r1), call(lambda: x != r2)
                else:
                    ge, gn = call(lambda: r1 == x), call(lambda: r2 != x)
                ctx.op('eq-promotable', 'ok' if ge[0] == 'ok' else type(ge[1]).__name__)
                ctx.op('ne-promotable', 'ok' if gn[0] == 'ok' else type(gn[1]).__name__)
                sh = shape_bool(ge, exp)
                if sh is None:
                    ctx.ok(('operand', c['obj']['cls'], kind, order, exp, lbucket(len(xb))), bool(xb) and bool(c['rhs'][1]))
                else:
                    ctx.mismatch(f'C13|eq|{ic}|{order}:{sh}', sc, f'got {ge[1]!r}, bits agree: {exp}')
                if gn[0] == 'exc':
                    ctx.mismatch(f'C13|ne|{ic}|{order}:raised:{type(gn[1]).__name__}', sc, repr(gn[1])[:200])
                elif type(gn[1]) is not bool:
                    ctx.mismatch(f'C13|ne|{ic}|{order}:non-bool', sc, f'got {gn[1]!r}')
                elif ge[0] == 'ok' and type(ge[1]) is bool and gn[1] is ge[1]:
                    # the two operands are built identically, so != must be the negation of ==
                    ctx.mismatch(f'C13|ne|{ic}|{order}:not-negation-of-eq', sc, f'== {ge[1]!r} and != {gn[1]!r}')
                else:
                    ctx.ok()
            ctx.state('operand', len(xb), kind, exp)
    finally:
        for fh in opened:
            try:
                fh.close()
            except Exception:  # noqa: BLE001
                pass
        drop_files(made)


def judge_nonprom(ctx, c):
    cat, v = NONPROM[c['val']]
    bits = c['obj']['bits']
    if c['val'] == 'int-uint':
        v = int(bits, 2) if bits else 0
    elif c['val'] == 'int-len':
        v = len(bits)
    ic = 'non-promotable:' + cat
    with util.options(lsb0=bool(c.get('lsb0')), bytealigned=False):
        b = construct(ctx, c['obj'], bool(c.get('lsb0')), [], c)
        if b is None:
            return
        x = b[0]
        for order, fe, fn in (('obj-left', lambda: x == v, lambda: x != v),
                              ('obj-right', lambda: v == x, lambda: v != x)):
            ge, gn = call(fe), call(fn)
            ctx.op('eq-nonpromotable', 'ok' if ge[0] == 'ok' else type(ge[1]).__name__)
            ctx.op('ne-nonpromotable', 'ok' if gn[0] == 'ok' else type(gn[1]).__name__)
            sh = shape_bool(ge, False)
            if sh is None:
                ctx.ok(('nonprom', c['obj']['cls'], c['val'], order), True)
            else:
                ctx.mismatch(f'C13|eq|{ic}|{order}:{"true" if sh.startswith("true") else sh}', c, f'got {ge[1]!r}')
            sh = shape_bool(gn, True)
            if sh is None:
                ctx.ok()
            else:
                ctx.mismatch(f'C13|ne|{ic}|{order}:{"false" if sh.startswith("false") else sh}', c, f'got {gn[1]!r}')
        ctx.state('nonprom', c['val'], len(bits))


def judge_badstr(ctx, c):
    s = c['s']
    with util.options(lsb0=False, bytealigned=False):
        b = construct(ctx, c['obj'], False, [], c)
        if b is None:
            return
        x = b[0]
        for order, fe, fn in (('obj-left', lambda: x == s, lambda: x != s),
                              ('obj-right', lambda: s == x, lambda: s != x)):
            for opname, f, want in (('eq', fe, False), ('ne', fn, True)):
                g = call(f)
                ctx.op('eq-badstr', 'ok' if g[0] == 'ok' else type(g[1]).__name__)
                ctx.tolerate('T8')
                if (g[0] == 'ok' and g[1] is want) or (g[0] == 'exc' and isinstance(g[1], ValueError)):
                    ctx.ok(('badstr', c['obj']['cls'], s, order, opname, g[0]), True)
                else:
                    sh = ('raised:' + type(g[1]).__name__) if g[0] == 'exc' else f'returned-{g[1]!r}'[:40]
                    ctx.mismatch(f'C13|{opname}|invalid-token-str|{order}:{sh}', c, repr(g[1])[:200])


def judge(ctx, c):
    k = c['kind']
    if k == 'objs':
        judge_objs(ctx, c)
    elif k == 'operand':
        judge_operand(ctx, c)
    elif k == 'nonprom':
        judge_nonprom(ctx, c)
    elif k == 'badstr':
        judge_badstr(ctx, c)
    elif k == 'foreign-pickle':
        judge_foreign_pickle(ctx, c)
    elif k == 'same-file':
        judge_same_file(ctx, c)
    else:
        raise KeyError(k)


# ---- several objects over ONE file: the whole of it, its first n bits, a window further in ---------------------------------------
def judge_same_file(ctx, c):
    made = []
    try:
        with util.options(lsb0=False):
            raw = to_raw(c['bits'])
            path = write_file(raw, made)
            objs = []
            for cls, off, ln, via in c['views']:
                kw = {}
                if off is not None:
                    kw['offset'] = off
                if ln is not None:
                    kw['length'] = ln
                if via == 'handle':
                    with open(path, 'rb') as fh:
                        o = CLASSES[cls](fh, **kw)
                elif via == 'bytes':
                    o = CLASSES[cls](bytes=raw, **kw)
                else:
                    o = CLASSES[cls](filename=path, **kw)
                want = c['bits'][(off or 0):] if ln is None else c['bits'][(off or 0):(off or 0) + ln]
                objs.append((o, want, cls, via))
            for i, (x, bx, cx, vx) in enumerate(objs):
                for j, (y, by, cy, vy) in enumerate(objs):
                    exp = bx == by
                    got = call(lambda: (x == y, x != y))
                    ctx.op('eq-same-file', 'ok' if got[0] == 'ok' else type(got[1]).__name__)
                    ic = f'{"same" if i == j else "two"}-objects,{vx}/{vy},{"equal" if exp else "different"}-content'
                    if got != ('ok', (exp, not exp)):
                        ctx.mismatch(f'C13|eq-same-file|{ic}|{"raised" if got[0] == "exc" else "wrong"}', c, f'{cx}({vx}) {len(bx)} bits vs {cy}({vy}) {len(by)} bits: {got[1]!r:.60}')
                    elif exp and cx in IMMUTABLE and cy in IMMUTABLE and hash(x) != hash(y):
                        ctx.mismatch(f'C13|hash-same-file|{ic}|equal-but-hash-differs', c, f'{len(bx)} bits')
                    else:
                        ctx.ok(('same-file', vx, vy, exp, i == j), True)
    finally:
        drop_files(made)


def gen_same_file(ctx):
    rng = ctx.rng
    nbytes = rng.choice([2, 5, 8, 300])
    big = rng.random() < 0.06
    if big:
        nbytes = rng.choice([65537, 65536 + 4096, 2 * 65536 + 5])           # longer than 64 KiB: a prefix of it may stay mapped
    bits = util.content(rng, nbytes * 8)
    total = nbytes * 8
    n = rng.choice([1, 7, 8, 12, total - 1, total - 8])
    if big:
        n = rng.choice([524289, 524288 + 8, total - 8, total - 1, 524288])
    views = [[rng.choice(util.CLASS_NAMES), None, None, 'name'], [rng.choice(IMMUTABLE), None, n, 'name'], [rng.choice(IMMUTABLE), None, total, 'name'],
             [rng.choice(util.CLASS_NAMES), 0, n, 'handle'], [rng.choice(IMMUTABLE), None, n, 'bytes'], [rng.choice(IMMUTABLE), 8, None, 'name'],
             [rng.choice(IMMUTABLE), None, None, 'handle'], [rng.choice(IMMUTABLE), None, rng.choice([n, max(n - 1, 0)]), 'name']]
    return {'kind': 'same-file', 'bits': bits, 'views': views}


# ---- objects that were pickled by ANOTHER interpreter (other hash salt) ------------------------------------------------
_FOREIGN_CHILD = r'''
import sys, json, pickle, base64
import bitstring
spec = json.loads(sys.stdin.read())
out = []
for cls, bits, used in spec:
    o = getattr(bitstring, cls)(bin=bits) if bits else getattr(bitstring, cls)()
    if used:
        # the object was in use before it was saved: hashed, compared, read
        if cls in ('Bits', 'ConstBitStream'):
            {o: 1}[o]
        o == o, len(o), (o.bin if bits else '')
    out.append(base64.b64encode(pickle.dumps(o)).decode())
print(json.dumps(out))
'''


def judge_foreign_pickle(ctx, c):
    """Equal immutable bitstrings are interchangeable as dict keys and set members - also when one of them was saved by another
    process (whose string hashing has another salt) and loaded here."""
    import base64
    import json as _json
    import pickle
    import subprocess
    import sys
    root = os.path.dirname(os.path.dirname(os.path.abspath(bitstring.__file__)))
    childseed = c['childseed'] + (1 if os.environ.get('PYTHONHASHSEED') == str(c['childseed']) else 0)     # never this process's own salt
    env = dict(os.environ, PYTHONPATH=root, PYTHONHASHSEED=str(childseed))
    p = subprocess.run([sys.executable, '-c', _FOREIGN_CHILD], input=_json.dumps(c['items']), capture_output=True, text=True, timeout=120, env=env)
    if p.returncode != 0:
        ctx.mismatch('C13|foreign-pickle|child|could-not-pickle', c, p.stderr[-300:])
        return
    with util.options(lsb0=False):
        for (cls, bits, used), blob in zip(c['items'], _json.loads(p.stdout)):
            got = call(lambda: pickle.loads(base64.b64decode(blob)))
            ctx.op('unpickle-foreign', 'ok' if got[0] == 'ok' else type(got[1]).__name__)
            ic = f'{cls},{"used-before-saving" if used else "fresh"},{lclass(len(bits))}'
            if got[0] != 'ok':
                ctx.mismatch(f'C13|foreign-pickle|{ic}|unexpected-exc:{type(got[1]).__name__}', c, f'{got[1]!s:.100}')
                continue
            o = got[1]
            fresh = CLASSES[cls](bin=bits) if bits else CLASSES[cls]()
            if type(o) is not CLASSES[cls] or OB(o) != bits or not (o == fresh and fresh == o) or (o != fresh):
                ctx.mismatch(f'C13|foreign-pickle|{ic}|not-equal-to-fresh', c, f'{OB(o)[:60]} vs {bits[:60]}')
            elif cls in IMMUTABLE and (hash(o) != hash(fresh) or {fresh: 1}.get(o) != 1 or o not in {fresh}):
                ctx.mismatch(f'C13|foreign-pickle|{ic}|equal-but-hash-differs', c, f'hash {hash(o)} vs {hash(fresh)} for {len(bits)} bits')
            else:
                ctx.ok(('foreign-pickle', cls, used, lbucket(len(bits))), True)


def gen_foreign_pickle(ctx):
    rng = ctx.rng
    items = []
    for _ in range(40):
        L = rng.choice([0, 1, 7, 8, 24, 100, 2000, 2001, 4096])
        items.append([rng.choice(util.CLASS_NAMES), util.content(rng, L), rng.random() < 0.7])
    return {'kind': 'foreign-pickle', 'items': items, 'childseed': rng.choice([0, 1, 12345, 4242])}


# ---- directed and enumerated sub-spaces ---------------------------------------------------------
def O(cls, route, bits, arg=None, pos=None, pos2=None):
    s = {'cls': cls, 'route': route, 'arg': arg or [], 'bits': bits}
    if cls in util.STREAMS:
        s['pos'] = 0 if pos is None else pos
        s['pos2'] = len(bits) if pos2 is None else pos2
    return s


def directed(ctx):
    """Shapes every run must see, including the reproducer of the (repaired) file-length defect."""
    rng = ctx.rng
    cases = []
    # regression reproducer of the design-time defect: length-limited file store vs its own bits / the whole file
    for L, tail in ((9, 7), (16, 8), (2001, 7), (320, 64)):
        bits = rb(rng, L)
        for cls in util.CLASS_NAMES:
            cases.append({'kind': 'objs', 'rel': 'equal', 'lsb0': False, 'objs': [
                O(cls, 'file_short', bits, [tail]), O('Bits', 'bin', bits), O('ConstBitStream', 'file_short', bits, [tail])]})
        cases.append({'kind': 'objs', 'rel': 'prefix-of-file', 'lsb0': False, 'objs': [
            O('Bits', 'file_short', bits, [tail]), O('Bits', 'bin', pad8(bits + filler(tail), '0'))]})
    # thresholds: equal triples by three different routes, hashable classes, every listed length
    for L in [0, 1, 7, 8, 9, 1999, 2000, 2001, 3599, 3600, 3601, 5000, 20000]:
        bits = rb(rng, L)
        cases.append({'kind': 'objs', 'rel': 'equal', 'lsb0': False, 'objs': [
            O('Bits', 'bin', bits), O('ConstBitStream', 'slice', bits, [3, 5], pos=L // 2, pos2=L),
            O('Bits', 'bytes_kw', bits, [5, 1, '1', 1])]})
        cases.append({'kind': 'objs', 'rel': 'equal', 'lsb0': True, 'objs': [
            O('ConstBitStream', 'token_bin', bits, [1], pos=L, pos2=0), O('Bits', 'list', bits), O('BitArray', 'bin', bits)]})
        if L >= 8:
            b8 = bits[:L - L % 8]
            cases.append({'kind': 'objs', 'rel': 'equal', 'lsb0': False, 'objs': [
                O('Bits', 'file_name', b8), O('ConstBitStream', 'file_whole', b8, pos=1, pos2=0), O('Bits', 'bytes_auto', b8)]})
            cases.append({'kind': 'objs', 'rel': 'equal', 'lsb0': False, 'objs': [
                O('BitStream', 'file_handle', b8), O('BitArray', 'file_off0', b8, [1]), O('Bits', 'file_offset', b8, [3, 0, 1])]})
        if L > 1601:
            for i in (0, 799, 800, L - 801, L - 800, L - 1, L // 2):
                cases.append({'kind': 'objs', 'rel': 'flip', 'lsb0': False, 'objs': [
                    O('Bits', 'bin', bits), O('ConstBitStream', 'hex' if L % 4 == 0 else 'bin', flip(bits, i))]})
        if L % 8:
            cases.append({'kind': 'objs', 'rel': 'trail_zero', 'lsb0': False, 'objs': [
                O('Bits', 'bin', bits), O('Bits', 'bin', bits + '0' * (8 - L % 8)), O('ConstBitStream', 'bin', bits + '0')]})
    for cls in util.CLASS_NAMES:
        for rhs in (['str_bin', '', 0], ['str_bin', '', 1], ['list', '', 0], ['bytes', '', 0], ['str_hex', '0' * 8 + '1' * 8, 4]):
            cases.append({'kind': 'operand', 'rel': 'equal', 'obj': O(cls, 'bin', rhs[1]), 'rhs': rhs})
    for c in cases:
        ctx.run_case(judge, c)


def enumerate_nonprom(ctx):
    i = 0
    for cls in util.CLASS_NAMES:
        for name in NONPROM_NAMES:
            for bits in ('', '1', '0', '00000001', '1' * 64, '10' * 1001):
                for lsb0 in (False, True):
                    i += 1
                    if ctx.mine(i):
                        ctx.run_case(judge, {'kind': 'nonprom', 'obj': O(cls, 'bin', bits), 'val': name, 'lsb0': lsb0})
    ctx.exhaustive['class x non-promotable value x 6 contents x lsb0'] = True


def enumerate_badstr(ctx):
    i = 0
    for cls in util.CLASS_NAMES:
        for s in BAD_STRINGS:
            for bits in ('', '1', '00000001'):
                i += 1
                if ctx.mine(i):
                    ctx.run_case(judge, {'kind': 'badstr', 'obj': O(cls, 'bin', bits), 's': s})
    ctx.exhaustive['class x invalid token string x 3 contents'] = True


def enumerate_small_pairs(ctx):
    maxlen = 3 if ctx.quick else 5
    words = [''] + [format(v, f'0{n}b') for n in range(1, maxlen + 1) for v in range(2 ** n)]
    i = 0
    for ca in util.CLASS_NAMES:
        for cb in util.CLASS_NAMES:
            for a in words:
                i += 1
                if not ctx.mine(i):
                    continue
                for b in words:
                    ctx.run_case(judge, {'kind': 'objs', 'rel': 'enumerated', 'lsb0': False,
                                         'objs': [O(ca, 'bin', a, pos2=0), O(cb, 'bin', b, pos2=0)]})
    ctx.exhaustive[f'all ordered pairs of bit strings up to {maxlen} bits x 16 class pairs'] = True


def run(ctx):
    try:
        if ctx.shard == 0:
            directed(ctx)
        enumerate_nonprom(ctx)
        enumerate_badstr(ctx)
        enumerate_small_pairs(ctx)
        for _ in range(1 if ctx.quick else 3):
            ctx.run_case(judge, gen_foreign_pickle(ctx))
        for _ in range(ctx.scale(60, 1200)):
            ctx.run_case(judge, gen_same_file(ctx))
        n = ctx.scale(30000, 900000)
        for i in range(n):
            c = gen_objs_case(ctx) if ctx.rng.random() < 0.72 else gen_operand_case(ctx)
            ctx.run_case(judge, c)
            if i % 499 == 0:
                ctx.sample(short(c))
    finally:
        SCRATCH.cleanup()


def replay(ctx, case):
    try:
        ctx.run_case(judge, case)
    finally:
        SCRATCH.cleanup()
