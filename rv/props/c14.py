"""C14 - Array behaves as a list of fixed-width items over one contiguous bit buffer."""
from __future__ import annotations

import array as pyarray
import copy
import math
import operator

import bitstring
from bitstring import Array, Bits

from rv import util
from rv.model import array as A
from rv.model import codecs as K
from rv.model.bits import Expect
from rv.util import B, call, exc_matches, rb

AMBIENT = ['bytealigned']      # an option this property does not depend on: a quarter of the cases run with it switched on
PROP = 'C14'
SHARDS = {'quick': 4, 'thorough': 16}
RULE = ("(1) list programs: dtype from a pool of ~150 fixed-length dtypes (uint/int widths 1-70, le/be/ne, hex/bin/oct, "
        "bool, floats, bfloat, bitsN, bytesN, every struct code with every prefix) x item list (0-40 items) x optional "
        "trailing bits, then 6-12 (quick) / up to 40 (thorough) list operations on the same Array (get, slices with any "
        "step, item/slice assignment incl. invalid values, delete, append, extend, insert, pop, reverse, count, len, "
        "iteration, copy, equals, dtype change, direct data edits); after each step tolist, len, data.bin and "
        "trailing_bits are compared with the list/encoder model. (2) operator cases: every arithmetic/shift/bitwise/"
        "comparison operator x scalar or Array operand x dtype pairs, plain, reflected and in-place forms, against the "
        "mapped Python operator with the documented promotion. key = (dtype family, width class, op, trailing?, outcome)")
ANCHORS = ['Array.__getitem__', 'Array.__setitem__', 'Array.__delitem__', 'Array.append', 'Array.extend', 'Array.insert',
           'Array.pop', 'Array.reverse', 'Array.count', 'Array.tolist', 'Array.__iter__', 'Array.__len__', 'Array.equals',
           'Array.__copy__', 'Array._apply_op_to_all_elements', 'Array._apply_op_to_all_elements_inplace',
           'Array._apply_bitwise_op_to_all_elements_inplace', 'Array._apply_op_between_arrays', 'Array._promotetype',
           'Array._create_element', 'Array._set_dtype']
LIST_OPS = ['get', 'getslice', 'set', 'setslice', 'del', 'delslice', 'append', 'extend', 'insert', 'pop', 'reverse', 'count',
            'len', 'iter', 'copy', 'equals', 'dtype', 'data_append']
FOREIGN_QUERIES = [lambda: 2.5, lambda: -0.5, lambda: '2', lambda: ' 2', lambda: 'AB', lambda: '0xab', lambda: 'a_b', lambda: '0b101', lambda: '1 01',
                   lambda: 'True', lambda: '1', lambda: '0', lambda: True, lambda: None, lambda: [97, 98], lambda: __import__('fractions').Fraction(5, 2),
                   lambda: 1 + 0j, lambda: b'ab', lambda: 'ab', lambda: 'a', lambda: '0', lambda: 2 ** 70, lambda: '101', lambda: '7', lambda: 1.0, lambda: 0.5]
REQUIRED_OPS = LIST_OPS + ['binop-scalar', 'binop-array', 'inplace-scalar', 'bitwise', 'compare', 'unary', 'reflected']
MIN_EVALS = {'quick': 20000, 'thorough': 300000}

ALL = A.dtypes_pool()
BY_SPEC = {d.spec: d for d in ALL}
# integers too wide for a float: arithmetic with a float operand (or true division) fails inside Python, part way through the items
WIDE = [A.DT('uint1100', 'uint', 1100, 'uint'), A.DT('int1100', 'int', 1100, 'int'), A.DT('uint2048', 'uint', 2048, 'uint')]
BY_SPEC.update({d.spec: d for d in WIDE})
# byte-multiplier dtypes are broken as a whole by one recorded mechanism (unit/bit-length confusion);
# they are exercised by directed cases only so that the defect is counted once
POOL = list(ALL)
NUMERIC = [d for d in POOL if d.numeric()]
INTS = [d for d in POOL if d.family in ('uint', 'int') and d.width <= 64]


def wclass(dt):
    w = dt.width
    return 'w1' if w == 1 else 'w<8' if w < 8 else 'w%8=0' if w % 8 == 0 else 'w>8'


def snapshot(a, dt):
    """Public observation of an Array: (items, data bits, trailing bits) or the exception."""
    items = [A.norm(dt, x) for x in a.tolist()]
    return items, B(a.data), B(a.trailing_bits), len(a)


def expected_data(dt, chunks, tr):
    return ''.join(chunks) + tr


def dec_all(dt, chunks):
    return [dt.dec(c) for c in chunks]


def gen_list_step(rng, dt, L, tr):
    def ri():
        return rng.choice([0, 1, -1, L, L - 1, -L, -L - 1, L + 1, L // 2, 2, -2])

    def rs():
        return [rng.choice([None, ri()]), rng.choice([None, ri()]), rng.choice([None, None, 1, -1, 2, -2, 3, -3])]
    op = rng.choice(LIST_OPS)
    val = lambda: dt.rng_value(rng, rng.random() > 0.12, raw=True)  # noqa: E731   (values to STORE may lie beyond the format's range: its overflow rule applies)
    if op == 'get':
        return [op, ri()]
    if op == 'getslice':
        return [op, rs()]
    if op == 'set':
        return [op, ri(), val()]
    if op == 'setslice':
        s = rs()
        n = len(range(*slice(*s).indices(L)))
        k = rng.choice([n, n, n, n + 1, 0, max(n - 1, 0)])
        return [op, s, [val() for _ in range(k)], rng.choice(['list', 'list', 'tuple', 'gen', 'Array', 'Array-trailing', 'Array-scaled'])]
    if op == 'del':
        return [op, ri()]
    if op == 'delslice':
        return [op, rs()]
    if op == 'append':
        return [op, val()]
    if op == 'extend':
        kind = rng.choice(['list', 'list', 'gen', 'Array', 'str', 'tuple'])
        return [op, [val() for _ in range(rng.choice([0, 1, 3]))], kind]
    if op == 'insert':
        return [op, ri(), val()]
    if op == 'pop':
        return [op, rng.choice([None, ri()])]
    if op == 'count':
        if rng.random() < 0.3:
            return [op, ['foreign', rng.randrange(len(FOREIGN_QUERIES))]]      # something no item can be equal to - or can it?
        return [op, dt.rng_value(rng, True)]
    if op == 'dtype':
        nd = rng.choice(POOL)
        return [op, nd.spec]
    if op == 'data_append':
        return [op, rb(rng, rng.choice([1, 2, dt.width, dt.width - 1 or 1, 3]))]
    return [op]


def list_step(ctx, a, dt, m, tr, st, case):
    """Apply one list operation.  m is the model: the list of item bit-chunks (the exact bits are the
    truth, so NaN payloads survive).  Returns (dt, chunks, tr) resynchronised to the real Array."""
    op = st[0]
    L = len(m)
    old = list(m)
    m = list(m)
    exp_ret = None          # ('item', chunk) | ('items', [chunks]) | ('raw', value)
    exp_exc = None
    partial_ok = False
    new_tr = tr
    new_dt = dt
    ic = 'plain'
    act = None
    P = lambda v: A.to_py(dt, v)  # noqa: E731

    def enc(v):
        """chunk for value v, or None when v is not a valid item for this dtype"""
        try:
            return dt.enc(v)
        except Exception:  # noqa: BLE001
            return None
    try:
        if op == 'get':
            i = st[1]
            act = lambda: A.norm(dt, a[i])  # noqa: E731
            exp_ret = ('item', m[i])
        elif op == 'getslice':
            s = slice(*st[1])
            act = lambda: [A.norm(dt, x) for x in a[s].tolist()]  # noqa: E731
            exp_ret = ('items', m[s])
            ic = 'step' + ('<0' if (st[1][2] or 1) < 0 else '>0')
        elif op == 'set':
            i, v = st[1], st[2]
            act = lambda: a.__setitem__(i, P(v))  # noqa: E731
            if not -L <= i < L:
                raise IndexError
            if enc(v) is None:
                ic = 'invalid-value'
                raise ValueError
            m[i] = enc(v)
        elif op == 'setslice':
            s, vs, kind = slice(*st[1]), st[2], st[3]
            if kind.startswith('Array'):
                # the value is itself an Array of this dtype (its items are what is assigned; its trailing bits are not items)
                vs = [v for v in vs if enc(v) is not None]
            pv = [P(v) for v in vs]
            arg = pv if kind == 'list' else tuple(pv) if kind == 'tuple' else None
            if kind == 'Array-scaled' and dt.family in ('uint', 'int') and not dt.struct_code and 2 < dt.n <= 32:   # (the scaling is float arithmetic: exact up to 53 bits)
                # an Array whose dtype has the same name and length but a scale: its ITEMS (stored value times scale) are assigned
                vs = [v - v % 2 for v in vs]
                pv = list(vs)
                arg = Array(bitstring.Dtype(dt.name, dt.n, scale=2), pv)
            elif kind.startswith('Array'):
                arg = Array(dt.spec, pv, trailing_bits='0b1' if (kind == 'Array-trailing' and dt.width > 1) else None)
            act = (lambda: a.__setitem__(s, arg)) if kind != 'gen' else (lambda: a.__setitem__(s, (x for x in pv)))
            ic = 'step1' if st[1][2] in (None, 1) else 'ext'
            ch = [enc(v) for v in vs]
            bad = [j for j, c in enumerate(ch) if c is None]
            if bad:
                ic += '&invalid-value'
            if st[1][2] in (None, 1):
                if bad:
                    raise ValueError
                m[s] = ch
            else:
                n = len(range(*s.indices(L)))
                if len(vs) != n:
                    raise ValueError
                if bad:
                    partial_ok = True
                    raise ValueError
                m[s] = ch
        elif op == 'del':
            i = st[1]
            act = lambda: a.__delitem__(i)  # noqa: E731
            del m[i]
        elif op == 'delslice':
            s = slice(*st[1])
            act = lambda: a.__delitem__(s)  # noqa: E731
            del m[s]
            ic = 'step' + ('<0' if (st[1][2] or 1) < 0 else '>0')
        elif op == 'append':
            v = st[1]
            act = lambda: a.append(P(v))  # noqa: E731
            if tr:
                ic = 'trailing'
                raise ValueError
            if enc(v) is None:
                ic = 'invalid-value'
                raise ValueError
            m.append(enc(v))
        elif op == 'extend':
            vs, kind = st[1], st[2]
            if kind == 'str':
                act = lambda: a.extend('12')  # noqa: E731
                ic = 'str' + ('&trailing' if tr else '')
                raise Expect(('ValueError', 'TypeError') if tr else ('TypeError',))
            if kind == 'Array':
                vs = [v for v in vs if enc(v) is not None]
            pv = [P(v) for v in vs]
            ch = [enc(v) for v in vs]
            bad = [j for j, c in enumerate(ch) if c is None]
            if kind == 'Array':
                other = Array(dt.spec, pv)
                act = lambda: a.extend(other)  # noqa: E731
            elif kind == 'gen':
                act = lambda: a.extend(x for x in pv)  # noqa: E731
            elif kind == 'tuple':
                act = lambda: a.extend(tuple(pv))  # noqa: E731
            else:
                act = lambda: a.extend(pv)  # noqa: E731
            if tr:
                ic = 'trailing'
                raise ValueError
            if bad:
                ic = 'invalid-value'
                partial_ok = True
                raise ValueError
            m.extend(ch)
        elif op == 'insert':
            i, v = st[1], st[2]
            act = lambda: a.insert(i, P(v))  # noqa: E731
            ic = ('negative-index' if i < 0 else 'index') + ('&trailing' if tr else '')
            if enc(v) is None:
                ic += '&invalid-value'
                raise ValueError
            m.insert(i, enc(v))
        elif op == 'pop':
            i = st[1]
            act = (lambda: A.norm(dt, a.pop())) if i is None else (lambda: A.norm(dt, a.pop(i)))
            exp_ret = ('item', m.pop() if i is None else m.pop(i))
        elif op == 'reverse':
            act = lambda: a.reverse()  # noqa: E731
            if tr:
                ic = 'trailing'
                raise ValueError
            m.reverse()
        elif op == 'count' and isinstance(st[1], list) and st[1] and st[1][0] == 'foreign':
            # list model: the number of DECODED items that compare equal to the query (a query the dtype could encode is not thereby equal to an item)
            q = FOREIGN_QUERIES[st[1][1]]()
            if dt.family == 'bits' and not isinstance(q, (int, float, complex, type(None))):
                q = None        # a bitstring item compared with a str / bytes / list promotes it (or refuses it): C13's business
            act = lambda: a.count(q)  # noqa: E731
            ic = 'foreign-query'
            exp_ret = ('raw', sum(1 for x in dec_all(dt, m) if x == q))
        elif op == 'count':
            v = st[1]
            act = lambda: a.count(P(v))  # noqa: E731
            ic = 'numeric-item' if dt.numeric() or dt.family == 'bool' else 'non-numeric-item'
            dv = dec_all(dt, m)
            if isinstance(v, float) and math.isnan(v):
                exp_ret = ('raw', sum(1 for x in dv if isinstance(x, float) and math.isnan(x)))
            else:
                exp_ret = ('raw', sum(1 for x in dv if x == v))
        elif op == 'len':
            act = lambda: len(a)  # noqa: E731
            exp_ret = ('raw', L)
        elif op == 'iter':
            act = lambda: [A.norm(dt, x) for x in a]  # noqa: E731
            exp_ret = ('items', list(m))
        elif op == 'copy':
            def act():
                c = copy.copy(a)
                return (B(c.data), str(c.dtype) == str(a.dtype), c is not a, c.data is not a.data)
            exp_ret = ('raw', (expected_data(dt, m, tr), True, True, True))
        elif op == 'equals':
            def act():
                twin = Array(dt.spec)
                twin.data = bitstring.BitArray(bin=expected_data(dt, m, tr)) if (m or tr) else bitstring.BitArray()
                other = Array(dt.spec)
                other.data = twin.data + '0b1'
                return (a.equals(twin), twin.equals(a), a.equals(other), a.equals(dec_all(dt, m)))
            exp_ret = ('raw', (True, True, False, False))
        elif op == 'dtype':
            nd = BY_SPEC[st[1]]
            act = lambda: setattr(a, 'dtype', nd.spec)  # noqa: E731
            data = expected_data(dt, m, tr)
            m, new_tr = A.chunks(nd, data)
            new_dt = nd
            ic = 'to-' + nd.family
        elif op == 'data_append':
            bits = st[1]
            act = lambda: a.data.append('0b' + bits)  # noqa: E731
            m, new_tr = A.chunks(dt, expected_data(dt, m, tr) + bits)
    except IndexError:
        exp_exc = ('IndexError',)
    except ValueError:
        exp_exc = ('ValueError',)
    except TypeError:
        exp_exc = ('TypeError',)
    except Expect as ex:
        exp_exc = ex.classes
    if exp_exc is not None:
        m, new_tr, new_dt = old, tr, dt

    kind, got = call(act)
    ctx.op(op, 'ok' if kind == 'ok' else type(got).__name__)
    mech = None
    detail = ''
    odt = new_dt if kind == 'ok' else dt
    k2, snap = call(lambda: snapshot(a, odt))
    if exp_exc is not None:
        if kind == 'ok':
            mech, detail = f'C14|{op}|{ic}|no-raise', f'{dt.spec} {st!r:.80}: expected {exp_exc}'
        elif not exc_matches(got, exp_exc):
            mech, detail = f'C14|{op}|{ic}|wrong-exc:{type(got).__name__}', f'{dt.spec} {st!r:.80}: expected {exp_exc}: {got!s:.80}'
    else:
        if kind == 'exc':
            mech, detail = f'C14|{op}|{ic}|unexpected-exc:{type(got).__name__}', f'{dt.spec} {st!r:.80}: {got!s:.100}'
        elif exp_ret is not None:
            if exp_ret[0] == 'item':
                good = A.same_item(got, dt.dec(exp_ret[1]))
                shown = dt.dec(exp_ret[1])
            elif exp_ret[0] == 'items':
                shown = dec_all(dt, exp_ret[1])
                good = A.same_list(got, shown)
            else:
                shown = exp_ret[1]
                good = got == shown
            if not good:
                mech, detail = f'C14|{op}|{ic}|return', f'{dt.spec} {st!r:.80}: got {got!r:.80} expected {shown!r:.80}'
    if k2 != 'ok':
        if mech is None:
            mech, detail = f'C14|{op}|{ic}|array-unreadable-afterwards:{type(snap).__name__}', f'{dt.spec}: {snap!s:.100}'
        ctx.mismatch(mech, case, detail)
        return None
    r_items, r_data, r_tr, r_len = snap
    if mech is None:
        exp_data = expected_data(odt, m, new_tr)
        okstate = (r_data == exp_data and r_tr == new_tr and r_len == len(m) and A.same_list(r_items, dec_all(odt, m)))
        if not okstate and partial_ok and kind == 'exc':
            ctx.tolerate('T9')      # the valid prefix may be applied, or nothing
            okstate = True
        if not okstate:
            what = 'state-after-raise' if kind == 'exc' else 'state'
            mech = f'C14|{op}|{ic}|{what}'
            detail = (f'{dt.spec} {st!r:.80}: items {r_items!r:.70} model {dec_all(odt, m)!r:.70}; trailing {r_tr!r} model {new_tr!r}; '
                      f'len {r_len} model {len(m)}; data equal: {r_data == exp_data}')
    if mech:
        ctx.mismatch(mech, case, detail)
    else:
        ctx.ok((dt.family, wclass(dt), op, ic, bool(tr), 'ok' if kind == 'ok' else 'exc'), True)
    ch2, tr2 = A.chunks(odt, r_data)
    return odt, ch2, tr2


def list_program(ctx, case, nsteps=0):
    dt = BY_SPEC[case['dtype']]
    items = list(case['items'])
    tr = case['trailing']
    steps = case['steps']
    bytesd = '&bytes-dtype' if dt.family == 'bytes' else ''
    with util.options(lsb0=False):
        kind, a = call(lambda: Array(dt.spec, [A.to_py(dt, v) for v in items], trailing_bits=('0b' + tr) if tr else None))
        ctx.op('create', 'ok' if kind == 'ok' else type(a).__name__)
        if kind != 'ok':
            ctx.mismatch(f'C14|create|valid-items{bytesd}|unexpected-exc:{type(a).__name__}', case, f'{dt.spec}: {a!s:.100}')
            return
        m = [dt.enc(v) for v in items]
        k2, snap = call(lambda: snapshot(a, dt))
        if k2 != 'ok' or not A.same_list(snap[0], dec_all(dt, m)) or snap[1] != expected_data(dt, m, tr) or snap[2] != tr:
            ctx.mismatch(f'C14|create|valid-items{bytesd}|state', case, f'{dt.spec}: {snap!r:.200}')
            return
        if a.itemsize != dt.width:
            ctx.mismatch(f'C14|create|itemsize{bytesd}|value', case, f'{dt.spec}: {a.itemsize} != {dt.width}')
        ctx.ok((dt.family, wclass(dt), 'create', bool(tr)))
        i = 0
        while True:
            if i < len(steps):
                st = steps[i]
            elif i < nsteps:
                st = gen_list_step(ctx.rng, dt, len(m), tr)
                steps.append(st)
            else:
                break
            i += 1
            r = list_step(ctx, a, dt, m, tr, st, case)
            if r is None:
                return
            dt, m, tr = r
            ctx.state(dt.spec, len(m), len(tr), hash(tuple(m)))


# ---- operators -----------------------------------------------------------------------------------
BIN = {'add': operator.add, 'sub': operator.sub, 'mul': operator.mul, 'floordiv': operator.floordiv, 'mod': operator.mod,
       'lshift': operator.lshift, 'rshift': operator.rshift, 'truediv': operator.truediv}
IBIN = {'add': operator.iadd, 'sub': operator.isub, 'mul': operator.imul, 'floordiv': operator.ifloordiv, 'mod': operator.imod,
        'lshift': operator.ilshift, 'rshift': operator.irshift, 'truediv': operator.itruediv}
CMP = {'lt': operator.lt, 'le': operator.le, 'gt': operator.gt, 'ge': operator.ge, 'eq': operator.eq, 'ne': operator.ne}


def fit(dt, r):
    """Value stored for result r in dtype dt, or raise Expect (does not fit)."""
    if dt.family in ('uint', 'int'):
        if isinstance(r, float):
            if math.isnan(r) or math.isinf(r):
                raise Expect(('ValueError', 'OverflowError'))
            if r != int(r):
                r = int(r)          # T13: truncation toward zero
            else:
                r = int(r)
        dt.enc(r)
        return r
    if dt.family == 'float':
        return K.decode(dt.name, K.encode(dt.name, dt.n, float(r)))
    raise Expect('ValueError')


def map_op(op, items, val_of, res_dt):
    out = []
    for j, x in enumerate(items):
        try:
            r = op(x, val_of(j))
        except OverflowError:
            raise Expect(('ValueError', 'OverflowError'))       # Python's own 'int too large to convert to float'
        except (ZeroDivisionError, ValueError):
            raise Expect('ValueError')
        except TypeError:
            raise Expect('TypeError')
        try:
            out.append(fit(res_dt, r))
        except OverflowError:
            raise Expect(('ValueError', 'OverflowError'))
    return out


def op_case(ctx, c):
    dt = BY_SPEC[c['dtype']]
    items = c['items']
    kind = c['kind']
    opn = c['op']
    with util.options(lsb0=False):
        a = Array(dt.spec, items)
        before = B(a.data)

        def verdict(got, exp, what, ic='plain'):
            ctx.op(what, 'ok' if got[0] == 'ok' else type(got[1]).__name__)
            fam = dt.family
            if exp[0] == 'exc':
                if got[0] == 'ok':
                    ctx.mismatch(f'C14|{what}:{opn}|{ic}|no-raise', c, f'expected {exp[1]} got {got[1]!r:.80}')
                    return False
                if not exc_matches(got[1], exp[1]):
                    ctx.mismatch(f'C14|{what}:{opn}|{ic}|wrong-exc:{type(got[1]).__name__}', c, f'expected {exp[1]}: {got[1]!s:.80}')
                    return False
            else:
                if got[0] == 'exc':
                    ctx.mismatch(f'C14|{what}:{opn}|{ic}|unexpected-exc:{type(got[1]).__name__}', c, f'{got[1]!s:.100} expected {exp[1]!r:.60}')
                    return False
                g_dt, g_items = got[1]
                e_dt, e_items = exp[1]
                if (e_dt is not None and g_dt != e_dt) or not A.same_list(g_items, e_items):
                    ctx.mismatch(f'C14|{what}:{opn}|{ic}|value', c, f'got {got[1]!r:.90} expected {exp[1]!r:.90}')
                    return False
            ctx.ok((dt.family, wclass(dt), what, opn, ic, exp[0]), bool(items))
            return True

        def desc(z, inplace=False):
            d = (str(z.dtype), z.tolist())
            if not inplace and isinstance(z, Array):
                # the result of a (non-in-place) operator is a new Array: changing it must not reach the operand
                if z is a:
                    ctx.mismatch(f'C14|{kind}:{opn}|any|result-is-the-operand-itself', c, '')
                else:
                    snap = B(a.data)
                    if len(z.data):
                        z.data.invert()
                    z.data.append('0b1')
                    if B(a.data) != snap:
                        ctx.mismatch(f'C14|{kind}:{opn}|any|result-shares-data-with-operand', c, '')
            return d

        if kind == 'scalar':
            val = c['val']
            op = BIN[opn]
            try:
                exp = ('ok', (str(Array(dt.spec).dtype), map_op(op, items, lambda j: val, dt)))
            except Expect as ex:
                exp = ('exc', ex.classes)
            got = call(lambda: desc(op(a, val)))
            verdict(got, exp, 'binop-scalar')
            if B(a.data) != before:
                ctx.mismatch(f'C14|binop-scalar:{opn}|plain|operand-changed', c, '')
            # in place
            b = Array(dt.spec, items)
            iop = IBIN[opn]

            def inplace():
                x = iop(b, val)
                return (str(x.dtype), x.tolist()), x is b
            got2 = call(inplace)
            if exp[0] == 'ok':
                ok = got2[0] == 'ok' and got2[1][1] and A.same_list(got2[1][0][1], exp[1][1])
                ctx.op('inplace-scalar', 'ok' if got2[0] == 'ok' else type(got2[1]).__name__)
                if not ok:
                    ctx.mismatch(f'C14|inplace-scalar:{opn}|plain|value-or-identity', c, f'{got2!r:.120} expected {exp[1]!r:.80}')
                else:
                    ctx.ok((dt.family, 'inplace', opn))
            else:
                ctx.op('inplace-scalar', 'ok' if got2[0] == 'ok' else type(got2[1]).__name__)
                if got2[0] == 'ok' or not exc_matches(got2[1], exp[1]):
                    ctx.mismatch(f'C14|inplace-scalar:{opn}|failing|no-raise-or-wrong-exc', c, f'{got2!r:.100}')
                elif not A.same_list(b.tolist(), items) or B(b.data) != before:
                    ctx.mismatch(f'C14|inplace-scalar:{opn}|failing|array-changed', c, f'{b.tolist()!r:.80}')
                else:
                    ctx.ok((dt.family, 'inplace-fail', opn))
            # reflected forms
            if opn in ('add', 'mul', 'sub') and not isinstance(val, float) or opn in ('add', 'mul'):
                try:
                    if opn == 'sub':
                        e_items = map_op(lambda x, v: v - x, items, lambda j: val, dt)
                    else:
                        e_items = map_op(lambda x, v: op(v, x), items, lambda j: val, dt)
                    exp_r = ('ok', (None, e_items))
                except Expect as ex:
                    exp_r = ('exc', ex.classes)
                got = call(lambda: desc(op(val, a)))
                verdict(got, exp_r, 'reflected', ('unsigned' if dt.family == 'uint' else 'signed') if opn == 'sub' else 'plain')
        elif kind == 'array':
            dt2 = BY_SPEC[c['dtype2']]
            items2 = c['items2']
            other = Array(dt2.spec, items2)
            op = BIN[opn]
            try:
                if len(items) != len(items2):
                    raise Expect('ValueError')
                res = A.promote(dt, dt2)
                exp = ('ok', (str(Array(res.spec).dtype), map_op(op, items, lambda j: items2[j], res)))
            except Expect as ex:
                exp = ('exc', ex.classes)
            got = call(lambda: desc(op(a, other)))
            verdict(got, exp, 'binop-array', 'same-len' if len(items) == len(items2) else 'len-mismatch')
            if B(a.data) != before:
                ctx.mismatch(f'C14|binop-array:{opn}|plain|operand-changed', c, '')
        elif kind == 'bitwise':
            vbits = c['val']
            f = {'and': operator.and_, 'or': operator.or_, 'xor': operator.xor}[opn]
            fi = {'and': operator.iand, 'or': operator.ior, 'xor': operator.ixor}[opn]
            from rv.model import bits as M
            if len(vbits) != dt.width:
                exp = ('exc', ('ValueError',))
            else:
                chunks = [dt.enc(x) for x in items]
                exp = ('ok', (None, [dt.dec(M.bitop(ch, vbits, opn)) for ch in chunks]))
            v = util.build_operand(c['valspec'])
            got = call(lambda: desc(f(a, v)))
            verdict(got, exp, 'bitwise', 'len-ok' if len(vbits) == dt.width else 'len-bad')
            if B(a.data) != before:
                ctx.mismatch(f'C14|bitwise:{opn}|plain|operand-changed', c, '')

            def mask_now():
                if isinstance(v, str):
                    return B(bitstring.Bits(v))        # what the same token string means now
                return v.to01() if hasattr(v, 'to01') else B(v)
            if mask_now() != vbits:
                ctx.mismatch(f'C14|bitwise:{opn}|{"many" if len(items) >= 16 else "few"}-items|mask-operand-changed', c,
                             f'{c["valspec"][0]} mask {vbits} is now {mask_now()[:60]}')
            b = Array(dt.spec, items)

            def inplace():
                x = fi(b, v)                           # the same mask object (or string) a second time
                return desc(x, inplace=True), x is b
            got2 = call(inplace)
            if mask_now() != vbits:
                ctx.mismatch(f'C14|bitwise-inplace:{opn}|{"many" if len(items) >= 16 else "few"}-items|mask-operand-changed', c,
                             f'{c["valspec"][0]} mask {vbits} is now {mask_now()[:60]}')
            if exp[0] == 'ok':
                if not (got2[0] == 'ok' and got2[1][1] and A.same_list(got2[1][0][1], exp[1][1])):
                    ctx.mismatch(f'C14|bitwise-inplace:{opn}|len-ok|value-or-identity', c, f'{got2!r:.100}')
            elif got2[0] == 'ok' or B(b.data) != before:
                ctx.mismatch(f'C14|bitwise-inplace:{opn}|len-bad|no-raise-or-changed', c, f'{got2!r:.100}')
        elif kind == 'compare':
            val = c['val']
            op = CMP[opn]
            exp = ('ok', ('bool', [op(x, val) for x in items]))
            got = call(lambda: desc(op(a, val)))
            verdict(got, exp, 'compare', 'scalar')
            # an Array compared with itself, with its copy, with a slice of all of it and with an equal rebuild: still item by item
            # (a NaN item is not equal to itself)
            for how, other in (('itself', a), ('its-copy', copy.copy(a)), ('its-full-slice', a[:]), ('an-equal-rebuild', Array(dt.spec, items))):
                exp = ('ok', ('bool', [op(x, x) for x in items]))
                got = call(lambda: desc(op(a, other)))
                verdict(got, exp, 'compare', 'array&' + how)
            if 'items2' in c:
                dt2 = BY_SPEC[c['dtype2']]
                other = Array(dt2.spec, c['items2'])
                if len(c['items2']) != len(items):
                    exp = ('exc', ('ValueError',))
                else:
                    exp = ('ok', ('bool', [op(x, y) for x, y in zip(items, c['items2'])]))
                got = call(lambda: desc(op(a, other)))
                samedt = 'same-dtype' if str(Array(dt2.spec).dtype) == str(Array(dt.spec).dtype) else 'different-dtype'
                verdict(got, exp, 'compare', 'array&' + samedt)
        elif kind == 'unary':
            f = {'neg': operator.neg, 'abs': operator.abs}[opn]
            try:
                exp = ('ok', (None, map_op(lambda x, _: f(x), items, lambda j: None, dt)))
            except Expect as ex:
                exp = ('exc', ex.classes)
            got = call(lambda: desc(f(a)))
            verdict(got, exp, 'unary')


def gen_op_case(ctx):
    rng = ctx.rng
    dt = rng.choice(NUMERIC if rng.random() < 0.35 else INTS)
    n = rng.choice([0, 1, 2, 3, 5, 16, 17, 40])
    items = [dt.rng_value(rng) for _ in range(n)]
    if dt.family == 'float':
        items = [x for x in items if not (math.isnan(x))] or [1.5]
    kind = rng.choice(['scalar', 'scalar', 'array', 'bitwise', 'compare', 'unary'])
    c = {'dtype': dt.spec, 'items': items, 'kind': kind}
    lo, hi = (0, (1 << dt.n) - 1) if dt.family == 'uint' else (-(1 << (dt.n - 1)), (1 << (dt.n - 1)) - 1) if dt.family == 'int' else (-4, 4)
    if kind == 'scalar':
        c['op'] = rng.choice(list(BIN))
        c['val'] = rng.choice([0, 1, 2, 3, -1, -2, 7, hi, lo, 0.5, 2.0, -1.5])
        if c['op'] in ('lshift', 'rshift'):
            c['val'] = rng.choice([0, 1, 3, 8, -1, 64])
    elif kind == 'array':
        dt2 = rng.choice(NUMERIC if rng.random() < 0.35 else INTS)
        c['op'] = rng.choice(['add', 'sub', 'mul', 'floordiv', 'mod', 'truediv', 'lshift', 'rshift'])
        k = len(items) if rng.random() < 0.9 else len(items) + 1
        it2 = [dt2.rng_value(rng) for _ in range(k)]
        if dt2.family == 'float':
            it2 = [x if not math.isnan(x) else 2.0 for x in it2]
        if c['op'] in ('lshift', 'rshift'):
            if dt2.family == 'float' or dt.family == 'float':
                c['op'] = 'add'
            else:
                it2 = [min(max(x, -1), 66) for x in it2]
        c['dtype2'], c['items2'] = dt2.spec, it2
    elif kind == 'bitwise':
        c['op'] = rng.choice(['and', 'or', 'xor'])
        w = dt.width if rng.random() < 0.85 else dt.width + 1
        c['val'] = rb(rng, w)
        c['valspec'] = util.operand_spec(rng, c['val'], ['Bits', 'BitArray', 'str', 'bitarray'])
    elif kind == 'compare':
        c['op'] = rng.choice(list(CMP))
        c['val'] = rng.choice([0, 1, -1, hi, lo, 0.5] + (items[:1] if items else []))
        if dt.family == 'float' and items and rng.random() < 0.4 and dt.name not in K.MINI:
            items[rng.randrange(len(items))] = math.nan
            c['items'] = items
        if rng.random() < 0.5:
            dt2 = rng.choice(INTS)
            k = len(items) if rng.random() < 0.9 else len(items) + 1
            c['dtype2'], c['items2'] = dt2.spec, [dt2.rng_value(rng) for _ in range(k)]
    else:
        c['op'] = rng.choice(['neg', 'abs'])
    return c


DIRECTED_LIST = [
    {'dtype': 'bytes3', 'items': [{'b': '414243'}], 'trailing': '', 'steps': []},                    # D(i)
    {'dtype': 'bytes1', 'items': [{'b': '41'}, {'b': '42'}], 'trailing': '', 'steps': [['get', 1], ['append', {'b': '43'}]]},
    {'dtype': 'hex4', 'items': ['e', 'a', 'e'], 'trailing': '', 'steps': [['count', 'e']]},           # D(ii)
    {'dtype': 'uint8', 'items': [1, 2, 1], 'trailing': '', 'steps': [['count', 1]]},
    {'dtype': 'uint8', 'items': [1, 2, 3], 'trailing': '', 'steps': [['insert', -1, 9], ['insert', -9, 7]]},   # D(iv)
    {'dtype': 'uint8', 'items': [1, 2, 3], 'trailing': '101', 'steps': [['insert', -1, 9]]},
    {'dtype': 'uint8', 'items': [1, 2, 3], 'trailing': '101', 'steps': [['insert', 1, 9], ['pop', 0], ['set', -1, 0], ['del', 0], ['get', 0]]},
]
DIRECTED_OPS = [
    {'dtype': 'uint5', 'items': [0, 31], 'kind': 'scalar', 'op': 'sub', 'val': 31},                  # D(v) through reflected
    {'dtype': 'int8', 'items': [-128, 127], 'kind': 'unary', 'op': 'neg'},
    {'dtype': 'uint8', 'items': [1, 2], 'kind': 'array', 'op': 'add', 'dtype2': 'int16', 'items2': [-1, -2]},
    {'dtype': 'uint8', 'items': [255], 'kind': 'scalar', 'op': 'add', 'val': 1},
]
# a failure that is not the first item's, of a kind the library does not itself raise: the in-place form still changes nothing
DIRECTED_OPS += [{'dtype': spec, 'items': items, 'kind': 'scalar', 'op': op, 'val': val}
                 for spec, items in (('uint1100', [6, 2 ** 1030, 10]), ('int1100', [-6, 7, -2 ** 1050]), ('uint2048', [10, 20, 30, 2 ** 2000, 40]),
                                     ('uint1100', [6, 8, 10]))
                 for op, val in (('truediv', 2), ('mul', 1.5), ('add', 0.5), ('sub', 2.5), ('floordiv', 0.5), ('mul', 2), ('floordiv', 2), ('mod', 1.5))]


# ---- promotion over all dtype pairs, 8-bit and smaller floats included ------------------------------------------------
PROMO = [('p3binary', 'float'), ('p4binary', 'float'), ('e5m2mxfp', 'float'), ('e4m3mxfp', 'float'), ('e3m2mxfp', 'float'), ('e2m3mxfp', 'float'),
         ('e2m1mxfp', 'float'), ('e8m0mxfp', 'float'), ('mxint', 'float'), ('bfloat', 'float'), ('float16', 'float'), ('float32', 'float'),
         ('floatle64', 'float'), ('uint8', 'uint'), ('int4', 'int'), ('uint16', 'uint'), ('int16', 'int'), ('bool', 'uint'), ('uintle16', 'uint'),
         ('intbe16', 'int'), ('uint4', 'uint'), ('int8', 'int'), ('<h', 'int'), ('>H', 'uint'), ('<e', 'float')]


def promo_case(ctx, c):
    (s1, f1), (s2, f2) = c['t1'], c['t2']
    with util.options(lsb0=False):
        one = lambda f, sp: (1.0 if f == 'float' else (True if sp == 'bool' else 1))  # noqa: E731
        a1, a2 = Array(s1, [one(f1, s1)] * 3), Array(s2, [one(f2, s2)] * 3)
        d1, d2 = a1.dtype, a2.dtype
        if d1.name == d2.name:
            exp = d1 if d1.bitlength > d2.bitlength else d2
        elif f1 == 'float' and f2 != 'float':
            exp = d1
        elif f2 == 'float' and f1 != 'float':
            exp = d2
        elif f1 == 'float':
            exp = d2 if d2.bitlength > d1.bitlength else d1
        elif f1 == 'int' and f2 != 'int':
            exp = d1
        elif f2 == 'int' and f1 != 'int':
            exp = d2
        else:
            exp = d2 if d2.bitlength > d1.bitlength else d1
        for opname, f in (('mul', lambda: a1 * a2), ('imul', lambda: copy.copy(a1).__imul__(a2))):
            got = call(f)
            ctx.op('promotion:' + opname, 'ok' if got[0] == 'ok' else type(got[1]).__name__)
            ic = f'{f1}x{f2}' + (',tie' if d1.bitlength == d2.bitlength else ',first-longer' if d1.bitlength > d2.bitlength else ',second-longer')
            if got[0] != 'ok':
                ctx.mismatch(f'C14|promotion:{opname}|{ic}|unexpected-exc:{type(got[1]).__name__}', c, f'{s1} * {s2}: {got[1]!s:.80}')
            elif (got[1].dtype.name, got[1].dtype.bitlength) != (exp.name, exp.bitlength):
                ctx.mismatch(f'C14|promotion:{opname}|{ic}|result-dtype', c, f'{s1} * {s2} -> {got[1].dtype}, documented rules give {exp}')
            elif [float(x) for x in got[1].tolist()] != [1.0] * 3:
                ctx.mismatch(f'C14|promotion:{opname}|{ic}|values', c, f'{s1} * {s2} -> {got[1].tolist()!r:.60}')
            else:
                ctx.ok(('promotion', opname, s1, s2), True)


def eviction_case(ctx, c):
    """Two Arrays of one dtype made a long time apart (hundreds of other dtypes used in between) are still Arrays of one dtype."""
    spec, items = c['dtype'], c['items']
    with util.options(lsb0=False):
        a = Array(spec, items)
        for w in range(c['from'], c['from'] + c['n']):          # pushes every earlier entry out of the dtype caches (256 entries)
            bitstring.Dtype('uint', w)
            bitstring.Dtype(f'int{w}')
        b = Array(spec, items)
        ctx.op('equals:after-dtype-cache-eviction')
        got = call(lambda: (a.equals(b), b.equals(a), a.dtype == b.dtype, str(a.dtype) == str(b.dtype)))
        if got != ('ok', (True, True, True, True)):
            ctx.mismatch('C14|equals|same-dtype-made-after-cache-eviction|' + ('raised:' + type(got[1]).__name__ if got[0] == 'exc' else 'value'), c, f'{got!r:.120}')
        else:
            ctx.ok(('equals-after-eviction', spec), True)
        a2 = copy.copy(a)
        got = call(lambda: (a2.extend(b), a2.tolist())[1])
        ctx.op('extend:after-dtype-cache-eviction')
        if got[0] != 'ok' or not A.same_list(got[1], items + items):
            ctx.mismatch('C14|extend|same-dtype-made-after-cache-eviction|' + ('raised:' + type(got[1]).__name__ if got[0] == 'exc' else 'value'), c, f'{got!r:.120}')
        else:
            ctx.ok(('extend-after-eviction', spec), True)
        a3 = copy.copy(a)
        got = call(lambda: (a3.__iadd__(b) if False else a3 + b).tolist())
        if got[0] != 'ok' or not A.same_list(got[1], [x + y for x, y in zip(items, items)]):
            ctx.mismatch('C14|arith:add|same-dtype-made-after-cache-eviction|' + ('raised:' + type(got[1]).__name__ if got[0] == 'exc' else 'value'), c, f'{got!r:.120}')
        else:
            ctx.ok(('add-after-eviction', spec), True)


def mode_case(ctx, c):
    """The data is the concatenation of the items' encodings - each made under the mxfp_overflow setting in force when the item was stored."""
    from rv.model import minifloat as mf
    fmt, x = c['fmt'], c['x']
    codec = mf.CODECS[fmt]

    def enc(v, mode):
        return format(codec.encode(v, mode), f'0{codec.nbits}b')
    with util.options(lsb0=False, mxfp_overflow='saturate'):
        a = Array(fmt, [x, 1.0])
        exp = [enc(x, 'saturate'), enc(1.0, 'saturate')]
        steps = [('overflow', 'append', lambda: a.append(x), lambda m: exp.append(enc(x, m))),
                 ('overflow', 'setitem', lambda: a.__setitem__(1, x), lambda m: exp.__setitem__(1, enc(x, m))),
                 ('saturate', 'insert', lambda: a.insert(0, x), lambda m: exp.insert(0, enc(x, m))),
                 ('saturate', 'extend', lambda: a.extend([x, x]), lambda m: exp.extend([enc(x, m)] * 2)),
                 ('overflow', 'setslice', lambda: a.__setitem__(slice(0, 2), [x, x]), lambda m: exp.__setitem__(slice(0, 2), [enc(x, m)] * 2)),
                 ('overflow', 'ctor', lambda: None, lambda m: None)]
        for mode, how, do, model in steps:
            bitstring.options.mxfp_overflow = mode
            g = call(do)
            model(mode)
            ctx.op('store-under-mxfp_overflow:' + how)
            got = B(a.data)
            if g[0] != 'ok' or got != ''.join(exp):
                ctx.mismatch(f'C14|data-is-concatenation|{fmt}|item-stored-under-{mode}-by-{how}', c, f'{x!r}: data {got[:96]} expected {"".join(exp)[:96]} ({g!r:.60})')
                return
            if how == 'ctor':
                fresh = call(lambda: B(Array(fmt, [x]).data))
                if fresh != ('ok', enc(x, mode)):
                    ctx.mismatch(f'C14|data-is-concatenation|{fmt}|item-stored-under-{mode}-by-ctor', c, f'{x!r}: {fresh!r:.80} expected {enc(x, mode)}')
                    return
        ctx.ok(('mxfp-mode', fmt), True)


def run(ctx):
    if ctx.shard in (2, 3) or ctx.nshards < 4:
        for fmt in ('e5m2mxfp', 'e4m3mxfp'):
            for x in (1e6, -1e6, 500.0, 60000.0, -70000.0, 449.0, 1e300):
                ctx.run_case(mode_case, {'kind': 'mxfp-mode', 'fmt': fmt, 'x': x})
    if ctx.shard in (0, 1):
        for k, (spec, items) in enumerate((('uint8', [1, 2, 3]), ('float32', [0.5, -2.0]), ('<H', [1, 515]), ('int5', [-3, 4]), ('uint12', [7, 8, 9, 10]))):
            ctx.run_case(eviction_case, {'kind': 'eviction', 'dtype': spec, 'items': items, 'from': 70 + 300 * ctx.shard + 17 * k, 'n': 300})
    i = 0
    for t1 in PROMO:
        for t2 in PROMO:
            i += 1
            if ctx.mine(i):
                ctx.run_case(promo_case, {'kind': 'promo', 't1': list(t1), 't2': list(t2)})
    ctx.exhaustive[f'promotion: every ordered pair of {len(PROMO)} dtypes (incl. every 8-bit-and-smaller float) under * and *='] = True
    if ctx.shard == 0:
        for c in DIRECTED_LIST:
            ctx.run_case(lambda x, k: list_program(x, k), {**c, 'steps': [list(s) for s in c['steps']]})
        for c in DIRECTED_OPS:
            ctx.run_case(op_case, dict(c))
    rng = ctx.rng
    n = ctx.scale(20000, 250000)
    for i in range(n):
        dt = rng.choice(POOL)
        k = rng.choice([0, 1, 2, 3, 5, 8, 8, 13, 40])
        if i % 400 == 7:
            k = rng.choice([255, 256, 257, 1024] + ([] if ctx.quick else [4096, 2048]))      # item counts at which a bulk path could take over
        items = [dt.rng_value(rng) for _ in range(k)]
        if k >= 255 and rng.random() < 0.5:
            items = [items[0]] * k if rng.random() < 0.5 else (items[:2] * k)[:k]               # ... and uniform / periodic content
        tr = rb(rng, rng.choice([0, 0, 0, 1, max(dt.width - 1, 0)])) if dt.width > 1 else ''
        case = {'dtype': dt.spec, 'items': items, 'trailing': tr, 'steps': []}
        ns = rng.randint(6, 12) if ctx.quick else rng.randint(6, 40)
        if k >= 255:
            ns = min(ns, 10 if k <= 1024 else 6)            # (every step re-reads the whole Array: keep long Arrays to short programs)
        ctx.run_case(lambda x, kk: list_program(x, kk, ns), case)
        if i % 499 == 0:
            ctx.sample({'dtype': dt.spec, 'items': items[:5], 'trailing': tr, 'steps': case['steps'][:5]})
    for i in range(ctx.scale(32000, 400000)):
        c = gen_op_case(ctx)
        ctx.run_case(op_case, c)
        if i % 1999 == 0:
            ctx.sample(c)


def replay(ctx, case):
    if case.get('kind') == 'eviction':
        ctx.run_case(eviction_case, case)
    elif case.get('kind') == 'mxfp-mode':
        ctx.run_case(mode_case, case)
    elif case.get('kind') == 'promo':
        ctx.run_case(promo_case, case)
    elif 'kind' in case:
        ctx.run_case(op_case, case)
    else:
        ctx.run_case(lambda x, k: list_program(x, k), case)
