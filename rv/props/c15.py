"""C15 - out-of-range or mis-sized values are rejected, never wrapped or truncated."""
from __future__ import annotations

import io
import os
import tempfile

import bitarray
import bitstring
from bitstring import Array, BitArray, Bits, BitStream, ConstBitStream, Dtype, pack

from rv import util
from rv.model import codecs as K
from rv.model.bits import Expect
from rv.util import B, CLASSES, call, exc_matches, mk, rb

AMBIENT = ['bytealigned']      # an option this property does not depend on: a quarter of the cases run with it switched on
PROP = 'C15'
SHARDS = {'quick': 4, 'thorough': 16}
RULE = ("a total classifier valid(dtype, length, value) written from the statement (integer ranges, allowed lengths per type, "
        "digit alphabets, stated length vs value length) and valid(window) for offset/length over bytes / bytearray / BytesIO / "
        "bitarray / file sources decides the expected outcome of every creation route (constructor keyword with length= or "
        "with the length in the name, token string, property assignment, pack, Dtype.build, Array element assignment): an "
        "invalid combination must raise ValueError and neither create nor change anything (the target of a rejected "
        "assignment is compared before/after), a valid one must succeed with exactly the requested length. values at "
        "min-1, min, max, max+1, +-2^n; lengths valid and 0, negative, one off an allowed length. key = (dtype, route, "
        "validity class, boundary side); non-trivial = every case (each is a boundary case)")
ANCHORS = ['int2bitstore', 'Bits._setuint', 'Bits._setint', 'Bits._setfloat', 'Bits._setbfloatbe', 'DtypeDefinition.get_dtype', 'Dtype.build',
           'bitstore_from_token', 'Bits._setbytes_with_truncation', 'Bits._setbitarray', 'Bits._setfile', 'BitStore.frombuffer',
           'BitArray.__setattr__', 'pack', 'Array.__setitem__', 'Array._create_element']
REQUIRED_OPS = ['Array-multi:setslice', 'Array-multi:setslice-ext', 'Array-multi:extend', 'Array-multi:init', 'kw+length', 'kw-len-in-name', 'token', 'prop', 'prop+len', 'pack', 'Dtype.build', 'Array-set', 'window:bytes=', 'window:bitarray=',
                'window:BytesIO', 'window:file']
MIN_EVALS = {'quick': 10000, 'thorough': 150000}

NAMES = ['uint', 'int', 'uintbe', 'intbe', 'uintle', 'intle', 'uintne', 'intne', 'hex', 'oct', 'bin', 'float', 'floatle', 'floatne', 'bool',
         'bfloat', 'bytes', 'p4binary', 'e4m3mxfp', 'e3m2mxfp', 'e2m1mxfp', 'mxint']
SINGLE = {'bool': 1, 'bfloat': 16, 'p4binary': 8, 'e4m3mxfp': 8, 'e3m2mxfp': 6, 'e2m1mxfp': 4, 'mxint': 8}


def gen_case(ctx):
    rng = ctx.rng
    name = rng.choice(NAMES)
    c = K.canon(name)
    if c in ('uint', 'int'):
        n = rng.choice(list(range(1, 73)) + [127, 128, 129, 255, 256, 257] + [0, 0, -1, -8])
    elif c in ('uintbe', 'intbe', 'uintle', 'intle'):
        n = rng.choice([8, 16, 24, 32, 64, 72, 128] + [0, -8, 1, 7, 9, 12, 15, 17, 63])
    elif c == 'hex':
        n = rng.choice([4, 8, 12, 32, 0, 3, 5, 7, -4])
    elif c == 'oct':
        n = rng.choice([3, 6, 12, 0, 2, 4, 8, -3])
    elif c == 'bin':
        n = rng.choice([1, 2, 7, 9, 0, -1])
    elif c in ('float', 'floatle'):
        n = rng.choice([16, 32, 64, 16, 32, 64, 0, 8, 15, 17, 24, 31, 33, 63, 65, 128, -16])
    elif c == 'bytes':
        n = rng.choice([1, 2, 3, 0, -1])
    else:
        n = rng.choice([SINGLE[name]] * 3 + [SINGLE[name] - 1, SINGLE[name] + 1, 0, -1, 2 * SINGLE[name]])
    lv = n if (isinstance(n, int) and n > 0) else rng.choice([1, 8, 16])
    # value: at, just inside and just outside every limit / of right and wrong size
    if c in ('uint', 'uintbe', 'uintle'):
        hi = (1 << lv) - 1
        v = rng.choice([0, 1, hi, hi - 1, hi + 1, -1, 1 << lv, (1 << lv) + 1, -(1 << lv), 2 * hi + 1, rng.getrandbits(lv), rng.getrandbits(lv + 3)])
    elif c in ('int', 'intbe', 'intle'):
        lo, hi = -(1 << (lv - 1)), (1 << (lv - 1)) - 1
        v = rng.choice([0, -1, 1, lo, hi, lo - 1, hi + 1, lo + 1, hi - 1, 1 << lv, -(1 << lv), (1 << lv) - 1, rng.getrandbits(lv) + lo, rng.getrandbits(lv + 2) - (1 << (lv + 1))])
    elif c in ('hex', 'oct', 'bin'):
        unit = {'hex': 4, 'oct': 3, 'bin': 1}[c]
        alpha = {'hex': '0123456789abcdef', 'oct': '01234567', 'bin': '01'}[c]
        k = max(lv // unit, 1)
        good = ''.join(rng.choice(alpha) for _ in range(k))
        v = rng.choice([good, good, good + alpha[0], good[:-1], good[:-1] + rng.choice('gxz89 .-'), '', good.upper()])
        if v == good[:-1] and not v:
            v = good
    elif c in ('float', 'floatle', 'bfloat') or name in ('p4binary', 'e4m3mxfp', 'e3m2mxfp', 'e2m1mxfp', 'mxint'):
        v = rng.choice([0.0, 1.0, -2.5, 1e10, float('inf'), 0.1])
    elif c == 'bool':
        v = rng.choice([True, False, 1, 0, 2, -1, 'True', 'maybe'])
    else:
        k = max(lv, 0) if isinstance(lv, int) else 1
        raw = bytes(rng.getrandbits(8) for _ in range(rng.choice([k, k, k + 1, max(k - 1, 0)])))
        v = {'b': raw.hex()}
    return {'kind': 'value', 'name': name, 'n': n, 'value': v, 'cls': rng.choice(util.CLASS_NAMES), 'mcls': rng.choice(util.MUTABLE)}


def valid(name, n, v):
    """(is_valid, reason, expected bits or None) from the statement."""
    c = K.canon(name)
    if name in SINGLE and name not in ('bool', 'bfloat'):
        ok = n == SINGLE[name]
        return ok, 'length', None
    try:
        pv = bytes.fromhex(v['b']) if isinstance(v, dict) else v
        bits = K.encode(c, n, pv)
        return True, 'valid', bits
    except Expect:
        reason = 'length' if not K.valid_length(c, n) else 'value'
        return False, reason, None
    except (ValueError, TypeError):
        return False, 'value', None


def boundary_side(name, n, v):
    if isinstance(v, bool) or not isinstance(v, int) or not isinstance(n, int) or n <= 0:
        return '-'
    c = K.canon(name)
    if c.startswith('uint'):
        return 'below' if v < 0 else 'above' if v >= (1 << n) else 'inside'
    if c.startswith('int'):
        return 'below' if v < -(1 << (n - 1)) else 'above' if v >= (1 << (n - 1)) else 'inside'
    return '-'


def judge_value(ctx, case):
    name, n, v = case['name'], case['n'], case['value']
    cls, mcls = CLASSES[case['cls']], CLASSES[case['mcls']]
    pv = bytes.fromhex(v['b']) if isinstance(v, dict) else v
    ok, reason, bits = valid(name, n, v)
    c = K.canon(name)
    side = boundary_side(name, n, v)
    sv = repr(pv) if isinstance(pv, float) else str(pv)
    single = name in SINGLE
    routes = {}
    if c == 'bytes':
        # for bytes the constructor's length/offset select a *window* (judged below); the other routes take a byte count
        routes['prop+len'] = ('assign', lambda o: setattr(o, f'bytes{n}', pv))
        routes['Dtype.build'] = ('create', lambda: Dtype('bytes', n).build(pv))
        routes['pack'] = ('create', lambda: pack(f'bytes:{n}', pv))
    else:
        routes['kw+length'] = ('create', lambda: cls(**{name: pv, 'length': n}))
        if n >= 0:
            routes['kw-len-in-name'] = ('create', lambda: cls(**{f'{name}{n}': pv}))
            routes['token'] = ('create', lambda: cls(f'{name}:{n}={sv}'))
            routes['prop+len'] = ('assign', lambda o: setattr(o, f'{name}{n}', pv))
            routes['pack'] = ('create', lambda: pack(f'{name}:{n}', pv))
            routes['pack-eq'] = ('create', lambda: pack(f'{name}:{n}={sv}'))
        routes['pack-kwlen'] = ('create', lambda: pack(f'{name}:k', pv, k=n))
        if n >= 0:
            routes['pack-kwval'] = ('create', lambda: pack(f'{name}:{n}=v', v=pv))       # the same format string meets many values, good and bad
        routes['Dtype.build'] = ('create', lambda: Dtype(name, n).build(pv))
        if ok and n > 0:
            # "every in-range combination succeeds": also right after the same value was assigned to a mutable object that was then changed
            def after_mutated_target():
                t = mcls()
                setattr(t, f'{name}{n}', pv)
                if len(t):
                    t.invert()
                t.append('0b1')
                return cls(**{name: pv, 'length': n})
            routes['kw+length-after-mutated-target'] = ('create', after_mutated_target)
            if n >= 0 and c != 'bool':
                # ... and right after the same token was the first item of a LIST of formats (with another value or with this one)
                def after_list():
                    pack([f'{name}:{n}', 'uint:3'], pv, 5)
                    pack([f'{name}:{n}={sv}', 'int:5=-7', 'bool'], True)
                    return pack(f'{name}:{n}', pv), pack(f'{name}:{n}={sv}')
                routes['pack-after-list-of-formats'] = ('create', lambda: after_list()[0])
                routes['pack-eq-after-list-of-formats'] = ('create', lambda: after_list()[1])
        # property assignment without a length in the name: integer and float types take the CURRENT length of the object
        # (so it must be a valid one for the question to be meaningful); text types take their length from the value, so
        # only the digits are judged there
        if c in ('uint', 'int', 'uintbe', 'intbe', 'uintle', 'intle', 'float', 'floatle') and K.valid_length(c, n):
            routes['prop'] = ('assign-sized', lambda o: setattr(o, name, pv))
        elif c in ('hex', 'oct', 'bin') and isinstance(pv, str):
            digits_ok = all(ch in {'hex': '0123456789abcdef', 'oct': '01234567', 'bin': '01'}[c] for ch in K.tidy(pv, {'hex': '0x', 'oct': '0o', 'bin': '0b'}[c]))
            routes['prop'] = ('assign-digits', digits_ok)
        if (ok or reason == 'value') and n != 0:
            routes['Array-set'] = ('array', None)
    with util.options(lsb0=False):
        for rname, (kind, f) in routes.items():
            opname = rname if rname in REQUIRED_OPS else ('pack' if rname.startswith('pack') else rname)
            vclass = 'valid' if ok else 'invalid-' + reason
            if kind == 'create':
                got = call(f)
                ctx.op(opname, 'ok' if got[0] == 'ok' else type(got[1]).__name__)
                judge_outcome(ctx, case, rname, name, vclass, side, got, ok, bits, lambda r: B(r))
            elif kind == 'assign-digits':
                o = mk(mcls, '10110')
                before = (len(o), B(o))
                got = call(lambda: setattr(o, name, pv))
                ctx.op('prop', 'ok' if got[0] == 'ok' else type(got[1]).__name__)
                unit = {'hex': 4, 'oct': 3, 'bin': 1}[c]
                if f:
                    if got[0] != 'ok' or len(o) != unit * len(K.tidy(pv, {'hex': '0x', 'oct': '0o', 'bin': '0b'}[c])):
                        ctx.mismatch(f'C15|prop|{c}|valid-digits|rejected-or-wrong-length', case, f'{pv!r:.30}: {got!r:.60} len {len(o)}')
                    else:
                        ctx.ok((c, 'prop', 'valid-digits'))
                elif got[0] == 'ok':
                    ctx.mismatch(f'C15|prop|{c}|invalid-digits|accepted', case, f'{pv!r:.30} gave {B(o)[:40]}')
                elif not exc_matches(got[1], 'ValueError') or (len(o), B(o)) != before:
                    ctx.mismatch(f'C15|prop|{c}|invalid-digits|wrong-exc-or-target-changed', case, f'{got[1]!r:.60}')
                else:
                    ctx.ok((c, 'prop', 'invalid-digits'))
            elif kind in ('assign', 'assign-sized'):
                # target: for 'prop' an object that already has the requested length
                o = mk(mcls, rb(ctx.rng, n)) if (kind == 'assign-sized' and n > 0) else mk(mcls, '10110')
                before = (len(o), B(o))
                got = call(lambda: f(o))
                ctx.op(opname, 'ok' if got[0] == 'ok' else type(got[1]).__name__)
                judge_outcome(ctx, case, rname, name, vclass, side, got, ok, bits, lambda r: B(o))
                if got[0] == 'exc' and (len(o), B(o)) != before:
                    ctx.mismatch(f'C15|{rname}|{K.canon(name)}|{vclass}|rejected-assignment-changed-target', case, f'{before} -> {(len(o), B(o))}')
            else:
                # Array item assignment: an Array of the (valid) dtype receives the value
                if not K.valid_length(c, n) or single and n != SINGLE[name]:
                    continue
                spec = f'{name}{n}' if not single or name == 'bfloat' else name
                ka, a = call(lambda: Array(spec, 2))
                if ka != 'ok':
                    continue
                before = B(a.data)
                got = call(lambda: a.__setitem__(0, pv))
                ctx.op('Array-set', 'ok' if got[0] == 'ok' else type(got[1]).__name__)
                width = n
                judge_outcome(ctx, case, rname, name, vclass, side, got, ok, (bits + '0' * width) if bits is not None else None, lambda r: B(a.data))
                if got[0] == 'exc' and B(a.data) != before:
                    ctx.mismatch(f'C15|{rname}|{c}|{vclass}|rejected-assignment-changed-target', case, '')
    ctx.state(name, n, side)


def judge_outcome(ctx, case, rname, name, vclass, side, got, ok, bits, reader):
    c = K.canon(name)
    if ok:
        if got[0] != 'ok':
            ctx.mismatch(f'C15|{rname}|{c}|valid|unexpected-exc:{type(got[1]).__name__}', case, f'{name}:{case["n"]}={case["value"]!r:.40}: {got[1]!s:.80}')
            return
        b = reader(got[1])
        if bits is not None and b != bits:
            ctx.mismatch(f'C15|{rname}|{c}|valid|{"length" if len(b) != len(bits) else "bits"}', case,
                         f'{name}:{case["n"]}={case["value"]!r:.40}: got {b[:70]} expected {bits[:70]}')
            return
        ctx.ok((c, rname, 'valid', side))
    else:
        if got[0] == 'ok':
            b = reader(got[1])
            ctx.mismatch(f'C15|{rname}|{c}|{vclass}|accepted', case, f'{name}:{case["n"]}={case["value"]!r:.40} gave {len(b)} bits {b[:60]}')
        elif not exc_matches(got[1], 'ValueError'):
            ctx.mismatch(f'C15|{rname}|{c}|{vclass}|wrong-exc:{type(got[1]).__name__}', case, f'{name}:{case["n"]}={case["value"]!r:.40}: {got[1]!s:.80}')
        else:
            ctx.ok((c, rname, vclass, side))


# ---- windows ---------------------------------------------------------------------------------------------------
_TMP = []


def tmpdir():
    if not _TMP:
        import atexit
        import shutil
        d = tempfile.mkdtemp(prefix='rv_c15_')
        _TMP.append(d)
        atexit.register(shutil.rmtree, d, True)
    return _TMP[0]


def gen_window(ctx):
    rng = ctx.rng
    nbytes = rng.choice([0, 1, 2, 5, 16])
    src = rb(rng, nbytes * 8)
    total = nbytes * 8
    route = rng.choice(['bytes=', 'bytearray=', 'BytesIO', 'bitarray=', 'file', 'filehandle'])
    if route == 'bitarray=':
        total = rng.choice([0, 1, 7, 8, 13, 40])
        src = rb(rng, total)
    off = rng.choice([None, 0, 1, 7, 8, total - 1, total, total + 1, total + 8, -1, -8, 10 ** 6, 32768, 65536, 32768 + 8, 8 * 4096 * 16, 32760])
    ln = rng.choice([None, 0, 1, 8, total, total - 1, total + 1, -1, -8, 10 ** 6])
    return {'kind': 'window', 'route': route, 'src': src, 'offset': off, 'length': ln, 'cls': rng.choice(util.CLASS_NAMES)}


def judge_window(ctx, case):
    src, off, ln, route = case['src'], case['offset'], case['length'], case['route']
    total = len(src)
    cls = CLASSES[case['cls']]
    o = 0 if off is None else off
    if o < 0 or (ln is not None and ln < 0) or o > total or (ln is not None and o + ln > total):
        ok = False
        reason = 'negative' if (o < 0 or (ln is not None and ln < 0)) else ('offset-beyond' if o > total else 'length-beyond')
        exp = None
    else:
        ok = True
        reason = 'valid'
        exp = src[o:] if ln is None else src[o:o + ln]
    raw = int(src, 2).to_bytes(total // 8, 'big') if (total and total % 8 == 0) else b''
    kw = {}
    if off is not None:
        kw['offset'] = off
    if ln is not None:
        kw['length'] = ln
    fh = None
    with util.options(lsb0=False):
        if route == 'bytes=':
            f = lambda: cls(bytes=raw, **kw)  # noqa: E731
        elif route == 'bytearray=':
            f = lambda: cls(bytes=bytearray(raw), **kw)  # noqa: E731
        elif route == 'BytesIO':
            if not kw:
                return
            f = lambda: cls(io.BytesIO(raw), **kw)  # noqa: E731
        elif route == 'bitarray=':
            f = lambda: cls(bitarray=bitarray.bitarray(src), **kw)  # noqa: E731
        else:
            # (an empty file cannot be memory-mapped, so the library reads it instead: the window rules are the same)
            fn = os.path.join(tmpdir(), f'w{os.getpid()}.bin')
            with open(fn, 'wb') as g:
                g.write(raw)
            if route == 'file':
                f = lambda: cls(filename=fn, **kw)  # noqa: E731
            else:
                fh = open(fn, 'rb')
                if not kw:
                    f = lambda: cls(fh)  # noqa: E731
                else:
                    f = lambda: cls(fh, **kw)  # noqa: E731
        got = call(f)
        if fh is not None:
            fh.close()
        opn = 'window:' + {'bytearray=': 'bytes=', 'filehandle': 'file'}.get(route, route)
        ctx.op(opn, 'ok' if got[0] == 'ok' else type(got[1]).__name__)
        fam = {'bytearray=': 'bytes=', 'filehandle': 'file'}.get(route, route)
        if ok:
            if got[0] != 'ok':
                ctx.mismatch(f'C15|window:{fam}|valid|unexpected-exc:{type(got[1]).__name__}', case, f'offset={off} length={ln} of {total}: {got[1]!s:.80}')
            else:
                b = B(got[1])
                # only len and bin are judged here: a length-limited file store is C08's recorded defect
                if b != exp or len(got[1]) != len(exp):
                    sub = 'valid'
                    if fam == 'file' and not o and ln is not None and ln < total and case['cls'] in util.MUTABLE:
                        sub = 'valid&offset0&length<filesize&mutable-class'
                    ctx.mismatch(f'C15|window:{fam}|{sub}|bits', case, f'offset={off} length={ln} of {total}: got {b[:60]} expected {exp[:60]}')
                else:
                    ctx.ok(('window', fam, 'valid', off is None, ln is None))
        else:
            if got[0] == 'ok':
                ctx.mismatch(f'C15|window:{fam}|{reason}|accepted', case, f'offset={off} length={ln} of {total} bits gave {len(got[1])} bits')
            elif not exc_matches(got[1], 'ValueError'):
                ctx.mismatch(f'C15|window:{fam}|{reason}|wrong-exc:{type(got[1]).__name__}', case, f'offset={off} length={ln} of {total}: {got[1]!s:.80}')
            else:
                ctx.ok(('window', fam, reason))
    ctx.state(route, off, ln, total)


DIRECTED = [
    {'kind': 'value', 'name': 'hex', 'n': 4, 'value': 'ab', 'cls': 'Bits', 'mcls': 'BitArray'},                 # D(iii)
    {'kind': 'value', 'name': 'uint', 'n': 8, 'value': 256, 'cls': 'Bits', 'mcls': 'BitArray'},
    {'kind': 'value', 'name': 'int', 'n': 8, 'value': -129, 'cls': 'Bits', 'mcls': 'BitStream'},
    {'kind': 'window', 'route': 'bytes=', 'src': '1' * 16, 'offset': -8, 'length': None, 'cls': 'Bits'},          # D(i)
    {'kind': 'window', 'route': 'bytes=', 'src': '1' * 16, 'offset': 24, 'length': None, 'cls': 'Bits'},          # D(ii)
    {'kind': 'window', 'route': 'bitarray=', 'src': '1' * 13, 'offset': -1, 'length': -2, 'cls': 'BitArray'},
    {'kind': 'window', 'route': 'file', 'src': '1' * 16, 'offset': -8, 'length': None, 'cls': 'Bits'},
]


def endian_prop_nolength(ctx):
    """D(iv): assigning an endian property without a length on an object whose length is not whole bytes"""
    for name in ('uintle', 'intbe', 'uintne', 'uintbe', 'intle'):
        for L in (1, 7, 9, 12):
            case = {'kind': 'endian-prop', 'name': name, 'len': L}
            ctx.current_case = case
            o = BitArray(L)
            before = (len(o), B(o))
            got = call(lambda: setattr(o, name, 0))
            ctx.op('prop', 'ok' if got[0] == 'ok' else type(got[1]).__name__)
            if got[0] == 'ok':
                ctx.mismatch('C15|prop|endian-int|invalid-length(existing-object-not-whole-bytes)|accepted', case, f'{before} -> {(len(o), B(o))}')
            elif not exc_matches(got[1], 'ValueError'):
                ctx.mismatch(f'C15|prop|endian-int|invalid-length(existing-object-not-whole-bytes)|wrong-exc:{type(got[1]).__name__}', case, '')
            else:
                ctx.ok(('endian-prop', name))


def zero_length_array(ctx):
    for spec in ('uint0', 'int0', 'hex0', 'bin0', 'bits0', 'oct0'):
        case = {'kind': 'zero-array', 'spec': spec}
        ctx.current_case = case
        got = call(lambda: Array(spec, [0] if 'int' in spec else ['']))
        ctx.op('Array-set', 'ok' if got[0] == 'ok' else type(got[1]).__name__)
        if got[0] == 'ok':
            ctx.mismatch('C15|Array-create|zero-length-dtype|accepted', case, spec)
        elif not exc_matches(got[1], 'ValueError'):
            ctx.mismatch(f'C15|Array-create|zero-length-dtype|wrong-exc:{type(got[1]).__name__}', case, f'{spec}: {got[1]!s:.60}')
        else:
            ctx.ok(('zero-array', spec))
    # the same dtypes handed over as Dtype objects, with a zero or a negative length: the Dtype or the Array must refuse
    for name in ('uint', 'int', 'hex', 'bin', 'bits', 'oct', 'bytes', 'uintle', 'intbe', 'float', 'bfloat'):
        for L in (0, -1, -8, -16, -64):
            case = {'kind': 'zero-array', 'spec': f'Dtype({name!r}, {L})'}
            ctx.current_case = case
            got = call(lambda: Array(Dtype(name, L), [0] if ('int' in name or 'float' in name) else [b''] if name == 'bytes' else ['']))
            if got[0] != 'ok':
                got2 = call(lambda: Array(Dtype(name, L)))
                got = got2 if got2[0] == 'ok' else got
            ctx.op('Array-set', 'ok' if got[0] == 'ok' else type(got[1]).__name__)
            lc = 'zero-length' if L == 0 else 'negative-length'
            if got[0] == 'ok':
                ctx.mismatch(f'C15|Array-create|{lc}-dtype-object|accepted', case, f'{case["spec"]}: {got[1]!r:.60}')
            elif not exc_matches(got[1], 'ValueError'):
                ctx.mismatch(f'C15|Array-create|{lc}-dtype-object|wrong-exc:{type(got[1]).__name__}', case, f'{case["spec"]}: {got[1]!s:.60}')
            else:
                ctx.ok(('zero-array', name, L))


# ---- Array operations that set several items at once ------------------------------------------------------------
ARRAY_MULTI_OPS = ['setslice', 'setslice-ext', 'setslice-resize', 'extend', 'extend-gen', 'init', 'insert', 'append', 'setitem', 'setslice-scaled-array',
                   'iadd-scalar', 'imul-scalar', 'astype', 'astype']


def gen_array_multi(ctx):
    rng = ctx.rng
    signed = rng.random() < 0.5
    n = rng.choice([1, 3, 7, 8, 9, 12, 16, 33])
    if signed and n == 1:
        n = 2
    lo, hi = (-(1 << (n - 1)), (1 << (n - 1)) - 1) if signed else (0, (1 << n) - 1)
    good = lambda: rng.choice([lo, hi, 0, rng.randint(lo, hi)])  # noqa: E731
    bad = lambda: rng.choice([lo - 1, hi + 1, lo - 1000, hi + (1 << n)])  # noqa: E731
    base = [good() for _ in range(rng.choice([3, 4, 6, 9]))]
    op = rng.choice(ARRAY_MULTI_OPS)
    k = {'setslice': 3, 'setslice-ext': (len(base) + 1) // 2, 'setslice-resize': rng.choice([1, 2, 5])}.get(op, rng.choice([1, 2, 3, 5]))
    if op in ('insert', 'append', 'setitem'):
        k = 1
    if op in ('extend', 'extend-gen', 'init', 'setslice-resize') and rng.random() < 0.04:
        k = rng.choice([1025, 1030, 2049, 256, 257, 4097])           # more items than a block-wise implementation would commit at once
    vals = [good() for _ in range(k)]
    badpos = rng.choice([None, None, 0, k - 1, k // 2, rng.randrange(k)])
    if badpos is not None:
        vals[badpos] = bad()
    if op in ('iadd-scalar', 'imul-scalar'):
        # every item is set at once through an in-place operator: a += k / a *= k; the new value of one item may not fit
        k = rng.choice([1, 2, 3, 100, -1, hi // 2 + 1])
        f = (lambda v: v + k) if op == 'iadd-scalar' else (lambda v: v * k)
        fits = [lo <= f(v) <= hi for v in base]
        badpos = None if all(fits) else fits.index(False)
        vals = [k]
    if op == 'astype':
        # the values arrive as the items of an Array of another integer format (other signedness, or wider); astype converts VALUES
        other_signed = (not signed) if rng.random() < 0.6 else signed
        on = n if other_signed != signed else n + rng.choice([1, 4, 8])
        if other_signed and on == 1:
            on = 2
        olo, ohi = (-(1 << (on - 1)), (1 << (on - 1)) - 1) if other_signed else (0, (1 << on) - 1)
        both = lambda: rng.choice([max(lo, olo), min(hi, ohi), rng.randint(max(lo, olo), min(hi, ohi))])  # noqa: E731
        only_src = [v for v in (olo, ohi, hi + 1, lo - 1, ohi - 1, olo + 1) if olo <= v <= ohi and not lo <= v <= hi]
        vals = [both() for _ in range(rng.choice([1, 3, 5]))]
        badpos = rng.choice([None, 0, len(vals) - 1, len(vals) // 2]) if only_src else None
        if badpos is not None:
            vals[badpos] = rng.choice(only_src)
        return {'kind': 'array-multi', 'spec': ('int' if signed else 'uint') + str(n), 'base': base, 'op': op, 'values': vals, 'badpos': badpos, 'trailing': '',
                'src_spec': ('int' if other_signed else 'uint') + str(on), 'spelling': rng.randrange(3)}
    if op == 'setslice-scaled-array':
        # the values come as the items of an Array whose dtype has the same name and length and a scale of 4
        if n > 32 or n < 3:
            op = 'setslice'
        else:
            small = lambda: rng.randint(lo // 4, hi // 4) // 1  # noqa: E731
            vals = [4 * small() for _ in range(3)]
            badpos = rng.choice([None, None, 0, 1, 2])
            if badpos is not None:
                vals[badpos] = 4 * rng.choice([hi // 4 + 1, hi // 2, lo // 4 - 1 if signed else hi // 4 + 2])
    return {'kind': 'array-multi', 'spec': ('int' if signed else 'uint') + str(n), 'base': base, 'op': op, 'values': vals, 'badpos': badpos,
            'trailing': rng.choice(['', '', '1', '01'][:2 + min(max(n - 1, 0), 2)])}


def judge_array_multi(ctx, case):
    spec, base, op, vals, badpos = case['spec'], case['base'], case['op'], case['values'], case['badpos']
    with util.options(lsb0=False):
        if op == 'init':
            got = call(lambda: Array(spec, vals))
            exp = list(vals)
            a = got[1] if got[0] == 'ok' else None
            before = None
        elif op == 'astype':
            src = Array(case['src_spec'], vals)
            nm, ln = spec.rstrip('0123456789'), int(spec[len(spec.rstrip('0123456789')):])
            target = (spec, f'{nm}:{ln}', Dtype(nm, ln))[case.get('spelling', 0)]
            got = call(lambda: src.astype(target))
            exp = list(vals)
            a = got[1] if got[0] == 'ok' else src
            before = (list(vals), B(src.data)) if got[0] != 'ok' else None
            if src.tolist() != list(vals):
                ctx.mismatch('C15|Array-multi:astype|source|source-array-changed', case, f'{vals!r:.80} -> {src.tolist()!r:.80}')
        else:
            a = Array(spec, base, trailing_bits=('0b' + case['trailing']) if case['trailing'] else None)
            if op.startswith('extend') and case['trailing']:
                a = Array(spec, base)
            before = (a.tolist(), B(a.data))
            exp = list(base)
            if op == 'setslice':
                got = call(lambda: a.__setitem__(slice(0, 3), vals))
                exp[0:3] = vals
            elif op == 'setslice-scaled-array':
                other = Array(Dtype(spec.rstrip('0123456789'), int(spec[len(spec.rstrip('0123456789')):]), scale=4), vals)
                got = call(lambda: a.__setitem__(slice(0, 3), other))
                exp[0:3] = vals
            elif op == 'setslice-ext':
                got = call(lambda: a.__setitem__(slice(None, None, 2), vals))
                exp[::2] = vals
            elif op == 'setslice-resize':
                got = call(lambda: a.__setitem__(slice(1, 3), vals))
                exp[1:3] = vals
            elif op in ('iadd-scalar', 'imul-scalar'):
                import operator as _op
                got = call(lambda: (_op.iadd if op == 'iadd-scalar' else _op.imul)(a, vals[0]))
                exp = [(v + vals[0]) if op == 'iadd-scalar' else (v * vals[0]) for v in base]
                if case['trailing']:
                    exp = None          # what an in-place operator does with trailing bits is not this property's business
            elif op == 'extend':
                got = call(lambda: a.extend(vals))
                exp += vals
            elif op == 'extend-gen':
                got = call(lambda: a.extend(v for v in vals))
                exp += vals
            elif op == 'insert':
                got = call(lambda: a.insert(1, vals[0]))
                exp.insert(1, vals[0])
            elif op == 'append':
                got = call(lambda: a.append(vals[0])) if not case['trailing'] else call(lambda: a.insert(len(base), vals[0]))
                exp.append(vals[0])
            else:
                got = call(lambda: a.__setitem__(-1, vals[0]))
                exp[-1] = vals[0]
        ctx.op('Array-multi:' + op, 'ok' if got[0] == 'ok' else type(got[1]).__name__)
        where = 'none' if badpos is None else 'first' if badpos == 0 else 'last' if badpos == len(vals) - 1 else 'middle'
        if op in ('iadd-scalar', 'imul-scalar'):
            where = 'none' if badpos is None else 'first' if badpos == 0 else 'last' if badpos == len(base) - 1 else 'middle'
        if badpos is None:
            if got[0] == 'ok' and (exp is None or a.tolist() == exp):
                ctx.ok(('array-multi', op, 'valid', spec[:3]))
            else:
                ctx.mismatch(f'C15|Array-multi:{op}|valid|' + ('unexpected-exc:' + type(got[1]).__name__ if got[0] == 'exc' else 'items'), case,
                             f'{got[1]!s:.80} {a.tolist() if a is not None else None!r:.80} expected {exp!r:.80}')
            return
        if got[0] == 'ok':
            ctx.mismatch(f'C15|Array-multi:{op}|out-of-range-item-{where}|accepted', case, f'{a.tolist()!r:.100}')
        elif not isinstance(got[1], ValueError):
            ctx.mismatch(f'C15|Array-multi:{op}|out-of-range-item-{where}|wrong-exc:{type(got[1]).__name__}', case, f'{got[1]!s:.100}')
        elif before is not None and (a.tolist(), B(a.data)) != before:
            ctx.mismatch(f'C15|Array-multi:{op}|out-of-range-item-{where}|rejected-operation-changed-array', case,
                         f'{before[0]!r:.80} -> {a.tolist()!r:.80}')
        else:
            ctx.ok(('array-multi', op, where, spec[:3]), True)
    ctx.state(spec, op, where)


# ---- the same integer dtypes spelled as struct codes -----------------------------------------------------------------
STRUCT_INT = {'b': (8, True), 'B': (8, False), 'h': (16, True), 'H': (16, False), 'l': (32, True), 'L': (32, False),
              'i': (32, True), 'I': (32, False), 'q': (64, True), 'Q': (64, False)}


def gen_struct_value(ctx):
    rng = ctx.rng
    code = rng.choice(list(STRUCT_INT))
    n, signed = STRUCT_INT[code]
    lo, hi = (-(1 << (n - 1)), (1 << (n - 1)) - 1) if signed else (0, (1 << n) - 1)
    v = rng.choice([lo, hi, lo - 1, hi + 1, 0, -1, 1, hi // 2 + 1, lo + 1, hi - 1, rng.randint(lo, hi), hi + rng.randint(1, 1 << n), lo - rng.randint(1, 1 << n)])
    return {'kind': 'struct-value', 'code': rng.choice('<>=@') + code, 'value': v, 'route': rng.choice(['pack', 'pack-multi', 'Array-create', 'Array-set', 'Array-append'])}


def judge_struct_value(ctx, case):
    code, v, route = case['code'], case['value'], case['route']
    n, signed = STRUCT_INT[code[-1]]
    lo, hi = (-(1 << (n - 1)), (1 << (n - 1)) - 1) if signed else (0, (1 << n) - 1)
    ok = lo <= v <= hi
    with util.options(lsb0=False):
        a = None
        before = None
        if route == 'pack':
            got = call(lambda: pack(code, v))
            length = lambda r: len(r)  # noqa: E731
        elif route == 'pack-multi':
            got = call(lambda: pack(code[0] + '2' + code[1], 0, v))
            length = lambda r: len(r) // 2  # noqa: E731
        elif route == 'Array-create':
            got = call(lambda: Array(code, [v]))
            length = lambda r: len(r.data)  # noqa: E731
        else:
            a = Array(code, [0, 0])
            before = B(a.data)
            got = call((lambda: a.__setitem__(1, v)) if route == 'Array-set' else (lambda: a.append(v)))
            length = lambda r: a.itemsize  # noqa: E731
        ctx.op('struct:' + route, 'ok' if got[0] == 'ok' else type(got[1]).__name__)
        side = 'in-range' if ok else ('below' if v < lo else 'above')
        kind = ('signed' if signed else 'unsigned') + str(n)
        if ok:
            if got[0] != 'ok':
                ctx.mismatch(f'C15|struct:{route}|{kind}|valid|unexpected-exc:{type(got[1]).__name__}', case, f'{code}={v}: {got[1]!s:.80}')
            elif length(got[1]) != n:
                ctx.mismatch(f'C15|struct:{route}|{kind}|valid|length', case, f'{code}={v}: {length(got[1])} bits')
            else:
                ctx.ok(('struct', route, code[0], kind, side, v in (lo, hi)), True)
        elif got[0] == 'ok':
            ctx.mismatch(f'C15|struct:{route}|{kind}|{side}|accepted', case, f'{code}={v}')
        elif not isinstance(got[1], ValueError):
            ctx.mismatch(f'C15|struct:{route}|{kind}|{side}|wrong-exc:{type(got[1]).__name__}', case, f'{code}={v}: {got[1]!s:.80}')
        elif a is not None and B(a.data) != before:
            ctx.mismatch(f'C15|struct:{route}|{kind}|{side}|rejected-assignment-changed-target', case, f'{code}={v}')
        else:
            ctx.ok(('struct', route, code[0], kind, side, v in (lo - 1, hi + 1)), True)
    ctx.state(code, side, route)


# ---- an empty source handed over positionally together with a length / offset that lies beyond it -----------------
def empty_source_cases(ctx):
    import array as _array
    import bitarray as _bitarray
    makers = {'bytes': lambda: b'', 'bytearray': lambda: bytearray(), 'str': lambda: '', 'list': lambda: [], 'tuple': lambda: (), 'bitarray': lambda: _bitarray.bitarray(),
              'array': lambda: _array.array('B'), 'Bits': lambda: Bits(), 'BitArray': lambda: BitArray(), 'memoryview': lambda: memoryview(b''), 'BytesIO': lambda: io.BytesIO(b'')}
    with util.options(lsb0=False):
        for name, mk_ in makers.items():
            for cn in util.CLASS_NAMES:
                for kw in ({'length': 8}, {'length': 1}, {'offset': 3}, {'offset': 8, 'length': 8}, {'offset': 1, 'length': 0}):
                    case = {'kind': 'empty-source', 'source': name, 'cls': cn, 'kw': kw}
                    got = call(lambda: CLASSES[cn](mk_(), **kw))
                    ctx.op('window:empty-positional', 'ok' if got[0] == 'ok' else type(got[1]).__name__)
                    if got[0] == 'ok':
                        ctx.mismatch(f'C15|create|empty-positional-source&window-beyond-it|accepted', case, f'{cn}({name}(), {kw}) -> {len(got[1])} bits')
                    elif not isinstance(got[1], ValueError):
                        ctx.mismatch(f'C15|create|empty-positional-source&window-beyond-it|wrong-exc:{type(got[1]).__name__}', case, f'{got[1]!s:.80}')
                    else:
                        ctx.ok(('empty-source', name, tuple(kw)), True)


# ---- literal tokens ('0x..', '0b..', '0o..') with a character that is not a digit of their base --------------------------------
LITERALS = {'0x': ('0123456789abcdefABCDEF', 4, 'gzGk-.!'), '0b': ('01', 1, '2a9-.'), '0o': ('01234567', 3, '89a-.')}     # (a repeated prefix inside the digits is tolerated by the library: not used as a bad character)


def gen_literal(ctx):
    rng = ctx.rng
    pre = rng.choice(list(LITERALS))
    digits, _, bad = LITERALS[pre]
    body = ''.join(rng.choice(digits) for _ in range(rng.choice([1, 2, 3, 8, 17])))
    where = rng.choice(['none', 'none', 'end', 'end', 'middle', 'start'])
    if where != 'none':
        ch = rng.choice(bad)
        i = {'end': len(body), 'middle': len(body) // 2, 'start': 0}[where]
        body = body[:i] + ch + body[i:]
    spell = rng.choice([pre, pre.upper() if pre != '0x' or True else pre, pre])
    lit = spell + body
    if rng.random() < 0.2:
        lit = rng.choice([' ' + lit, lit + ' ', lit.replace(body[:1], body[:1] + '_', 1)])
    return {'kind': 'literal', 'pre': pre, 'lit': lit, 'where': where, 'cls': rng.choice(util.CLASS_NAMES), 'mcls': rng.choice(util.MUTABLE),
            'via': rng.choice(['ctor', 'fromstring', 'append', 'iadd', 'add', 'pack', 'pack-second', 'eq', 'find', 'ctor-second-token', 'prepend', 'insert', 'Array-trailing'])}


def judge_literal(ctx, case):
    pre, lit, via = case['pre'], case['lit'], case['via']
    digits, width, _ = LITERALS[pre]
    body = lit.strip()[2:].replace('_', '')
    ok = bool(body) and all(ch in digits for ch in body)
    exp = ''.join(format(int(ch, 16 if pre == '0x' else 2 if pre == '0b' else 8), f'0{width}b') for ch in body) if ok else None
    cls, mcls = CLASSES[case['cls']], CLASSES[case['mcls']]
    with util.options(lsb0=False):
        target = mcls('0b101')
        f = {'ctor': lambda: B(cls(lit)), 'fromstring': lambda: B(cls.fromstring(lit)), 'append': lambda: (target.append(lit), B(target)[3:])[1],
             'iadd': lambda: (target.__iadd__(lit), B(target)[3:])[1], 'prepend': lambda: (target.prepend(lit), B(target)[:-3])[1],
             'insert': lambda: (target.insert(lit, 1), B(target)[1:-2])[1], 'add': lambda: B(Bits('0b101') + lit)[3:], 'pack': lambda: B(pack(lit)),
             'pack-second': lambda: B(pack(f'uint:8, {lit}', 3))[8:], 'eq': lambda: (exp if (cls(bin=exp) if exp else cls()) == lit else 'not-equal') if ok else (Bits('0b1') == lit),
             'find': lambda: exp if Bits(bin=exp or '1').find(lit) == (0,) else 'not-found', 'ctor-second-token': lambda: B(cls(f'0b1, {lit}'))[1:],
             'Array-trailing': lambda: B(Array('u8', [1], trailing_bits=lit).data)[8:]}[via]
        got = call(f)
        ctx.op('literal:' + via, 'ok' if got[0] == 'ok' else type(got[1]).__name__)
        ic = f'{pre},{"valid" if ok else "bad-char-" + case["where"]}'
        if ok:
            if got == ('ok', exp):
                ctx.ok(('literal', pre, via, 'valid'))
            else:
                ctx.mismatch(f'C15|literal:{via}|{ic}|' + ('rejected' if got[0] == 'exc' else 'wrong-bits'), case, f'{lit!r}: {got[1]!s:.80} expected {exp[:60]}')
        elif got[0] == 'ok':
            ctx.mismatch(f'C15|literal:{via}|{ic}|accepted', case, f'{lit!r} gave {got[1]!s:.60}')
        elif not isinstance(got[1], ValueError):
            ctx.mismatch(f'C15|literal:{via}|{ic}|wrong-exc:{type(got[1]).__name__}', case, f'{got[1]!s:.80}')
        elif B(target) != '101':
            ctx.mismatch(f'C15|literal:{via}|{ic}|target-changed-by-rejected-literal', case, B(target)[:40])
        else:
            ctx.ok(('literal', pre, via, case['where']), True)


def run(ctx):
    for i in range(ctx.scale(6000, 80000)):
        ctx.run_case(judge_literal, gen_literal(ctx))
    if ctx.shard == 0:
        empty_source_cases(ctx)
    for i in range(ctx.scale(8000, 100000)):
        ctx.run_case(judge_array_multi, gen_array_multi(ctx))
    for i in range(ctx.scale(8000, 100000)):
        ctx.run_case(judge_struct_value, gen_struct_value(ctx))
    if ctx.shard == 0:
        zero_length_array(ctx)
        for c in DIRECTED:
            ctx.run_case(judge_value if c['kind'] == 'value' else judge_window, dict(c))
        endian_prop_nolength(ctx)
    for i in range(ctx.scale(48000, 400000)):
        c = gen_case(ctx)
        ctx.run_case(judge_value, c)
        if i % 999 == 0:
            ctx.sample(c)
    for i in range(ctx.scale(32000, 200000)):
        c = gen_window(ctx)
        ctx.run_case(judge_window, c)
        if i % 999 == 0:
            ctx.sample(c)


def replay(ctx, case):
    if case.get('kind') == 'literal':
        ctx.run_case(judge_literal, case)
    elif case.get('kind') == 'window':
        ctx.run_case(judge_window, case)
    elif case.get('kind') == 'endian-prop':
        endian_prop_nolength(ctx)
    elif case.get('kind') == 'zero-array':
        zero_length_array(ctx)
    elif case.get('kind') == 'array-multi':
        ctx.run_case(judge_array_multi, case)
    elif case.get('kind') == 'empty-source':
        empty_source_cases(ctx)
    elif case.get('kind') == 'struct-value':
        ctx.run_case(judge_struct_value, case)
    else:
        ctx.run_case(judge_value, case)
