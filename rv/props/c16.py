"""C16 - bit-wise operators and shifts are per-bit boolean functions with fixed length.

Every case builds one receiver (class x content x construction route x stream position x bit
order mode) and runs a battery on it:

  * `& | ^` in the plain form against each operand of the case (equal length, unequal length, the
    receiver itself; any of the four classes or a promotable str / bytes / bytearray / memoryview /
    list / tuple / generator / bitarray), the reflected form (`'0b101' & s`) for the promotable
    kinds that defer to the right operand, and the swapped form (`b & s`) for bitstring operands;
  * `~`;
  * `<<` and `>>` for every count of the case (always -1, 0, 1, 7, 8, 9, L-1, L, L+1, 10**6);
  * an in-place program (`&= |= ^= <<= >>=`, incl. `t &= t`) executed as a history on one object
    (BitArray / BitStream: same object must come back; Bits / ConstBitStream: Python's fallback
    to the binary operator must give a new object and leave the old one alone);
  * the algebraic laws, computed with the library only.

The oracle is two independent computations - per character and on int(bits, 2) masked to len -
which must agree with each other (else the harness itself fails loudly) and with the library.
After every call the receiver's and the operand's content are compared with what they were.

Not judged here (other properties own it): the position of a *receiver* (C06 / T10), content after
a raising in-place form (C03), aliasing between result and operands (C04)."""
from __future__ import annotations

import operator

import bitarray
import bitstring
from bitstring import Bits, ConstBitStream

from rv import util
from rv.model import bits as M
from rv.util import B, CLASSES, call, exc_matches

AMBIENT = ['bytealigned', 'mxfp_overflow']      # options this property does not depend on: a quarter of the cases run with them switched
PROP = 'C16'
SHARDS = {'quick': 4, 'thorough': 16}
RULE = ("random cases: receiver class x content kind (random/sparse/periodic/constant/single bit; lengths from "
        "the boundary pool 0,1,..,63,64,65,127,128,129,..,8193, plus 20k/70k bits in thorough) x route "
        "(bin=, slice of a larger object, bytes with offset, token string) x stream position x lsb0 on/off; "
        "operands: one of equal length (random, equal content, complement, zeros, ones), optionally the "
        "receiver itself and one of unequal length, each as one of 4 classes or a promotable "
        "str/hex str/bytes/bytearray/memoryview/list/tuple/generator/bitarray; shift counts "
        "{-1,0,1,7,8,9,L-1,L,L+1,10**6} plus random ones; an in-place program of 6-10 steps. Small space "
        "enumerated completely (all content pairs up to 4 (quick) / 5 (thorough) bits, all 4 classes, all shift "
        "counts -1..L+2). key = (operator, form, receiver class, operand kind, length relation / shift-count "
        "class, L bucket); non-trivial = receiver non-empty and the call is expected to return a value")
ANCHORS = ['Bits.__and__', 'Bits.__or__', 'Bits.__xor__', 'Bits.__rand__', 'Bits.__ror__', 'Bits.__rxor__',
           'Bits.__invert__', 'Bits.__lshift__', 'Bits.__rshift__', 'Bits._ilshift', 'Bits._irshift',
           'Bits._invert_all',
           'BitArray.__iand__', 'BitArray.__ior__', 'BitArray.__ixor__', 'BitArray.__ilshift__',
           'BitArray.__irshift__',
           'BitStore.__and__', 'BitStore.__or__', 'BitStore.__xor__', 'BitStore.__iand__', 'BitStore.__ior__',
           'BitStore.__ixor__', 'BitStore.invert_msb0', 'BitStore.invert_lsb0',
           'ConstBitStream.__and__', 'ConstBitStream.__or__', 'ConstBitStream.__xor__']
REQUIRED_OPS = ['and:plain', 'or:plain', 'xor:plain', 'and:reflected', 'or:reflected', 'xor:reflected',
                'and:swapped', 'or:swapped', 'xor:swapped', 'and:inplace', 'or:inplace', 'xor:inplace',
                'and:inplace-fallback', 'or:inplace-fallback', 'xor:inplace-fallback',
                'invert:plain', 'lshift:plain', 'rshift:plain', 'lshift:inplace', 'rshift:inplace',
                'lshift:inplace-fallback', 'rshift:inplace-fallback',
                'law:double-invert', 'law:xor-self', 'law:and-or-self', 'law:de-morgan-and', 'law:de-morgan-or']
REQUIRED_SENTINELS = ['S6']
MIN_EVALS = {'quick': 200000, 'thorough': 5000000}
ASSUMPTIONS = ['"<<" moves bits towards the most significant end in both bit-order modes (fixed by the '
               'integer clause of the statement: uint is mode independent)',
               'the result class of an operator is the class of the left bitstring operand; for a promotable '
               'left operand (reflected form) the class of the bitstring operand',
               'bitarray on the left of an operator never reaches the reflected method (bitarray raises '
               'TypeError itself), so that form is not generated',
               'position of a receiver, content after a raising in-place form and result/operand aliasing '
               'are judged by C06, C03 and C04, not here']

OPS = {'and': operator.and_, 'or': operator.or_, 'xor': operator.xor}
IOPS = {'and': operator.iand, 'or': operator.ior, 'xor': operator.ixor}
SHIFTS = {'lshift': operator.lshift, 'rshift': operator.rshift}
ISHIFTS = {'lshift': operator.ilshift, 'rshift': operator.irshift}

BITSTRING_KINDS = ['Bits', 'BitArray', 'ConstBitStream', 'BitStream']
PROMOTABLE = ['str', 'hexstr', 'bytes', 'bytearray', 'memoryview', 'list', 'tuple', 'gen', 'truthy', 'truthy-iter', 'bitarray'] + util.SUBCLASS_KINDS + ['failing-iter']
BYTE_KINDS = ('bytes', 'bytearray', 'memoryview', 'bytes-sub', 'bytearray-sub', 'memoryview-ro', 'memoryview-strided', 'memoryview-reversed')
REFLECTABLE = {'str', 'hexstr', 'bytes', 'bytearray', 'memoryview', 'list', 'tuple', 'gen', 'truthy', 'truthy-iter'} | (set(util.SUBCLASS_KINDS) - {'frozenbitarray', 'frozenbitarray-little', 'bitarray-little'}) | {'failing-iter'}
ROUTES = ['bin', 'bin', 'slice', 'bytes', 'auto', 'file', 'file-limited', 'frozenbitarray', 'frozenbitarray-kw', 'bitarray-kw',
          'memoryview-ro'] + ['made:' + r for r in ('from-BitArray', 'from-BitStream', 'copy', 'pack', 'bin-assigned', 'uintN-assigned', 'appended-to-empty',
                                                      'cleared-then-iadd', 'shifted-out-then-or', 'add-halves')]
UINT_LIMIT = 257


# ---- the two independent models ---------------------------------------------------------------
FAILS = ('exc', ('OperandFailure',))      # an iterable operand that fails while it is read: the caller's exception comes out


def model_binary(a: str, b: str, op: str):
    if len(a) != len(b):
        return ('exc', ('ValueError',))
    r1, r2 = M.bitop(a, b, op), M.bitop_int(a, b, op)
    if r1 != r2:
        raise AssertionError(f'oracle self-disagreement for {op}')
    return ('ok', r1)


def model_invert(a: str):
    if not a:
        return ('exc', ('Error',))
    r1 = M.inv(a)
    n = len(a)
    r2 = format(~int(a, 2) & ((1 << n) - 1), f'0{n}b')
    r3 = ''.join('0' if ch == '1' else '1' for ch in a)
    if not r1 == r2 == r3:
        raise AssertionError('oracle self-disagreement for invert')
    return ('ok', r1)


def model_shift(a: str, n: int, op: str):
    L = len(a)
    if n < 0 or L == 0:
        return ('exc', ('ValueError',))
    x, mask = int(a, 2), (1 << L) - 1
    if op == 'lshift':
        r1 = ''.join(a[i + n] if i + n < L else '0' for i in range(L))
        r2 = format((x << min(n, L)) & mask, f'0{L}b')      # shifting by L already clears everything (keeps the big-int oracle affordable)
    else:
        r1 = ''.join(a[i - n] if i - n >= 0 else '0' for i in range(L))
        r2 = format(x >> n, f'0{L}b')
    if r1 != r2:
        raise AssertionError(f'oracle self-disagreement for {op}')
    return ('ok', r1)


def nclass(n: int, L: int) -> str:
    if L == 0:
        return 'empty-receiver,negative-count' if n < 0 else 'empty-receiver'
    if n < 0:
        return 'negative-count'
    if n == 0:
        return 'zero-count'
    if n < L:
        return 'count<len'
    if n == L:
        return 'count=len'
    if n >= 2 ** 63:
        return 'count>machine-word'
    return 'count>len'


# ---- construction ---------------------------------------------------------------------------------
def build_receiver(c, bits=None):
    """Always built in msb0 mode (construction routes under lsb0 are C12's business)."""
    with util.options(lsb0=False):
        return _build_receiver(c, bits)


def _build_receiver(c, bits=None):
    cls = CLASSES[c['cls']]
    a = c['a'] if bits is None else bits
    route = c.get('route', 'bin')
    if not a:
        s = cls()
    elif route == 'slice':
        s = cls(bin='1' + a + '01')[1:-2]
    elif route == 'bytes':
        off = (len(a) * 5 + 3) % 8
        padded = '1' * off + a
        padded += '1' * (-len(padded) % 8)
        s = cls(bytes=int(padded, 2).to_bytes(len(padded) // 8, 'big'), offset=off, length=len(a))
    elif route == 'auto' and len(a) <= 200:
        s = cls('0b' + a)
    elif route.startswith('made:') and c['cls'] in util.MUTABLE:
        s = util.mk_via(cls, a, route[5:])          # a mutable object that came to hold its bits in another way than through its constructor
    elif route in ('frozenbitarray', 'frozenbitarray-kw', 'bitarray-kw'):
        # built from somebody else's (possibly immutable, possibly little-endian) bitarray
        import bitarray
        if route == 'bitarray-kw':
            s = cls(bitarray=bitarray.bitarray(a, endian='little' if len(a) % 2 else 'big'))
        else:
            fb = bitarray.frozenbitarray(a, endian='little' if len(a) % 3 == 1 else 'big')
            s = cls(fb) if route == 'frozenbitarray' else cls(bitarray=fb)
    elif route == 'memoryview-ro' and len(a) % 8 == 0:
        s = cls(memoryview(bytearray(int(a, 2).to_bytes(len(a) // 8, 'big'))).toreadonly())
    elif route in ('file', 'file-limited'):
        # backed by a file (memory-mapped while it stays whole); 'file-limited' is the first len(a) bits of a longer file
        import os
        import tempfile
        tail = '' if (route == 'file' and len(a) % 8 == 0) else '1' * (-len(a) % 8) + '10110111' * 2
        raw = a + tail
        fd, path = tempfile.mkstemp(prefix='rv_c16_')
        try:
            os.write(fd, int(raw, 2).to_bytes(len(raw) // 8, 'big'))
            os.close(fd)
            s = cls(filename=path) if not tail else cls(filename=path, length=len(a))
        finally:
            os.unlink(path)
    else:
        s = cls(bin=a)
    p = c.get('pos')
    if p is not None and c['cls'] in util.STREAMS and type(s) is cls:
        s.pos = min(p, len(a))
    return s


def build_arg(spec, receiver):
    """(object, bits it stands for, kind).  A stream operand may carry a position."""
    k = spec[0]
    if k == 'self':
        return receiver, None, 'self'
    o = util.build_operand(spec)
    if k in util.STREAMS and len(spec) > 2 and spec[2] is not None:
        o.pos = min(spec[2], len(spec[1]))
    return o, spec[1], k


def arg_unchanged(o, bits, kind) -> bool:
    if kind in CLASSES:
        return len(o) == len(bits) and B(o) == bits
    if kind == 'list':
        return o == [int(ch) for ch in bits]
    if kind == 'bytearray':
        return bytes(o) == (int(bits, 2).to_bytes(len(bits) // 8, 'big') if bits else b'')
    if kind == 'memoryview':
        return bytes(o) == (int(bits, 2).to_bytes(len(bits) // 8, 'big') if bits else b'')
    if kind == 'bitarray':
        return o.to01() == bits
    return True        # str / bytes / tuple are immutable, a generator has no content to keep


def short(case):
    c = dict(case)
    if len(c.get('a', '')) > 160:
        c['a'] = c['a'][:48] + f'...({len(case["a"])} bits)'
    ops = []
    for sp in c.get('operands', []):
        if len(sp) > 1 and len(sp[1]) > 160:
            sp = [sp[0], sp[1][:48] + f'...({len(sp[1])} bits)'] + list(sp[2:])
        ops.append(sp)
    c['operands'] = ops
    prog = []
    for st in c.get('prog', []):
        sp = st[1]
        if isinstance(sp, list) and len(sp) > 1 and len(sp[1]) > 160:
            st = [st[0], [sp[0], sp[1][:48] + f'...({len(sp[1])} bits)'] + list(sp[2:])]
        prog.append(st)
    c['prog'] = prog
    return c


# ---- judging --------------------------------------------------------------------------------------
class Battery:
    def __init__(self, ctx, c):
        self.ctx, self.c = ctx, c
        self.a = c['a']
        self.L = len(self.a)
        self.cls = CLASSES[c['cls']]
        self.cname = c['cls']
        self.lb = util.lbucket(self.L)
        self.s = build_receiver(c)
        self.results = []

    # -- bookkeeping
    def bad(self, opk, form, iclass, shape, detail=''):
        self.ctx.mismatch(f'C16|{opk}:{form}|{self.cname}/{iclass}|{shape}', self.c, detail)

    def good(self, opk, form, kind, iclass, nontrivial):
        self.ctx.ok((opk, form, self.cname, kind, iclass, self.lb, self.c.get('lsb0', False)), nontrivial)

    def frame(self, opk, form, iclass, arg=None):
        """Receiver (non-in-place forms) and operand must hold what they held before the call."""
        okay = True
        if len(self.s) != self.L or B(self.s) != self.a:
            self.bad(opk, form, iclass, 'receiver-modified', f'receiver now {B(self.s)[:80]!r}, was {self.a[:80]!r}')
            self.s = build_receiver(self.c)
            okay = False
        if arg is not None and arg[2] != 'self' and not arg_unchanged(*arg):
            self.bad(opk, form, iclass, 'operand-modified', f'{arg[2]} operand no longer holds {arg[1][:80]!r}')
            okay = False
        return okay

    def value(self, opk, form, iclass, kind, got, exp, exp_cls, inputs, nontrivial=None):
        """Compare one outcome of a value-returning form with the oracle.  Returns True if it held."""
        ctx = self.ctx
        ctx.op(f'{opk}:{form}', 'ok' if got[0] == 'ok' else type(got[1]).__name__)
        if exp[0] == 'exc':
            if got[0] == 'ok':
                self.bad(opk, form, iclass, 'no-raise', f'returned {str(got[1])[:80]} expected {exp[1]}')
                return False
            if not exc_matches(got[1], exp[1]):
                self.bad(opk, form, iclass, 'wrong-exc:' + type(got[1]).__name__, f'{got[1]!r:.120} expected {exp[1]}')
                return False
            self.good(opk, form, kind, iclass, False)
            return True
        if got[0] == 'exc':
            self.bad(opk, form, iclass, 'unexpected-exc:' + type(got[1]).__name__, f'{got[1]!r:.160}')
            return False
        r, bits = got[1], exp[1]
        held = True
        if not isinstance(r, Bits):
            self.bad(opk, form, iclass, 'result-type', f'result is a {type(r).__name__}')
            return False
        if len(r) != len(bits):
            self.bad(opk, form, iclass, 'length', f'len {len(r)} expected {len(bits)}')
            held = False
        elif B(r) != bits:
            self.bad(opk, form, iclass, 'value', f'got {B(r)[:100]} expected {bits[:100]}')
            held = False
        elif 0 < len(bits) <= UINT_LIMIT:
            u = call(lambda: r.uint)
            if u != ('ok', int(bits, 2)):
                self.bad(opk, form, iclass, 'uint-disagrees', f'result.uint {str(u[1])[:60]} expected {int(bits, 2)}')
                held = False
        if type(r) is not exp_cls:
            self.bad(opk, form, iclass, 'result-class', f'result class {type(r).__name__} expected {exp_cls.__name__}')
            held = False
        elif exp_cls.__name__ in util.STREAMS and not any(r is x for x in inputs):
            p = call(lambda: r.pos)
            if p != ('ok', 0):
                self.bad(opk, form, iclass, 'result-pos', f'new stream has pos {str(p[1])[:40]}')
                held = False
        if held:
            self.good(opk, form, kind, iclass, bool(bits) if nontrivial is None else nontrivial)
            if type(r).__name__ in util.MUTABLE and not any(r is x for x in inputs) and len(self.results) < 64:
                self.results.append(r)          # the caller's own new object: changed in place at the end of the battery (see scribble)
        return held

    def scribble(self):
        """Every new mutable result is the caller's to change; afterwards the same operators on fresh operands give what they gave before."""
        n = 0
        for r in self.results:
            if call(lambda: (r.invert(), r.append('0b1'), r.set(1, 0)))[0] == 'ok':
                n += 1
        self.results = []
        if not n or not self.L:
            return
        self.ctx.op('operators-after-results-were-changed-in-place')
        t = build_receiver(self.c)
        zeros, ones = '0' * self.L, '1' * self.L
        for name, f, exp in (('xor:self', lambda: t ^ t, zeros), ('and:self', lambda: t & t, self.a), ('or:self', lambda: t | t, self.a),
                             ('invert', lambda: ~t, model_invert(self.a)[1]), ('lshift:all', lambda: t << self.L, zeros), ('rshift:all', lambda: t >> self.L, zeros),
                             ('lshift:1', lambda: t << 1, self.a[1:] + '0'), ('rshift:1', lambda: t >> 1, '0' + self.a[:-1]),
                             ('xor:zeros', lambda: t ^ Bits(self.L), self.a), ('or:not', lambda: t | ~t, ones), ('and:not', lambda: t & ~t, zeros)):
            got = call(lambda: B(f()))
            if got != ('ok', exp):
                self.bad(name.split(':')[0], 'after-results-were-changed-in-place', name, 'value' if got[0] == 'ok' else 'unexpected-exc:' + type(got[1]).__name__,
                         f'{name}: got {str(got[1])[:80]} expected {exp[:80]}')
            else:
                self.ctx.ok(('after-scribble', name, self.cname), True)

    # -- the non-in-place forms
    def binary(self, spec):
        for opk, f in OPS.items():
            # plain: s OP x
            arg = build_arg(spec, self.s)
            o, bits, kind = arg
            b = self.a if kind == 'self' else bits
            rel = ('self-operand' if kind == 'self' else 'both-empty' if not self.a and not b else
                   'equal-length' if len(b) == self.L else 'unequal-length')
            ocat = kind if kind in ('self', 'bitarray') else 'bitstring' if kind in CLASSES else 'promotable'
            iclass = f'{rel},{ocat}-operand'
            exp = model_binary(self.a, b, opk) if kind != 'failing-iter' else FAILS
            got = call(lambda: f(self.s, o))
            self.value(opk, 'plain', iclass, kind, got, exp, self.cls, (self.s, o))
            self.frame(opk, 'plain', iclass, arg)
            # reflected: x OP s with x promotable, swapped: x OP s with x a bitstring
            if kind in REFLECTABLE or kind in CLASSES:
                form = 'reflected' if kind in REFLECTABLE else 'swapped'
                arg = build_arg(spec, self.s)
                o = arg[0]
                exp = model_binary(b, self.a, opk) if kind != 'failing-iter' else FAILS
                got = call(lambda: f(o, self.s))
                self.value(opk, form, iclass, kind, got, exp, self.cls if form == 'reflected' else CLASSES[kind],
                           (self.s, o))
                self.frame(opk, form, iclass, arg)

    def invert(self):
        exp = model_invert(self.a)
        iclass = 'non-empty' if self.a else 'empty'
        got = call(lambda: ~self.s)
        held = self.value('invert', 'plain', iclass, '-', got, exp, self.cls, (self.s,))
        self.frame('invert', 'plain', iclass)
        return got[1] if held and got[0] == 'ok' else None

    def shifts(self):
        for n in self.c['shifts']:
            for opk, f in SHIFTS.items():
                exp = model_shift(self.a, cv(n), opk)
                iclass = nclass(cv(n), self.L) + (',numpy-count' if isinstance(n, list) else '')
                got = call(lambda: f(self.s, co(n)))
                self.value(opk, 'plain', iclass, '-', got, exp, self.cls, (self.s,),
                           nontrivial=exp[0] == 'ok')
                self.frame(opk, 'plain', iclass)

    # -- laws computed with the library alone
    def laws(self, eq_bits):
        ctx, s = self.ctx, self.s
        if not self.a:
            return

        def law(name, f):
            got = call(f)
            ctx.op(f'law:{name}', 'ok' if got[0] == 'ok' else type(got[1]).__name__)
            if got[0] == 'exc':
                self.bad('law', name, 'non-empty', 'unexpected-exc:' + type(got[1]).__name__, f'{got[1]!r:.160}')
            elif got[1] is not True:
                self.bad('law', name, 'non-empty', 'not-equal', str(got[1])[:200])
            else:
                self.good('law', name, '-', 'non-empty', True)

        zeros = '0' * self.L
        law('double-invert', lambda: (~~s == s and B(~~s) == self.a) or (B(~~s)[:80], self.a[:80]))
        law('xor-self', lambda: ((s ^ s) == Bits(self.L) and B(s ^ s) == zeros and not (s ^ s).any(True))
            or B(s ^ s)[:80])
        law('and-or-self', lambda: ((s & s) == s and (s | s) == s and (s & s) == (s | s)
                                    and B(s & s) == self.a == B(s | s)) or (B(s & s)[:80], B(s | s)[:80]))
        if eq_bits is not None:
            for k in ('Bits', self.cname):
                t = util.mk(k, eq_bits)
                law('de-morgan-and', lambda: (~(s & t) == (~s | ~t) and B(~(s & t)) == B(~s | ~t))
                    or (B(~(s & t))[:80], B(~s | ~t)[:80]))
                law('de-morgan-or', lambda: (~(s | t) == (~s & ~t) and B(~(s | t)) == B(~s & ~t))
                    or (B(~(s | t))[:80], B(~s & ~t)[:80]))
                law('xor-twice', lambda: ((s ^ t) ^ t == s and (s ^ t) == (t ^ s)) or B((s ^ t) ^ t)[:80])
                law('absorption', lambda: ((s & (s | t)) == s and (s | (s & t)) == s) or B(s & (s | t))[:80])
                if len(t) != len(eq_bits) or B(t) != eq_bits:
                    self.bad('law', 'operands', 'non-empty', 'operand-modified', 'second operand changed during the laws')
        self.frame('law', 'all', 'non-empty')

    # -- in-place history
    def program(self):
        c, ctx = self.c, self.ctx
        mutable = self.cname in util.MUTABLE
        t = build_receiver(c)
        m = self.a
        snaps = []
        for step in c.get('prog', []):
            opk, argspec = step[0], step[1]
            L = len(m)
            if opk in IOPS:
                arg = build_arg(argspec, t)
                o, bits, kind = arg
                b = m if kind == 'self' else bits
                rel = ('self-operand' if kind == 'self' else 'both-empty' if not m and not b else
                       'equal-length' if len(b) == L else 'unequal-length')
                ocat = kind if kind in ('self', 'bitarray') else 'bitstring' if kind in CLASSES else 'promotable'
                iclass = f'{rel},{ocat}-operand'
                exp = model_binary(m, b, opk) if kind != 'failing-iter' else FAILS
                f = IOPS[opk]
                got = call(lambda: f(t, o))
            else:
                arg, kind = None, '-'
                n = argspec
                iclass = nclass(cv(n), L) + (',numpy-count' if isinstance(n, list) else '')
                exp = model_shift(m, cv(n), opk)
                f = ISHIFTS[opk]
                got = call(lambda: f(t, co(n)))
            if mutable:
                form = 'inplace'
                ctx.op(f'{opk}:{form}', 'ok' if got[0] == 'ok' else type(got[1]).__name__)
                if exp[0] == 'exc':
                    if got[0] == 'ok':
                        self.bad(opk, form, iclass, 'no-raise', f'expected {exp[1]}')
                    elif not exc_matches(got[1], exp[1]):
                        self.bad(opk, form, iclass, 'wrong-exc:' + type(got[1]).__name__, f'{got[1]!r:.120}')
                    else:
                        self.good(opk, form, kind, iclass, False)
                elif got[0] == 'exc':
                    self.bad(opk, form, iclass, 'unexpected-exc:' + type(got[1]).__name__, f'{got[1]!r:.160}')
                else:
                    held = True
                    if got[1] is not t:
                        self.bad(opk, form, iclass, 'identity', f'in-place form returned another object ({type(got[1]).__name__})')
                        held = False
                    if type(t) is not self.cls:
                        self.bad(opk, form, iclass, 'result-class', f'receiver became {type(t).__name__}')
                        held = False
                    if len(t) != len(exp[1]):
                        self.bad(opk, form, iclass, 'length', f'len {len(t)} expected {len(exp[1])}')
                        held = False
                    elif B(t) != exp[1]:
                        self.bad(opk, form, iclass, 'value', f'receiver holds {B(t)[:100]} expected {exp[1][:100]}')
                        held = False
                    elif 0 < L <= UINT_LIMIT and call(lambda: t.uint) != ('ok', int(exp[1], 2)):
                        self.bad(opk, form, iclass, 'uint-disagrees', 'receiver.uint differs from the integer result')
                        held = False
                    if held:
                        self.good(opk, form, kind, iclass, bool(exp[1]))
                if arg is not None and kind != 'self' and not arg_unchanged(*arg):
                    self.bad(opk, form, iclass, 'operand-modified', f'{kind} operand no longer holds {bits[:80]!r}')
                if isinstance(t, Bits) and type(t) is self.cls:
                    m = B(t)                         # resynchronise (content after a raise is C03's business)
                else:
                    t, m = build_receiver(c), self.a
                # snapshots taken after earlier steps are values of their own: a later in-place operator must not reach them
                for snap, bits_then, how, after in snaps:
                    if B(snap) != bits_then:
                        self.bad(opk, 'inplace', iclass, f'earlier-{how}-snapshot-changed', f'taken after {after}: {bits_then[:60]} -> {B(snap)[:60]}')
                snaps[:] = [sn for sn in snaps if B(sn[0]) == sn[1]][-3:]
                how = ('Bits', 'ConstBitStream', 'copy()', 'copy.copy')[len(m) % 4]
                sn = call(lambda: Bits(t) if how == 'Bits' else ConstBitStream(t) if how == 'ConstBitStream' else t.copy() if how == 'copy()' else __import__('copy').copy(t))
                if sn[0] == 'ok' and sn[1] is not t:
                    snaps.append((sn[1], m, how, opk))
            else:
                # Bits / ConstBitStream have no in-place forms: Python falls back to the binary operator
                form = 'inplace-fallback'
                before = t
                held = self.value(opk, form, iclass, kind, got, exp, self.cls, (t, arg[0] if arg else None))
                if len(before) != L or B(before) != m:
                    self.bad(opk, form, iclass, 'receiver-modified', f'immutable receiver now {B(before)[:80]!r}, was {m[:80]!r}')
                if arg is not None and kind != 'self' and not arg_unchanged(*arg):
                    self.bad(opk, form, iclass, 'operand-modified', f'{kind} operand no longer holds {bits[:80]!r}')
                if held and got[0] == 'ok':
                    t, m = got[1], exp[1]
                elif got[0] == 'ok' or len(before) != L or B(before) != m:
                    t, m = build_receiver(c), self.a
            ctx.state(self.cname, hash(m), opk)


def judge(ctx, c):
    with util.options(lsb0=bool(c.get('lsb0', False))):
        bt = Battery(ctx, c)
        eq_bits = None
        for spec in c['operands']:
            bt.binary(spec)
            if spec[0] != 'self' and len(spec[1]) == bt.L and eq_bits is None:
                eq_bits = spec[1]
        bt.invert()
        bt.shifts()
        bt.laws(eq_bits)
        bt.program()
        bt.scribble()
        # once more at the very end: the receiver used for all non-in-place forms is what it was
        bt.frame('battery', 'all', 'any')
    ctx.state(c['cls'], bt.L, hash(c['a']), c.get('lsb0', False))


# ---- generation -----------------------------------------------------------------------------------
def pick_kind(rng, bits, kinds=None):
    k = rng.choice(kinds or (BITSTRING_KINDS + PROMOTABLE))
    if k in BYTE_KINDS and (len(bits) % 8 or not bits):
        k = rng.choice(['str', 'list', 'bitarray'])
    if k == 'hexstr' and (len(bits) % 4 or not bits):
        k = 'str'
    if k in ('list', 'tuple', 'gen', 'truthy', 'truthy-iter', 'list-sub', 'tuple-sub') and len(bits) > 3000:
        k = 'bitarray'
    return k


def make_spec(rng, bits, kinds=None):
    k = pick_kind(rng, bits, kinds)
    if k in util.STREAMS:
        return [k, bits, rng.randint(0, len(bits))]
    return [k, bits]


def shift_pool(L):
    pool = sorted({-1, 0, 1, 7, 8, 9, L - 1, L, L + 1, 10 ** 6, 2 ** 31, 2 ** 63 - 1, 2 ** 63, 2 ** 64, 10 ** 20}) + [True, False]   # a bool is an int
    if _np is not None:
        # ... and so is a numpy integer scalar of any width (its own arithmetic wraps or overflows at that width: the count is a number, not a numpy operand)
        pool += [['np', 'uint8', 3], ['np', 'uint8', min(L, 200)], ['np', 'int8', 5], ['np', 'uint8', 0], ['np', 'int64', L + 1], ['np', 'uint16', 300],
                 ['np', 'uint64', 2 ** 63], ['np', 'int32', 1], ['np', 'int8', -1]]
    return pool


try:
    import numpy as _np
except Exception:  # noqa: BLE001 - numpy is optional
    _np = None


def cv(n):
    """The integer a shift count stands for."""
    return int(n[2]) if isinstance(n, list) else n


def co(n):
    """The object handed to the library for a shift count."""
    return getattr(_np, n[1])(n[2]) if isinstance(n, list) else n


def related(rng, a):
    L = len(a)
    r = rng.random()
    if r < 0.55:
        return util.content(rng, L)
    if r < 0.65:
        return a
    if r < 0.75:
        return M.inv(a)
    if r < 0.85:
        return '0' * L
    if r < 0.95:
        return '1' * L
    return util.rb(rng, L)


def gen_prog(rng, a, operands):
    L = len(a)
    prog = []
    for _ in range(rng.randint(6, 10)):
        r = rng.random()
        if r < 0.55:
            opk = rng.choice(['and', 'or', 'xor'])
            q = rng.random()
            if q < 0.2:
                spec = ['self']
            elif q < 0.35 and operands:
                spec = rng.choice(operands)
            elif q < 0.45:
                lb = rng.choice([x for x in (L - 1, L + 1, 0, L + 8, 2 * L) if x >= 0 and x != L])
                spec = make_spec(rng, util.rb(rng, lb))
            else:
                spec = make_spec(rng, util.content(rng, L))
            prog.append([opk, spec])
        else:
            n = rng.choice([0, 1, 1, 2, 3, 7, 8, 9, L - 1, L, L + 1, L // 2, -1, 10 ** 6, rng.randint(0, L + 2), rng.choice([2 ** 31, 2 ** 63, 2 ** 64 + 1, 10 ** 20])])
            if _np is not None and rng.random() < 0.15:
                n = rng.choice([['np', 'uint8', rng.choice([1, 3, 8, min(L, 255)])], ['np', 'int8', 2], ['np', 'int64', L // 2], ['np', 'uint16', L % 60000]])
            prog.append([rng.choice(['lshift', 'rshift']), n])
    return prog


def gen_case(ctx):
    rng = ctx.rng
    r = rng.random()
    if r < 0.003 and not ctx.quick:
        L = rng.choice([20000, 20000, 70000])
    elif r < 0.0045:
        L = rng.choice([32768, 65536, 65536 + 8, 8192, 32768 + 64])        # lengths at which an in-place / native path could take over
    elif r < 0.55:
        L = rng.choice(util.SHORT_LENGTHS)
    elif r < 0.93:
        L = rng.choice(util.MID_LENGTHS)
    else:
        L = rng.choice(util.LENGTHS)
    a = util.content(rng, L)
    cls = rng.choice(util.CLASS_NAMES)
    operands = [make_spec(rng, related(rng, a))]
    if rng.random() < 0.5:
        operands.append(['self'])
    if rng.random() < 0.6:
        cands = [x for x in (L - 1, L + 1, L - 8, L + 8, 0, 2 * L, L + 64, rng.choice(util.MID_LENGTHS)) if x >= 0 and x != L]
        lb = rng.choice(cands)
        operands.append(make_spec(rng, util.content(rng, lb)))
    if rng.random() < 0.25:
        operands.append(make_spec(rng, related(rng, a)))
    rng.shuffle(operands)
    sh = shift_pool(L) + [rng.randint(0, L + 2), -rng.randint(2, 100)]
    if L > 2 and rng.random() < 0.5:
        sh.append(rng.randint(1, L - 1))
    return {'cls': cls, 'a': a, 'pos': rng.randint(0, L) if cls in util.STREAMS else None,
            'route': rng.choice(ROUTES), 'lsb0': rng.random() < 0.2, 'operands': operands,
            'shifts': sorted({x for x in sh if not isinstance(x, list)}) + [x for x in sh if isinstance(x, list)], 'prog': gen_prog(rng, a, operands)}


def small_space(ctx):
    """All pairs of contents up to lmax bits (equal and unequal lengths) x 4 receiver classes, with all
    shift counts -1..L+2; the operand kind and the in-place program rotate deterministically."""
    lmax = 4 if ctx.quick else 5
    kinds = ['Bits', 'str', 'BitArray', 'list', 'ConstBitStream', 'bitarray', 'BitStream', 'tuple']
    i = 0
    for la in range(lmax + 1):
        for xa in range(1 << la):
            a = format(xa, f'0{la}b') if la else ''
            for lb in range(lmax + 1):
                for xb in range(1 << lb):
                    b = format(xb, f'0{lb}b') if lb else ''
                    for ci, cls in enumerate(util.CLASS_NAMES):
                        i += 1
                        if not ctx.mine(i):
                            continue
                        kind = kinds[(xa + xb + la + ci) % len(kinds)]
                        spec = [kind, b, (xa + xb) % (lb + 1)] if kind in util.STREAMS else [kind, b]
                        iop = ['and', 'or', 'xor'][(xa + xb + ci) % 3]
                        prog = [[iop, spec], ['lshift', (xa + lb) % (la + 2)], [iop, ['self']],
                                ['rshift', (xb + la) % (la + 2)]]
                        yield {'cls': cls, 'a': a, 'pos': (xa + xb) % (la + 1) if cls in util.STREAMS else None,
                               'route': 'bin', 'lsb0': False, 'operands': [spec] + ([['self']] if xb == 0 else []),
                               'shifts': list(range(-1, la + 3)), 'prog': prog}


def directed(ctx):
    """Shapes every run must see: every class x every operand kind (incl. reflected), the special cases
    in the code (self operand, count clamped to len, empty operands), word-boundary lengths with
    constant contents, positioned streams."""
    cases = []
    for cls in util.CLASS_NAMES:
        pos = 3 if cls in util.STREAMS else None
        for L in (0, 1, 7, 8, 9, 63, 64, 65, 127, 128, 129, 1000):
            for a in {'1' * L, '0' * L, ('10' * L)[:L], ('0' * (L - 1) + '1') if L else ''}:
                b = ('110' * L)[:L]
                ops = [[k, b] for k in BITSTRING_KINDS + PROMOTABLE
                       if not (k in BYTE_KINDS and (L % 8 or not L))
                       and not (k == 'hexstr' and (L % 4 or not L))]
                ops = [sp + [len(b) // 2] if sp[0] in util.STREAMS else sp for sp in ops]
                if a != '1' * L:
                    ops = ops[:2] + ops[4:6]
                ops += [['self'], ['Bits', b + '1'], ['str', b[:-1] if b else '1'], ['str', ''] if L else ['list', '1']]
                prog = [['and', ['self']], ['or', ['self']], ['xor', ['str', b]], ['lshift', 1], ['rshift', L],
                        ['and', ['Bits', b + '0']], ['xor', ['self']], ['or', ['bitarray', b]], ['lshift', L + 1],
                        ['rshift', -1], ['lshift', 0], ['rshift', 10 ** 6]]
                for lsb0 in (False, True):
                    if lsb0 and a != '1' * L:
                        continue
                    cases.append({'cls': cls, 'a': a, 'pos': pos, 'route': 'bin', 'lsb0': lsb0, 'operands': ops,
                                  'shifts': shift_pool(L), 'prog': prog})
    for c in cases:
        ctx.run_case(judge, c)


def run(ctx):
    if ctx.shard == 0:
        directed(ctx)
    for c in small_space(ctx):
        ctx.run_case(judge, c)
    ctx.exhaustive[f'all content pairs up to {4 if ctx.quick else 5} bits x 4 classes x (& | ^ plain, ~, '
                   f'<< >> by -1..L+2)'] = True
    n = ctx.scale(12000, 480000)
    for i in range(n):
        c = gen_case(ctx)
        ctx.run_case(judge, c)
        if i % 499 == 0:
            ctx.sample(short(c))
    bitstring.options.lsb0 = False


def replay(ctx, case):
    ctx.run_case(judge, case)
