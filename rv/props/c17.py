"""C17 - byte and file serialisation is lossless and zero-padded; windowed read-back is exact."""
from __future__ import annotations

import atexit
import hashlib
import io
import os
import shutil
import tempfile
import traceback

from bitstring import Array, Bits

from rv import util
from rv.util import B, CLASSES, call, exc_matches, mk, rb

AMBIENT = ['bytealigned', 'mxfp_overflow']      # options this property does not depend on: a quarter of the cases run with them switched
PROP = 'C17'
SHARDS = {'quick': 4, 'thorough': 16}
RULE = ("enumerated: every length 8*b+r (b = L//8 for every L of the boundary length pool, r = 0..7) x "
        "{Bits, BitArray, ConstBitStream, BitStream, Array}; random: construction route (bin=, bytes=+length, "
        "slice of a longer object, whole file, length-limited file) x content kind for the serialisers; "
        "source size x (offset, length) window (valid windows only, boundary biased: none/0/aligned/"
        "unaligned offset; none/empty/to-end/mid-byte/byte-end length) x {bytes=, bytearray, BytesIO, file "
        "handle, filename=} x class for read-back; dtype x existing items x source size x n x "
        "{handle, BytesIO, constructor, tofile round trip} for Array.fromfile; one (quick) / seven (thorough) "
        "objects around the 100 MiB tofile chunk size written to a hashing sink.  key = (direction/op, "
        "container, length mod 8, route or window class, size class); non-trivial = at least one bit of "
        "content (serialisers) / non-empty selected window (read-back)")
ANCHORS = ['BitStore.tobytes', 'Bits.tobytes', 'Bits.__bytes__', 'Bits._getbytes', 'Bits.tofile',
           'Bits._setbytes_with_truncation', 'Bits._setfile', 'Bits._setauto', 'Array.tobytes', 'Array.tofile',
           'Array.fromfile']
REQUIRED_OPS = ['tobytes', 'bytes()', '.bytes', 'tofile', 'tofile:failing-sink', 'Array.tobytes', 'Array.tofile',
                'read:bytes=', 'read:BytesIO', 'read:handle', 'read:filename', 'Array.fromfile',
                'tofile:chunked']
MIN_EVALS = {"quick": 100000, "thorough": 1000000}
ASSUMPTIONS = ['MSB0 mode only (which end an offset counts from under lsb0 is not stated by any property)',
               'only valid windows are generated (0 <= offset, 0 <= length, offset+length <= 8*size); '
               'invalid windows belong to C15',
               'file handles are handed over at position 0 (a BytesIO also after writing, seeking or an earlier construction from it)',
               'Array.fromfile with n larger than the items available: EOFError, after which the data is '
               'either unchanged or extended by the available whole items (array.array semantics); '
               'without n every whole item of the source is appended',
               'expected bytes come from int(bits + padding, 2).to_bytes and from Python slicing of the '
               'source bit string; the chunk-size content is a fixed 251-byte pattern and its expected '
               'digest is computed from the pattern bytes, not through the library']

CHUNK = 8 * 100 * 1024 * 1024          # the writer's internal chunk size in bits (bits.py, Bits.tofile)
IMMUTABLE = ('Bits', 'ConstBitStream')

# dtype -> item width in bits (stated here, not asked of the library)
DTYPES = {'u1': 1, 'bool': 1, 'bin3': 3, 'u3': 3, 'u5': 5, 'bits5': 5, 'oct6': 6, 'i7': 7, 'u8': 8, 'hex8': 8,
          'i8': 8, 'u12': 12, 'u16': 16, 'uintle16': 16, '>H': 16, 'float16': 16, 'bfloat': 16, 'i24': 24,
          'u32': 32, 'floatle32': 32, '<l': 32, 'u64': 64, 'float64': 64, 'u65': 65}
UINT_DTYPES = ('u1', 'u3', 'u5', 'u8', 'u12', 'u16', 'u32', 'u64', 'u65')
BYTE_MULT_DTYPES = {'bytes2': 16, 'bytes3': 24}

SRC_SIZES = [0, 1, 2, 3, 4, 5, 8, 9, 16, 17, 31, 32, 33, 64, 65, 125, 128, 129, 250, 512, 1025]


# ---- independent encoders ------------------------------------------------------------------------
def pad_bytes(bits: str) -> bytes:
    """bits followed by the 0..7 zero bits needed to reach a byte boundary, as bytes."""
    if not bits:
        return b''
    nb = (len(bits) + 7) // 8
    return int(bits + '0' * (8 * nb - len(bits)), 2).to_bytes(nb, 'big')


def bytes_to_bits(b: bytes) -> str:
    return format(int.from_bytes(b, 'big'), f'0{8 * len(b)}b') if b else ''


# ---- scratch directory ---------------------------------------------------------------------------
_scratch = {'dir': None, 'n': 0}


def _cleanup():
    d = _scratch['dir']
    _scratch['dir'] = None
    if d and os.path.isdir(d):
        shutil.rmtree(d, ignore_errors=True)


def _dir() -> str:
    if _scratch['dir'] is None:
        d = os.path.realpath(tempfile.mkdtemp(prefix='rv_c17_'))
        for forbidden in ('/repo', '/verif'):
            if d == forbidden or d.startswith(forbidden + os.sep):
                raise RuntimeError(f'scratch directory {d} lies under {forbidden}')
        _scratch['dir'] = d
        atexit.register(_cleanup)
    return _scratch['dir']


def _newpath() -> str:
    _scratch['n'] += 1
    return os.path.join(_dir(), f'f{_scratch["n"]}.bin')


def _write_file(data: bytes) -> str:
    p = _newpath()
    with open(p, 'wb') as f:
        f.write(data)
    return p


def _rm(p) -> None:
    try:
        if p:
            os.unlink(p)
    except OSError:
        pass


# ---- sinks -----------------------------------------------------------------------------------------
class FailingSink:
    """write() succeeds `good` times, then raises OSError."""

    def __init__(self, good: int = 0):
        self.good, self.calls, self.nbytes = good, 0, 0

    def write(self, b):
        self.calls += 1
        if self.calls > self.good:
            raise OSError(28, 'rv: sink full')
        self.nbytes += len(b)
        return len(b)


class HashSink:
    def __init__(self):
        self.h, self.sizes, self.nbytes = hashlib.sha256(), [], 0

    def write(self, b):
        self.h.update(b)
        self.sizes.append(len(b))
        self.nbytes += len(b)
        return len(b)


# ---- small helpers ---------------------------------------------------------------------------------
def short(case):
    c = dict(case)
    for k in ('bits', 'pre', 'src'):
        v = c.get(k)
        if isinstance(v, str) and len(v) > 160:
            c[k] = v[:64] + f'...({len(v)} chars)'
    return c


def sizeclass(n: int) -> str:
    return util.lbucket(n)


def _outcome(got):
    return 'ok' if got[0] == 'ok' else type(got[1]).__name__


def _show(v):
    if isinstance(v, (bytes, bytearray)):
        return f'{len(v)}B:' + bytes(v[:24]).hex() + ('..' if len(v) > 24 else '')
    return str(v)[:100]


class Judge:
    """Per-case bookkeeping: one place that turns (got, expected) into ok / mismatch."""

    def __init__(self, ctx, case, nontrivial):
        self.ctx, self.case, self.nontrivial = ctx, case, nontrivial

    def value(self, op, got, exp, ic, key, shape='value'):
        """Expect `got` == ('ok', exp)."""
        self.ctx.op(op, _outcome(got))
        if got[0] == 'exc':
            self.ctx.mismatch(f'C17|{op}|{ic}|unexpected-exc:{type(got[1]).__name__}', short(self.case),
                              f'{op} raised {type(got[1]).__name__}: {str(got[1])[:150]}')
            return False
        if got[1] == exp and type(got[1]) is type(exp):
            self.ctx.ok((op,) + tuple(key), self.nontrivial)
            return True
        self.ctx.mismatch(f'C17|{op}|{ic}|{shape}', short(self.case),
                          f'{op}: got {_show(got[1])} expected {_show(exp)}')
        return False

    def raises(self, op, got, classes, ic, key):
        self.ctx.op(op, _outcome(got))
        if got[0] == 'ok':
            self.ctx.mismatch(f'C17|{op}|{ic}|no-raise', short(self.case),
                              f'{op}: returned {_show(got[1])}, expected {classes}')
            return False
        if exc_matches(got[1], classes):
            self.ctx.ok((op, 'raises') + tuple(key), self.nontrivial)
            return True
        self.ctx.mismatch(f'C17|{op}|{ic}|wrong-exc:{type(got[1]).__name__}', short(self.case),
                          f'{op}: raised {type(got[1]).__name__}, expected {classes}')
        return False

    def unchanged(self, op, obj, bits, ic, key):
        got = call(lambda: (len(obj), B(obj)))
        if got == ('ok', (len(bits), bits)):
            self.ctx.ok((op, 'unchanged') + tuple(key), self.nontrivial)
            return True
        self.ctx.mismatch(f'C17|{op}|{ic}|object-changed', short(self.case),
                          f'after {op}: {_show(got[1])}')
        return False


def _tofile_real(obj):
    """obj.tofile() on a real file opened 'wb'; returns the bytes found in the file afterwards."""
    p = _newpath()
    try:
        with open(p, 'wb') as f:
            obj.tofile(f)
        with open(p, 'rb') as f:
            return f.read()
    finally:
        _rm(p)


def _tofile_mem(obj):
    s = io.BytesIO()
    obj.tofile(s)
    return s.getvalue()


def serial_battery(J, s, bits, ic, key, realfile, only=None):
    """Every serialising observation of a bitstring `s` whose content must be `bits`."""
    ctx = J.ctx
    exp = pad_bytes(bits)
    n = len(bits)
    todo = only or ('tobytes', 'bytes()', '.bytes', 'tofile', 'tofile:failing-sink')
    if 'tobytes' in todo:
        J.value('tobytes', call(s.tobytes), exp, ic, key)
    if 'bytes()' in todo:
        J.value('bytes()', call(lambda: bytes(s)), exp, ic, key)
    if '.bytes' in todo:
        got = call(lambda: s.bytes)
        if n % 8 == 0:
            J.value('.bytes', got, exp, ic, key)
        else:
            J.raises('.bytes', got, 'ValueError', ic, key)
    if 'tofile' in todo:
        J.value('tofile', call(lambda: _tofile_mem(s)), exp, ic, key + ('BytesIO',))
        if realfile:
            J.value('tofile', call(lambda: _tofile_real(s)), exp, ic, key + ('file',))
    if 'tofile:failing-sink' in todo:
        sink = FailingSink(0)
        got = call(lambda: s.tofile(sink))
        if n == 0:
            # nothing has to be written: not calling write() at all, or propagating its error, are both fine
            ctx.op('tofile:failing-sink', _outcome(got))
            if got[0] == 'ok' or isinstance(got[1], OSError):
                ctx.ok(('tofile:failing-sink', 'empty'), False)
            else:
                ctx.mismatch(f'C17|tofile:failing-sink|{ic}|wrong-exc:{type(got[1]).__name__}', short(J.case), '')
        else:
            J.raises('tofile:failing-sink', got, 'OSError', ic, key)
        J.unchanged('tofile:failing-sink', s, bits, ic, key)


def _flip(s, i):
    s[i] = not s[i]


SER_MUTATE = {
    'setitem0': lambda s: _flip(s, 0), 'setitem-1': lambda s: _flip(s, -1), 'setitem-mid': lambda s: _flip(s, len(s) // 2),
    'del0': lambda s: s.__delitem__(0), 'del-1': lambda s: s.__delitem__(-1), 'delslice': lambda s: s.__delitem__(slice(1, 4)),
    'invert-all': lambda s: s.invert(), 'invert-0': lambda s: s.invert(0), 'invert-list': lambda s: s.invert([0, -1]),
    'reverse': lambda s: s.reverse(), 'reverse-part': lambda s: s.reverse(1, len(s)), 'append': lambda s: s.append('0b1'),
    'prepend': lambda s: s.prepend('0b10'), 'set': lambda s: s.set(1, -1), 'set-all-0': lambda s: s.set(0), 'ror': lambda s: s.ror(1),
    'rol': lambda s: s.rol(3), 'overwrite': lambda s: s.overwrite('0b1', 0), 'insert': lambda s: s.insert('0b01', 1),
    'setslice': lambda s: s.__setitem__(slice(0, 2), '0b11'), 'setslice-step': lambda s: s.__setitem__(slice(None, None, 2), 1),
    'byteswap': lambda s: s.byteswap(), 'ilshift': lambda s: s.__ilshift__(1), 'irshift': lambda s: s.__irshift__(2),
    'imul': lambda s: s.__imul__(2) if len(s) < 600 else None, 'iand': lambda s: s.__iand__(Bits(len(s))), 'ior': lambda s: s.__ior__(~Bits(len(s))) if len(s) else None,
    'ixor': lambda s: s.__ixor__(s), 'replace': lambda s: s.replace('0b1', '0b00', count=1), 'clear': lambda s: s.clear(),
    'prop-uint': lambda s: setattr(s, 'uint', 1) if len(s) else None, 'prop-bin': lambda s: setattr(s, 'bin', '0110'),
    'iadd': lambda s: s.__iadd__('0x0f'),
}
SER_MUTATIONS = sorted(SER_MUTATE)


# ---- kind 'ser': tobytes / bytes() / .bytes / tofile of a bitstring ------------------------------------
def build_ser(c):
    """Returns (object, path-to-remove)."""
    cls = CLASSES[c['cls']]
    bits, route = c['bits'], c['route']
    n = len(bits)
    path = None
    if route == 'bin':
        s = mk(cls, bits)
    elif route == 'bytes':
        junk = c.get('junk', 0)
        raw = bytearray(pad_bytes(bits))
        if n % 8 and raw:
            raw[-1] |= junk & ((1 << (8 - n % 8)) - 1)      # bits beyond the length must not leak
        raw += bytes([junk & 0xff]) * c.get('tail', 0)
        s = cls(bytes=bytes(raw), length=n)
    elif route == 'slice':
        pre, post = c.get('prebits', '101'), c.get('postbits', '11111')
        s = mk(cls, pre + bits + post)[len(pre):len(pre) + n]
    elif route == 'file':
        path = _write_file(pad_bytes(bits))
        s = cls(filename=path)
    elif route == 'file-limited':
        junk = c.get('junk', 0xff)
        raw = bytearray(pad_bytes(bits))
        if n % 8 and raw:
            raw[-1] |= junk & ((1 << (8 - n % 8)) - 1)
        raw += bytes([junk & 0xff]) * max(c.get('tail', 1), 1 if not raw else 0)
        path = _write_file(bytes(raw))
        s = cls(filename=path, length=n)
    else:
        raise KeyError(route)
    if c.get('pos') is not None and c['cls'] in util.STREAMS:
        s.pos = min(c['pos'], len(s))
    return s, path


def judge_ser(ctx, c):
    bits, route = c['bits'], c['route']
    n = len(bits)
    J = Judge(ctx, c, n > 0)
    path = None
    try:
        got = call(lambda: build_ser(c))
        ic = f'{route}:{"empty" if n == 0 else "whole-bytes" if n % 8 == 0 else "partial-byte"}'
        if got[0] == 'exc':
            ctx.op('construct', type(got[1]).__name__)
            ctx.mismatch(f'C17|construct|{ic}|unexpected-exc:{type(got[1]).__name__}', short(c),
                         f'{type(got[1]).__name__}: {str(got[1])[:150]}')
            return
        s, path = got[1]
        key = (c['cls'], n % 8, route, sizeclass(n))
        # the object must hold the intended bits before its serialisation is judged
        if not J.value('construct', call(lambda: (len(s), B(s))), (n, bits), ic, key, 'content'):
            return
        serial_battery(J, s, bits, ic, key, c.get('realfile', False))
        for step, (mop, lsb0) in enumerate(c.get('hist') or ()):
            # serialisation is a function of the bits the object holds NOW: nothing remembered from an earlier tobytes() may
            # survive an in-place change (the change itself is C03's business; the bits are read back with .bin)
            with util.options(lsb0=bool(lsb0)):
                g = call(lambda: SER_MUTATE[mop](s))
                now = call(lambda: B(s))
                ctx.op('mutate-then-serialise:' + mop + (',lsb0' if lsb0 else ''), _outcome(g))
                if now[0] != 'ok':
                    break
                serial_battery(J, s, now[1], ic + ',after-in-place-change' + (',lsb0' if lsb0 else ''), key + ('hist',), False,
                               only=('tobytes', 'bytes()', 'tofile') if step % 2 else ('tobytes',))
        ctx.state('ser', c['cls'], n, route)
    finally:
        _rm(path)


# ---- kind 'arr': Array.tobytes / Array.tofile -----------------------------------------------------------
def judge_arr(ctx, c):
    dtype, bits, items = c['dtype'], c['bits'], c.get('items')
    w = DTYPES[dtype]
    if items is not None:
        bits = ''.join(format(v, f'0{w}b') for v in items)       # unsigned dtypes only
    n = len(bits)
    J = Judge(ctx, c, n > 0)
    ic = f'{"items" if items is not None else "data"}:{"empty" if n == 0 else "whole-bytes" if n % 8 == 0 else "partial-byte"}'
    key = ('Array', n % 8, 'trailing' if n % w else 'whole-items', sizeclass(n))
    got = call(lambda: Array(dtype, items) if items is not None else Array(dtype, Bits(bin=bits) if bits else Bits()))
    if got[0] == 'exc':
        ctx.op('Array.construct', type(got[1]).__name__)
        ctx.mismatch(f'C17|Array.construct|{ic}|unexpected-exc:{type(got[1]).__name__}', short(c), str(got[1])[:150])
        return
    a = got[1]
    if not J.value('Array.construct', call(lambda: (len(a.data), B(a.data))), (n, bits), ic, key, 'content'):
        return
    exp = pad_bytes(bits)
    J.value('Array.tobytes', call(a.tobytes), exp, ic, key)
    J.value('Array.tofile', call(lambda: _tofile_mem(a)), exp, ic, key + ('BytesIO',))
    if c.get('realfile'):
        J.value('Array.tofile', call(lambda: _tofile_real(a)), exp, ic, key + ('file',))
    sink = FailingSink(0)
    got = call(lambda: a.tofile(sink))
    if n:
        J.raises('Array.tofile:failing-sink', got, 'OSError', ic, key)
    else:
        ctx.op('Array.tofile:failing-sink', _outcome(got))
    J.unchanged('Array.tofile', a.data, bits, ic, key)
    # the data member serialises like any BitArray
    J.value('tobytes', call(a.data.tobytes), exp, 'Array.data:' + ic.split(':')[1], key)
    ctx.state('arr', dtype, n)


# ---- kind 'read': windowed read-back ---------------------------------------------------------------------
def window_class(off, ln, o, wl, total):
    oc = 'off-none' if off is None else 'off-0' if off == 0 else 'off-aligned' if off % 8 == 0 else 'off-unaligned'
    if ln is None:
        lc = 'len-none'
    elif ln == 0:
        lc = 'len-empty'
    elif o + wl == total:
        lc = 'len-to-end'
    elif (o + wl) % 8:
        lc = 'len-mid-byte'
    else:
        lc = 'len-byte-end'
    return oc, lc


def source_bytes(c) -> bytes:
    if 'srcgen' in c:                   # [seed, size]: a large source is described, not spelled out
        import random
        return random.Random(c['srcgen'][0]).randbytes(c['srcgen'][1])
    return bytes.fromhex(c['src'])


def judge_read(ctx, c):
    src = source_bytes(c)
    total = 8 * len(src)
    off, ln, via = c['offset'], c['length'], c['via']
    o = off or 0
    wl = total - o if ln is None else ln
    if not (0 <= o and 0 <= wl and o + wl <= total):
        return                                         # not a valid window: C15's business
    win = bytes_to_bits(src)[o:o + wl]
    cls = CLASSES[c['cls']]
    kw = {}
    if off is not None:
        kw['offset'] = off
    if ln is not None:
        kw['length'] = ln
    filebased = via in ('handle', 'filename')
    oc, lc = window_class(off, ln, o, wl, total)
    ic = f'{oc}/{lc}'
    limited = filebased and o == 0 and ln is not None and ln < total
    if filebased and not src:
        ic = 'empty-file'
    elif limited and c['cls'] in util.MUTABLE:
        # C08's known defect: the mutable classes copy the mapped store and lose the length limit
        ic = 'file-offset0-length<file:mutable'
    op = {'bytes': 'read:bytes=', 'bytearray': 'read:bytes=', 'memoryview': 'read:bytes=', 'BytesIO': 'read:BytesIO', 'handle': 'read:handle',
          'filename': 'read:filename'}[via]
    J = Judge(ctx, c, wl > 0)
    key = (c['cls'], via, oc, lc, wl % 8, sizeclass(total))
    path = None
    try:
        if filebased:
            path = _write_file(src)

        def build():
            if via == 'bytes':
                return cls(bytes=src, **kw)
            if via == 'bytearray':
                return cls(bytes=bytearray(src), **kw)
            if via == 'memoryview':
                # a memoryview is a view of BYTES whatever its item format (plain, or cast to 2- or 4-byte items)
                mv = memoryview(src)
                if len(src) % 4 == 0 and len(src) % 8 == 4:
                    mv = mv.cast('I')
                elif len(src) % 2 == 0 and len(src) % 4 == 2:
                    mv = mv.cast('H')
                return cls(bytes=mv, **kw)
            if via == 'BytesIO':
                f = io.BytesIO(src)
                hist = c.get('bio')
                if hist == 'written':          # the object was just filled by a writer (tofile leaves it positioned at its end)
                    f = io.BytesIO()
                    Bits(bytes=src).tofile(f)
                elif hist == 'mid':
                    f.seek(len(src) // 2)
                elif hist == 'read-before':    # an earlier construction from the same object
                    cls(f)
                    if len(src):
                        cls(f, offset=min(3, 8 * len(src)), length=max(8 * len(src) - 8, 0) // 2)
                return cls(f, **kw)
            if via == 'filename':
                return cls(filename=path, **kw)
            with open(path, 'rb') as fh:
                return cls(fh, **kw)
        got = call(build)
        ctx.op(op, _outcome(got))
        if got[0] == 'exc':
            ctx.mismatch(f'C17|{op}|{ic}|unexpected-exc:{type(got[1]).__name__}', short(c),
                         f'valid window offset={off} length={ln} over {total} bits raised '
                         f'{type(got[1]).__name__}: {str(got[1])[:120]}')
            return
        x = got[1]
        if type(x) is not cls:
            ctx.mismatch(f'C17|{op}|{ic}|result-class', short(c), type(x).__name__)
        # the three observations that define "recovers exactly the selected window"
        g = call(lambda: len(x))
        if g != ('ok', wl):
            ctx.mismatch(f'C17|{op}|{ic}|length', short(c), f'len {_show(g[1])} expected {wl}')
            return                                      # not the selected window: nothing further to learn
        ctx.ok((op, 'len') + key, wl > 0)
        g = call(lambda: B(x))
        if g != ('ok', win):
            ctx.mismatch(f'C17|{op}|{ic}|window' if g[0] == 'ok' else
                         f'C17|{op}|{ic}|bin-raises:{type(g[1]).__name__}', short(c),
                         f'bin {_show(g[1])} expected {win[:100]}')
            return
        ctx.ok((op, 'bin') + key, wl > 0)
        g = call(x.tobytes)
        if g != ('ok', pad_bytes(win)):
            ctx.mismatch(f'C17|{op}|{ic}|tobytes' if g[0] == 'ok' else
                         f'C17|{op}|{ic}|tobytes-raises:{type(g[1]).__name__}', short(c),
                         f'tobytes {_show(g[1])} expected {_show(pad_bytes(win))}')
        else:
            ctx.ok((op, 'tobytes') + key, wl > 0)
        # re-serialisation of the read-back object (own input class for length-limited file stores)
        ic2 = ic
        if limited and ic != 'file-offset0-length<file:mutable':
            ic2 = 'file-offset0-length<file'
        serial_battery(J, x, win, f'{via}-readback:{ic2}', key, False, only=('bytes()', '.bytes', 'tofile'))
        ctx.state('read', c['cls'], via, total, o, wl)
    finally:
        _rm(path)


# ---- kind 'arrfile': Array.fromfile ------------------------------------------------------------------------
def judge_arrfile(ctx, c):
    dtype, pre, n, via = c['dtype'], c['pre'], c['n'], c['via']
    w = DTYPES.get(dtype) or BYTE_MULT_DTYPES[dtype]
    if len(pre) % w or (n is not None and n < 0):
        return                                   # outside the statement (trailing bits / negative n)
    path = None
    J = Judge(ctx, c, True)
    try:
        if via == 'roundtrip':
            # the source is written by Array.tofile itself
            wr = Array(dtype, Bits(bin=c['srcbits']) if c['srcbits'] else Bits())
            path = _newpath()
            with open(path, 'wb') as f:
                wr.tofile(f)
            with open(path, 'rb') as f:
                src = f.read()
            ctx.op('Array.tofile', 'ok')
            if src != pad_bytes(c['srcbits']):
                ctx.mismatch('C17|Array.tofile|roundtrip|value', short(c), _show(src))
                return
        else:
            src = bytes.fromhex(c['src'])
            if via != 'BytesIO':
                path = _write_file(src)
        total = 8 * len(src)
        avail = total // w
        k = avail if n is None else min(n, avail)
        srcbits = bytes_to_bits(src)
        full = pre + srcbits[:k * w]
        short_read = n is not None and n > avail
        if dtype in BYTE_MULT_DTYPES:
            ic = 'byte-multiplier-dtype'
        elif via != 'BytesIO' and not src:
            ic = 'empty-file'
        else:
            ic = ('n-none' if n is None else 'n>available' if short_read else 'n=0' if n == 0 else
                  'n=available' if n == avail else 'n<available') + ('/partial-item-left' if total % w else '/exact')
        key = (via, 'w%8=' + str(w % 8), ic, 'pre' if pre else 'fresh', sizeclass(total))
        J.nontrivial = k > 0

        holder = {}

        def run():
            if via == 'ctor-handle':
                with open(path, 'rb') as fh:
                    holder['a'] = Array(dtype, fh)
                return None
            a = holder['a'] = Array(dtype, Bits(bin=pre) if pre else Bits())
            if via == 'BytesIO':
                f = io.BytesIO(src)
                return a.fromfile(f) if n is None else a.fromfile(f, n)
            with open(path, 'rb') as fh:
                return a.fromfile(fh) if n is None else a.fromfile(fh, n)
        got = call(run)
        ctx.op('Array.fromfile', _outcome(got))
        a = holder.get('a')
        if short_read:
            if got[0] == 'ok':
                ctx.mismatch(f'C17|Array.fromfile|{ic}|no-raise', short(c),
                             f'n={n} but only {avail} items available: no EOFError')
                return
            if not isinstance(got[1], EOFError):
                ctx.mismatch(f'C17|Array.fromfile|{ic}|wrong-exc:{type(got[1]).__name__}', short(c), str(got[1])[:150])
                return
            ctx.ok(('Array.fromfile', 'EOFError') + key, True)
            if a is not None:
                ctx.tolerate('T9')
                g = call(lambda: B(a.data))
                if g[0] == 'ok' and g[1] in (pre, full):
                    ctx.ok(('Array.fromfile', 'after-EOFError', 'kept' if g[1] == full and full != pre else 'nothing') + key, True)
                else:
                    ctx.mismatch(f'C17|Array.fromfile|{ic}|data-after-EOFError', short(c), _show(g[1]))
            return
        if got[0] == 'exc':
            ctx.mismatch(f'C17|Array.fromfile|{ic}|unexpected-exc:{type(got[1]).__name__}', short(c),
                         f'{type(got[1]).__name__}: {str(got[1])[:150]}')
            return
        g = call(lambda: (len(a.data), B(a.data)))
        if g != ('ok', (len(full), full)):
            shape = 'window' if g[0] == 'ok' else f'data-raises:{type(g[1]).__name__}'
            ctx.mismatch(f'C17|Array.fromfile|{ic}|{shape}', short(c),
                         f'data {_show(g[1])} expected {len(full)} bits {full[:80]}')
            return
        ctx.ok(('Array.fromfile', 'data') + key, k > 0)
        if dtype in UINT_DTYPES:
            exp_items = [int(full[i:i + w], 2) for i in range(0, len(full), w)]
            J.value('Array.tolist', call(a.tolist), exp_items, ic, key)
        # and back out again
        J.value('Array.tobytes', call(a.tobytes), pad_bytes(full), 'after-fromfile', key)
        ctx.state('arrfile', dtype, len(pre), total, n, via)
    finally:
        _rm(path)


# ---- kind 'chunk': the 100 MiB chunk loop of tofile ------------------------------------------------------------
PATTERN = bytes((i * i * 31 + i * 7 + 3) & 0xff for i in range(251))     # prime period: no alignment with the chunk


def pattern_bytes(nbytes: int) -> bytes:
    return (PATTERN * (nbytes // len(PATTERN) + 1))[:nbytes]


def _digest_masked(data, nbits):
    """sha256 of the first ceil(nbits/8) bytes of data with the bits beyond nbits cleared."""
    nb = (nbits + 7) // 8
    h = hashlib.sha256()
    if nb == 0:
        return h.hexdigest()
    mv = memoryview(data)
    h.update(mv[:nb - 1])
    last = data[nb - 1]
    if nbits % 8:
        last &= (0xff << (8 - nbits % 8)) & 0xff
    h.update(bytes([last]))
    return h.hexdigest()


def _window_bytes(data, o, wl):
    """Independent computation of pad_bytes(bits(data)[o:o+wl]) with integer arithmetic (large inputs)."""
    if wl == 0:
        return b''
    b0, b1 = o // 8, (o + wl + 7) // 8
    x = int.from_bytes(data[b0:b1], 'big')
    x >>= 8 * b1 - (o + wl)
    x &= (1 << wl) - 1
    nb = (wl + 7) // 8
    x <<= 8 * nb - wl
    return x.to_bytes(nb, 'big')


def judge_chunk(ctx, c):
    nbits, source, obs = c['nbits'], c['source'], c['obs']
    cls = CLASSES[c.get('cls', 'Bits')]
    nbytes = (nbits + 7) // 8
    rel = 'below-chunk' if nbits < CHUNK else 'at-chunk' if nbits == CHUNK else 'above-chunk'
    ic = f'{source}:{rel}'
    key = (c.get('cls', 'Bits'), source, rel, nbits % 8)
    path = outpath = None
    try:
        data = pattern_bytes(nbytes + (c.get('tail', 0) if source == 'file-limited' else 0))
        expected = _digest_masked(data, nbits)
        if source == 'memory':
            got = call(lambda: cls(bytes=data, length=nbits))
        else:
            path = _write_file(data if source == 'file-limited' else data[:nbytes])
            got = call(lambda: cls(filename=path, length=nbits) if source == 'file-limited' else cls(filename=path))
            if source == 'file':
                assert nbits % 8 == 0
        ctx.op('construct:large', _outcome(got))
        if got[0] == 'exc':
            ctx.mismatch(f'C17|construct|{ic}|unexpected-exc:{type(got[1]).__name__}', c, str(got[1])[:150])
            return
        b = got[1]
        g = call(lambda: len(b))
        if g != ('ok', nbits):
            ctx.mismatch(f'C17|construct|{ic}|length', c, f'len {g[1]} expected {nbits}')
            return
        ctx.ok(('construct:large',) + key, True)

        if 'hash' in obs:
            sink = HashSink()
            with util.options(lsb0=bool(c.get('lsb0'))):     # what is written does not depend on the bit numbering in force
                got = call(lambda: b.tofile(sink))
            if c.get('lsb0'):
                ic += ',lsb0'
            ctx.op('tofile:chunked', _outcome(got))
            ctx.extra.setdefault('chunk_write_sizes', []).append({'nbits': nbits, 'source': source, 'writes': sink.sizes})
            if got[0] == 'exc':
                ctx.mismatch(f'C17|tofile:chunked|{ic}|unexpected-exc:{type(got[1]).__name__}', c, str(got[1])[:150])
            elif sink.nbytes != nbytes:
                ctx.mismatch(f'C17|tofile:chunked|{ic}|byte-count', c,
                             f'wrote {sink.nbytes} bytes in writes {sink.sizes}, expected {nbytes}')
            elif sink.h.hexdigest() != expected:
                ctx.mismatch(f'C17|tofile:chunked|{ic}|value', c, f'digest differs; writes {sink.sizes}')
            else:
                ctx.ok(('tofile:chunked',) + key, True)
        if 'tobytes' in obs:
            got = call(lambda: hashlib.sha256(b.tobytes()).hexdigest())
            ctx.op('tobytes', _outcome(got))
            if got != ('ok', expected):
                ctx.mismatch(f'C17|tobytes|{ic}|value' if got[0] == 'ok' else
                             f'C17|tobytes|{ic}|unexpected-exc:{type(got[1]).__name__}', c, 'digest of tobytes() differs')
            else:
                ctx.ok(('tobytes:large',) + key, True)
        if 'fail' in obs:
            nwrites = (nbits + CHUNK - 1) // CHUNK
            sink = FailingSink(max(nwrites - 1, 0))            # fails on the last write needed
            got = call(lambda: b.tofile(sink))
            ctx.op('tofile:failing-sink', _outcome(got))
            if got[0] == 'ok':
                ctx.mismatch(f'C17|tofile:failing-sink|{ic}|no-raise', c, f'{sink.calls} write calls, error swallowed')
            elif not isinstance(got[1], OSError):
                ctx.mismatch(f'C17|tofile:failing-sink|{ic}|wrong-exc:{type(got[1]).__name__}', c, str(got[1])[:150])
            else:
                ctx.ok(('tofile:failing-sink', 'midway' if nwrites > 1 else 'first') + key, True)
            got = call(lambda: (len(b), hashlib.sha256(b.tobytes()).hexdigest()))
            if got != ('ok', (nbits, expected)):
                ctx.mismatch(f'C17|tofile:failing-sink|{ic}|object-changed', c, str(got[1])[:100])
            else:
                ctx.ok(('tofile:failing-sink', 'unchanged') + key, True)
        if 'readback' in obs:
            # write to a real file with tofile, then read windows of it back
            outpath = _newpath()

            def wr():
                with open(outpath, 'wb') as f:
                    b.tofile(f)
                return os.path.getsize(outpath)
            got = call(wr)
            ctx.op('tofile:chunked', _outcome(got))
            if got != ('ok', nbytes):
                ctx.mismatch(f'C17|tofile:chunked|{ic}|file-size', c, f'{got[1]} expected {nbytes}')
                return
            masked = bytearray(data[:nbytes])
            if nbits % 8:
                masked[-1] &= (0xff << (8 - nbits % 8)) & 0xff
            masked = bytes(masked)
            del data
            total = 8 * nbytes
            windows = [(None, None), (3, None), (CHUNK + 8 * 100 + 5, 8 * 1000 + 3), (8, total - 8 - 5)]
            for off, ln in windows:
                o = off or 0
                wl = total - o if ln is None else ln
                if o + wl > total or wl < 0:
                    continue
                kw = {}
                if off is not None:
                    kw['offset'] = off
                if ln is not None:
                    kw['length'] = ln
                exp = hashlib.sha256(_window_bytes(masked, o, wl)).hexdigest()
                for via in (('filename', 'handle') if off is None else ('filename',)):
                    def rd():
                        if via == 'filename':
                            x = Bits(filename=outpath, **kw)
                        else:
                            with open(outpath, 'rb') as fh:
                                x = Bits(fh, **kw)
                        return len(x), hashlib.sha256(x.tobytes()).hexdigest()
                    got = call(rd)
                    ctx.op(f'read:{via}', _outcome(got))
                    wc = '/'.join(window_class(off, ln, o, wl, total))
                    if got != ('ok', (wl, exp)):
                        shape = 'window' if got[0] == 'ok' else f'unexpected-exc:{type(got[1]).__name__}'
                        ctx.mismatch(f'C17|read:{via}|large:{wc}|{shape}', c, str(got[1])[:120])
                    else:
                        ctx.ok((f'read:{via}', 'large', wc), True)
        ctx.state('chunk', nbits, source)
    finally:
        _rm(path)
        _rm(outpath)


KINDS = {'ser': judge_ser, 'arr': judge_arr, 'read': judge_read, 'arrfile': judge_arrfile, 'chunk': judge_chunk}


def judge(ctx, case):
    with util.options(lsb0=False, bytealigned=False):
        KINDS[case['kind']](ctx, case)


def run_big(ctx, case):
    """run_case with a watchdog sized for a > 100 MiB object."""
    ctx.current_case = case
    try:
        with ctx.watch(case, 1500.0):
            judge(ctx, case)
    except Exception as e:  # noqa: BLE001
        ctx.mismatch(f'harness|unexpected-exception|{type(e).__name__}', case, traceback.format_exc()[-500:])


# ---- generators --------------------------------------------------------------------------------------------
def length_pool(ctx):
    pool = list(util.LENGTHS)
    if not ctx.quick:
        pool += [20000, 70000]
    return pool


def gen_ser(ctx, n=None, cls=None):
    rng = ctx.rng
    if n is None:
        n = rng.choice(length_pool(ctx))
        if rng.random() < 0.5:
            n = max(0, n + rng.randint(-7, 7))
    cls = cls or rng.choice(util.CLASS_NAMES)
    routes = ['bin', 'bin', 'bytes', 'slice']
    if n > 0 and n % 8 == 0:
        routes.append('file')
    if cls in IMMUTABLE:
        routes += ['file-limited', 'file-limited']
    route = rng.choice(routes)
    c = {'kind': 'ser', 'cls': cls, 'bits': util.content(rng, n), 'route': route,
         'realfile': rng.random() < 0.25}
    if route in ('bytes', 'file-limited'):
        c['junk'] = rng.choice([0xff, 0xff, 0x01, 0x80, rng.randrange(256)])
        c['tail'] = rng.choice([0, 0, 1, 2, 9])
    if route == 'slice':
        c['prebits'], c['postbits'] = rb(rng, rng.choice([1, 3, 8, 13])), rb(rng, rng.choice([0, 1, 5, 8]))
    if cls in util.STREAMS and rng.random() < 0.5:
        c['pos'] = rng.randint(0, n)
    if cls not in IMMUTABLE and n <= 4000 and rng.random() < 0.6:
        # the object goes on living: serialised, changed in place (under either bit numbering), serialised again ...
        c['hist'] = [[rng.choice(SER_MUTATIONS), rng.random() < 0.4] for _ in range(rng.choice([1, 2, 3, 5]))]
    return c


def gen_arr(ctx, n=None):
    rng = ctx.rng
    dtype = rng.choice(list(DTYPES))
    w = DTYPES[dtype]
    if n is None:
        n = rng.choice(length_pool(ctx)[:40])
        if rng.random() < 0.6:
            n -= n % w                                     # whole items
    c = {'kind': 'arr', 'dtype': dtype, 'bits': util.content(rng, n), 'items': None, 'realfile': rng.random() < 0.25}
    if dtype in UINT_DTYPES and rng.random() < 0.4:
        k = rng.choice([0, 1, 2, 3, 5, 8, 9, 17, 40])
        c['items'] = [rng.choice([0, (1 << w) - 1, rng.getrandbits(w)]) for _ in range(k)]
        c['bits'] = ''
    return c


def gen_window(rng, total):
    offs = [None, None, 0, 1, 3, 7, 8, 9, 16, total, total - 1, total - 7, total - 8, total - 9, total // 2,
            rng.randint(0, total), 8 * rng.randint(0, total // 8)]
    if total >= 8 * 4096:
        offs += [32768, 32768 + 3, 32760, 8 * 4096 * (total // (8 * 4096)), total - 8 * 4096, 65536]            # page and allocation boundaries
    off = rng.choice([o for o in offs if o is None or 0 <= o <= total])
    rem = total - (off or 0)
    lens = [None, None, 0, 1, 7, 8, 9, rem, rem, rem - 1, rem - 7, rem - 8, rem - 9, rem // 2, rng.randint(0, rem),
            8 * rng.randint(0, rem // 8)]
    ln = rng.choice([x for x in lens if x is None or 0 <= x <= rem])
    return off, ln


def gen_read(ctx, via=None):
    rng = ctx.rng
    via = via or rng.choice(['bytes', 'bytes', 'bytearray', 'memoryview', 'BytesIO', 'BytesIO', 'handle', 'handle',
                             'filename', 'filename'])
    sizes = SRC_SIZES if ctx.quick else SRC_SIZES + [2500, 8750]
    size = rng.choice(sizes)
    if rng.random() < 0.02:
        size = rng.choice([4096, 4097, 4100, 8192, 8193, 65536, 65537, 65536 + 4096])      # sources longer than a page / 64 KiB
    if size == 0 and via in ('handle', 'filename'):
        size = 1                       # the empty file is a directed case (own mechanism), not random noise
    r = rng.random()
    if r < 0.7:
        src = rng.getrandbits(8 * size).to_bytes(size, 'big') if size else b''
    elif r < 0.8:
        src = b'\xff' * size
    elif r < 0.9:
        src = b'\x00' * size
    else:
        src = bytes(range(256)) * (size // 256) + bytes(range(size % 256))
    off, ln = gen_window(rng, 8 * size)
    c = {'kind': 'read', 'cls': rng.choice(util.CLASS_NAMES), 'via': via, 'src': src.hex(),
         'offset': off, 'length': ln}
    if via == 'BytesIO' and rng.random() < 0.5:
        c['bio'] = rng.choice(['written', 'mid', 'read-before'])
    return c


def gen_arrfile(ctx):
    rng = ctx.rng
    dtype = rng.choice(list(DTYPES))
    w = DTYPES[dtype]
    via = rng.choice(['handle', 'handle', 'BytesIO', 'BytesIO', 'ctor-handle', 'roundtrip'])
    size = rng.choice(SRC_SIZES[:18])
    if size == 0 and via != 'BytesIO':
        size = rng.choice([1, 2, 3])
    avail = 8 * size // w
    n = rng.choice([None, None, 0, 1, avail, avail, avail - 1, avail + 1, avail + 5, rng.randint(0, avail)])
    if n is not None and n < 0:
        n = 0
    pre = rb(rng, w * rng.choice([0, 0, 1, 3]))
    c = {'kind': 'arrfile', 'dtype': dtype, 'pre': pre, 'n': n, 'via': via}
    if via == 'ctor-handle':
        c['pre'], c['n'] = '', None
    if via == 'roundtrip':
        k = rng.choice([0, 1, 2, 3, 7, 8, 9, 33]) if size else 0
        k = max(k, 1)                                   # an empty Array writes an empty file: directed case
        c['srcbits'] = rb(rng, k * w)
        c['n'] = rng.choice([None, k, k, max(k - 1, 0)])
    else:
        c['src'] = rng.getrandbits(8 * size).to_bytes(size, 'big').hex() if size else ''
    return c


def directed(ctx):
    cases = []
    # .bytes refuses every non-whole-byte length; padding bits are zero even when the source byte had ones
    for cls in util.CLASS_NAMES:
        for n in range(0, 18):
            cases.append({'kind': 'ser', 'cls': cls, 'bits': '1' * n, 'route': 'bin', 'realfile': n in (0, 1, 8, 9)})
            cases.append({'kind': 'ser', 'cls': cls, 'bits': '1' * n, 'route': 'bytes', 'junk': 0xff, 'tail': 2})
        cases.append({'kind': 'ser', 'cls': cls, 'bits': '10' * 8, 'route': 'file', 'realfile': True})
    for cls in IMMUTABLE:
        for n in range(0, 18):
            cases.append({'kind': 'ser', 'cls': cls, 'bits': '1' * n, 'route': 'file-limited', 'junk': 0xff, 'tail': 1})
    # windows ending mid-byte, at the end and empty through every route
    src = bytes([0xa5, 0x3c, 0xff, 0x00, 0x81]).hex()
    for via in ('bytes', 'bytearray', 'BytesIO', 'handle', 'filename'):
        for cls in util.CLASS_NAMES:
            for off, ln in [(None, None), (0, None), (None, 40), (3, None), (3, 10), (8, 32), (5, 35), (40, None),
                            (40, 0), (0, 0), (39, 1), (None, 0), (7, 9), (16, 8), (1, 38)]:
                cases.append({'kind': 'read', 'cls': cls, 'via': via, 'src': src, 'offset': off, 'length': ln})
    # C08's known mechanism seen from C17: length-limited file store (offset 0, length < file)
    for cls in util.CLASS_NAMES:
        for via in ('filename', 'handle'):
            cases.append({'kind': 'read', 'cls': cls, 'via': via, 'src': src, 'offset': None, 'length': 9})
            cases.append({'kind': 'read', 'cls': cls, 'via': via, 'src': src, 'offset': 0, 'length': 16})
    # windows of more than a megabyte over a still larger file (sizes at which an implementation may stop copying)
    for cls in util.CLASS_NAMES:
        for via, off, ln in (('filename', None, 8388608 + 13), ('handle', 0, 8388608 + 16), ('filename', 8, 8388608 + 5), ('bytes', 3, 8388608 + 1)):
            cases.append({'kind': 'read', 'cls': cls, 'via': via, 'srcgen': [len(cases), 1048576 + 4096], 'offset': off, 'length': ln})
    # files of exactly one and two memory pages: windows that start at, just before and exactly at the end of the last page
    for cls in util.CLASS_NAMES:
        for size in (4096, 8192):
            for via in ('filename', 'handle'):
                for off, ln in ((8 * size, None), (8 * size, 0), (8 * size - 8, None), (8 * size - 3, 3), (8 * size - 4096 * 8, None), (8 * size - 4096 * 8 + 5, 11)):
                    cases.append({'kind': 'read', 'cls': cls, 'via': via, 'srcgen': [size + len(cases), size], 'offset': off, 'length': ln})
    # the empty bitstring written by tofile is an empty file: the empty window over it is a valid window
    for via in ('filename', 'handle'):
        for off, ln in [(None, None), (0, 0), (None, 0)]:
            cases.append({'kind': 'read', 'cls': 'Bits', 'via': via, 'src': '', 'offset': off, 'length': ln})
    cases.append({'kind': 'read', 'cls': 'BitArray', 'via': 'filename', 'src': '', 'offset': None, 'length': None})
    for via in ('bytes', 'BytesIO'):
        for off, ln in [(None, None), (0, 0), (None, 0), (0, None)]:
            cases.append({'kind': 'read', 'cls': 'Bits', 'via': via, 'src': '', 'offset': off, 'length': ln})
    # Array
    for dt in ('u5', 'u8', 'u12', 'float16', 'u65'):
        w = DTYPES[dt]
        for nitems in (0, 1, 3, 8):
            cases.append({'kind': 'arr', 'dtype': dt, 'bits': '1' * (w * nitems), 'items': None, 'realfile': True})
        cases.append({'kind': 'arr', 'dtype': dt, 'bits': '1' * (w + 3), 'items': None, 'realfile': False})
        for via in ('handle', 'BytesIO'):
            for n in (None, 0, 1, 3, 4, 9):
                cases.append({'kind': 'arrfile', 'dtype': dt, 'pre': '1' * w, 'n': n, 'via': via, 'src': 'a53cff0081'})
        cases.append({'kind': 'arrfile', 'dtype': dt, 'pre': '', 'n': None, 'via': 'ctor-handle', 'src': 'a53cff0081'})
        cases.append({'kind': 'arrfile', 'dtype': dt, 'pre': '', 'n': 2, 'via': 'roundtrip', 'srcbits': '10' * w})
    cases.append({'kind': 'arr', 'dtype': 'u3', 'bits': '', 'items': [7, 0, 5, 2, 1], 'realfile': True})
    # empty Array written and read back (empty file), and an empty BytesIO
    cases.append({'kind': 'arrfile', 'dtype': 'u8', 'pre': '', 'n': None, 'via': 'roundtrip', 'srcbits': ''})
    cases.append({'kind': 'arrfile', 'dtype': 'u8', 'pre': '', 'n': None, 'via': 'handle', 'src': ''})
    cases.append({'kind': 'arrfile', 'dtype': 'u8', 'pre': '', 'n': None, 'via': 'BytesIO', 'src': ''})
    cases.append({'kind': 'arrfile', 'dtype': 'u8', 'pre': '', 'n': 1, 'via': 'BytesIO', 'src': ''})
    # byte-multiplier dtypes (C14's unit/bit-length confusion seen from fromfile)
    for n in (None, 2, 3):
        cases.append({'kind': 'arrfile', 'dtype': 'bytes2', 'pre': '', 'n': n, 'via': 'BytesIO', 'src': '6162636465'})
    cases.append({'kind': 'arrfile', 'dtype': 'bytes2', 'pre': '', 'n': None, 'via': 'handle', 'src': '61626364'})
    for c in cases:
        ctx.run_case(judge, c)


def chunk_cases(ctx):
    """(shard, case) pairs; the quick tier has two (one chunk + a tail, exactly one chunk), in shards 0 and 1."""
    big = CHUNK + 8 * 1234 - 3
    out = [(0, {'kind': 'chunk', 'nbits': big, 'source': 'memory', 'obs': ['hash', 'tobytes', 'fail']}),
           # exactly one chunk: the regime where a "remainder" write has nothing left (quick tier too, in another shard)
           (1, {'kind': 'chunk', 'nbits': CHUNK, 'source': 'memory', 'obs': ['hash', 'fail']}),
           (2, {'kind': 'chunk', 'nbits': big + 8, 'source': 'memory', 'obs': ['hash'], 'lsb0': True})]
    if not ctx.quick:
        out += [
            (2, {'kind': 'chunk', 'nbits': CHUNK - 1, 'source': 'memory', 'obs': ['hash', 'fail']}),
            (8, {'kind': 'chunk', 'nbits': 2 * CHUNK, 'source': 'memory', 'obs': ['hash']}),
            (3, {'kind': 'chunk', 'nbits': CHUNK + 8, 'source': 'memory', 'obs': ['hash', 'fail']}),
            (4, {'kind': 'chunk', 'nbits': big, 'source': 'file-limited', 'tail': 77, 'obs': ['hash', 'tobytes', 'fail']}),
            (5, {'kind': 'chunk', 'nbits': CHUNK + 8 * 1234, 'source': 'file', 'cls': 'ConstBitStream', 'obs': ['hash', 'fail']}),
            (6, {'kind': 'chunk', 'nbits': big, 'source': 'memory', 'cls': 'BitArray', 'obs': ['readback']}),
            (7, {'kind': 'chunk', 'nbits': 2 * CHUNK + 8 * 3 + 1, 'source': 'memory', 'cls': 'BitStream', 'obs': ['hash']}),
            (9, {'kind': 'chunk', 'nbits': 2 * CHUNK + 5, 'source': 'memory', 'cls': 'BitArray', 'obs': ['hash'], 'lsb0': True}),
            (10, {'kind': 'chunk', 'nbits': CHUNK + 8 * 77, 'source': 'file', 'cls': 'Bits', 'obs': ['hash'], 'lsb0': True}),
        ]
    return [(s % ctx.nshards, c) for s, c in out]


def run(ctx):
    try:
        _dir()
        if ctx.shard == 0:
            directed(ctx)
        # 1. the enumerated sub-space: every residue at every pool magnitude, four classes and Array
        bases = sorted({L // 8 for L in length_pool(ctx)})
        i = 0
        for b in bases:
            for r in range(8):
                for cont in util.CLASS_NAMES + ['Array']:
                    i += 1
                    if not ctx.mine(i):
                        continue
                    n = 8 * b + r
                    if cont == 'Array':
                        ctx.run_case(judge, gen_arr(ctx, n))
                    else:
                        c = gen_ser(ctx, n, cont)
                        ctx.run_case(judge, c)
        ctx.exhaustive['length residues 0..7 at every pool magnitude x {4 classes, Array}'] = True
        # 2. random cases
        nrand = ctx.scale(100000, 1600000)
        for j in range(nrand):
            r = ctx.rng.random()
            if r < 0.30:
                c = gen_ser(ctx)
            elif r < 0.42:
                c = gen_arr(ctx)
            elif r < 0.82:
                c = gen_read(ctx)
            else:
                c = gen_arrfile(ctx)
            ctx.run_case(judge, c)
            if j % 2999 == 0:
                ctx.sample(short(c))
        # 3. the chunk boundary
        for shard, c in chunk_cases(ctx):
            if shard == ctx.shard:
                run_big(ctx, c)
                ctx.sample(c)
    finally:
        _cleanup()


def replay(ctx, case):
    try:
        if case.get('kind') == 'chunk':
            run_big(ctx, case)
        else:
            ctx.run_case(judge, case)
    finally:
        _cleanup()
