"""C18 - struct-code formats match struct / array; endian forms relate by byte reversal; byteswap
converts between the encodings and is an involution.

Oracle: the stdlib's ``struct`` and ``array`` modules, ``int.from_bytes`` and byte reversal.
Reading decision (DESIGN section 4, C18, fixed): '>' '<' '=' are compared with struct.pack of the
identical format; '@' is documented as a synonym of '=' (standard sizes, no padding, l/L = 4 bytes)
and is therefore compared with struct's '=' form.  The expected bytes are always computed from the
*structure* of the case (groups of (count, code)), never by re-parsing the format string handed to
the library."""
from __future__ import annotations

import array
import io
import math
import struct
import sys

import bitstring

from rv import util
from rv.util import call, exc_matches

AMBIENT = ['bytealigned', 'mxfp_overflow']      # options this property does not depend on: a quarter of the cases run with them switched
PROP = 'C18'
SHARDS = {'quick': 4, 'thorough': 16}
RULE = ("enumerated: every code b B h H l L i I q Q e f d x prefix > < = @ x count 1-4 x value class "
        "(limits, zero, +-1, random, out-of-range / float specials incl. subnormal, inf, -0.0, nan, ties) for "
        "pack, unpack, readlist and Array (tobytes vs struct and array.array, equals, byteswap); every "
        "array.array typecode x a pool of ~190 Array dtypes through the constructor and extend(); equals() "
        "against arrays of another width; every 1-byte content (every 2-byte content in the thorough tier) "
        "for the le/be/ne relations; Array.byteswap over a dtype pool. random: multi-code / multi-group "
        "formats (spelling variants, counts 0-16, bit offsets 0-7), whole-byte contents of 1-16 bytes read "
        "and created as uint/int/float/bfloat le/be/ne through several routes, BitArray.byteswap with "
        "None / 0 / int / list / tuple / struct-string patterns inside optional windows, applied twice. "
        "key = (check, code or code-group class, prefix, count class, value class) resp. (check, dtype, "
        "typecode, byte count, pattern class, window class, repeat class); non-trivial = at least one item "
        "/ one multi-byte unit took part")
ANCHORS = ['structparser', 'parse_single_struct_token', 'preprocess_tokens', 'intle2bitstore',
           'float2bitstore', 'Bits._getuintle', 'Bits._getintle', 'Bits._getfloatle', 'Bits._getbfloatle',
           'BitArray.byteswap', 'Array.byteswap', 'Array.extend', 'Array.equals', 'pack', 'Bits.unpack']
REQUIRED_OPS = ['pack', 'unpack', 'readlist', 'Array(values)', 'Array(bytes)', 'Array.byteswap',
                'Array(array)', 'extend(array)', 'Array.equals', 'le-read', 'ne-read', 'be-read',
                'le-create', 'ne-create', 'BitArray.byteswap']
MIN_EVALS = {'quick': 150000, 'thorough': 5000000}
ASSUMPTIONS = ["'@' is judged against struct's '=' form (documented synonym: standard sizes, no padding, l/L = 4 bytes)",
               'only values struct itself accepts for the code (in-range floats; ints for integer codes); '
               'out-of-range integers must raise ValueError where struct raises struct.error',
               'NaN payload bits fall under T11; every other float (incl. -0.0, subnormals, inf) is compared byte for byte',
               'an array.array whose kind and width match an 8-bit Array dtype spelled with an endianness suffix '
               '(intle8, uintbe8, ...) may be accepted or rejected (statement only says "only when"); if accepted the values must agree',
               'byteswap patterns are valid for their window, with repeat=True or False (invalid windows and patterns belong to C03)']

CODES = 'bBhHlLiIqQefd'
INT_CODES = 'bBhHlLiIqQ'
FLOAT_CODES = 'efd'
PREFIXES = '><=@'
SIZE = {c: struct.calcsize('=' + c) for c in CODES}        # standard sizes (l/L = 4)
NATIVE_LE = sys.byteorder == 'little'
NATIVE = '<' if NATIVE_LE else '>'
FOREIGN = '>' if NATIVE_LE else '<'
FW = {'e': 16, 'f': 32, 'd': 64}
FCODE = {16: 'e', 32: 'f', 64: 'd'}
FGEOM = {16: (5, 10), 32: (8, 23), 64: (11, 52)}             # (exponent bits, mantissa bits)


def sprefix(p: str) -> str:
    """struct prefix used by the oracle for a library prefix."""
    return '=' if p == '@' else p


def eff_order(p: str) -> str:
    """'<' or '>' - the byte order a prefix means on this host."""
    return NATIVE if p in '=@' else p


# ---- JSON-able values -----------------------------------------------------------------------------
def enc(v):
    """int stays int; float -> ['d', big-endian hex of the double] (exact, incl. NaN payload and -0.0)."""
    if isinstance(v, float):
        return ['d', struct.pack('>d', v).hex()]
    return v


def dec(v):
    if isinstance(v, list):
        return struct.unpack('>d', bytes.fromhex(v[1]))[0]
    return v


def same(a, b) -> bool:
    """Same kind (int vs float), same value, same sign of zero; NaN equals NaN."""
    if isinstance(a, float) != isinstance(b, float):
        return False
    if isinstance(a, float):
        if math.isnan(a) or math.isnan(b):
            return math.isnan(a) and math.isnan(b)
        return a == b and math.copysign(1.0, a) == math.copysign(1.0, b)
    return type(a) is type(b) and a == b


def same_list(xs, ys) -> bool:
    return len(xs) == len(ys) and all(same(a, b) for a, b in zip(xs, ys))


def bytes_rev(bits: str) -> str:
    return ''.join(reversed([bits[i:i + 8] for i in range(0, len(bits), 8)]))


def to_bits(raw: bytes) -> str:
    return ''.join(format(x, '08b') for x in raw)


def from_bits(bits: str) -> bytes:
    return int(bits, 2).to_bytes(len(bits) // 8, 'big') if bits else b''


# ---- value generators -----------------------------------------------------------------------------
INT_CLASSES = ['lo', 'hi', 'zero', 'one', 'm1', 'near', 'pow2', 'rand', 'rand']
INT_OOR = ['hi+1', 'lo-1', 'far']
FLOAT_CLASSES = ['zero', 'nzero', 'one', 'subn', 'minnorm', 'max', 'edge', 'inf', 'ninf', 'nan', 'nanp', 'rand', 'rand',
                 'round', 'tie', 'intval']


def int_limits(c: str):
    n = 8 * SIZE[c]
    return (-(1 << (n - 1)), (1 << (n - 1)) - 1) if c.islower() else (0, (1 << n) - 1)


def int_value(rng, c: str, cls: str) -> int:
    lo, hi = int_limits(c)
    n = 8 * SIZE[c]
    if cls == 'lo':
        return lo
    if cls == 'hi':
        return hi
    if cls == 'zero':
        return 0
    if cls == 'one':
        return 1
    if cls == 'm1':
        return -1 if lo < 0 else hi - 1
    if cls == 'near':
        return rng.choice([lo + 1, hi - 1])
    if cls == 'pow2':
        k = rng.randrange(n - 1)
        return (1 << k) if (lo == 0 or rng.random() < 0.5) else -(1 << k)
    if cls == 'rand':
        return rng.randint(lo, hi)
    if cls == 'hi+1':
        return hi + 1
    if cls == 'lo-1':
        return lo - 1
    if cls == 'far':
        return rng.choice([hi + 2 + rng.getrandbits(70), lo - 2 - rng.getrandbits(70), (1 << 64) if n < 64 else (1 << 65)])
    raise KeyError(cls)


def f_from_raw(w: int, raw: int) -> float:
    return struct.unpack('>' + FCODE[w], raw.to_bytes(w // 8, 'big'))[0]


def float_value(rng, c: str, cls: str):
    w = FW[c]
    eb, mb = FGEOM[w]
    sign = rng.getrandbits(1) << (w - 1)
    emax = (1 << eb) - 1
    if cls == 'zero':
        return 0.0
    if cls == 'nzero':
        return -0.0
    if cls == 'one':
        return rng.choice([1.0, -1.0, 1.5, -2.75, 0.5])
    if cls == 'subn':
        return f_from_raw(w, sign | rng.choice([1, (1 << mb) - 1, rng.randrange(1, 1 << mb)]))
    if cls == 'minnorm':
        return f_from_raw(w, sign | (1 << mb))
    if cls == 'max':
        return f_from_raw(w, sign | ((emax - 1) << mb) | ((1 << mb) - 1))
    if cls == 'inf':
        return math.inf
    if cls == 'ninf':
        return -math.inf
    if cls == 'nan':
        return math.nan
    if cls == 'nanp':
        return f_from_raw(w, sign | (emax << mb) | rng.randrange(1, 1 << mb))
    if cls == 'rand':
        return f_from_raw(w, rng.getrandbits(w))
    if cls in ('round', 'tie'):
        # a double that the narrower format has to round (well inside its range); 'tie' = exact half-way
        if w == 64:
            return f_from_raw(64, rng.getrandbits(64) & ~(0x7ff << 52) | (rng.randrange(1, 2046) << 52))
        e = rng.randrange(0, emax - 1)                      # incl. subnormal results, never the top binade
        raw = sign | (e << mb) | rng.getrandbits(mb)
        x, y = f_from_raw(w, raw), f_from_raw(w, raw + 1)
        if math.isinf(y) or math.isnan(y):
            return x
        return (x + y) / 2 if cls == 'tie' else x + (y - x) * rng.choice([0.25, 0.75, 0.4999, 0.5001, 1e-9])
    if cls == 'edge':
        # just above the largest finite value, still below the point where rounding goes to infinity: struct gives the largest value
        fmax = f_from_raw(w, ((emax - 1) << mb) | ((1 << mb) - 1))
        if w == 64:
            return -fmax if sign else fmax
        thr = fmax + 2.0 ** ((emax - 1) - (1 << (eb - 1)) + 1 - mb - 1)     # fmax + half an ulp
        v = rng.choice([math.nextafter(fmax, math.inf), (fmax + thr) / 2, math.nextafter(thr, 0.0), fmax * (1 + 2.0 ** -(mb + 3))])
        return -v if sign else v
    if cls == 'intval':
        return rng.choice([0, 1, -1, 2, 7, -100, 1024, 2047])          # a Python int handed to a float code
    raise KeyError(cls)


def value_for(rng, c: str, cls: str):
    return float_value(rng, c, cls) if c in FLOAT_CODES else int_value(rng, c, cls)


def rand_class(rng, c: str, oor_ok: bool = False) -> str:
    if c in FLOAT_CODES:
        return rng.choice(FLOAT_CLASSES)
    if oor_ok and rng.random() < 0.04:
        return rng.choice(INT_OOR)
    return rng.choice(INT_CLASSES)


def vclass_of(classes) -> str:
    s = sorted(set(classes))
    return s[0] if len(s) == 1 else 'mixed'


def count_class(k: int) -> str:
    return str(k) if k <= 4 else '>4'


# ---- format spelling --------------------------------------------------------------------------------
def spell(rng, groups) -> str:
    """The string handed to the library for a list of groups [prefix, [[count, code], ...]]."""
    out = []
    for p, items in groups:
        if len(items) == 1 and 2 <= items[0][0] <= 16 and rng.random() < 0.2:
            out.append(f'{items[0][0]}*{p}{items[0][1]}')          # '3*>h': the token multiplier applied to a struct token
            continue
        if rng.random() < 0.05 and all(k >= 1 for k, _ in items):
            out.append('1*' + p + ''.join((f'{k}{c}' if k != 1 else c) for k, c in items))
            continue
        s = p
        for k, c in items:
            if k == 1 and rng.random() < 0.8:
                s += c
            elif k <= 4 and k >= 2 and rng.random() < 0.2:
                s += c * k                                   # 'hhh' instead of '3h'
            else:
                s += f'{k}{c}'
            if rng.random() < 0.03:
                s += ' '
        out.append(s)
    sep = rng.choice([',', ',', ', ', ' , '])
    return sep.join(out)


def oracle_pack(groups, vals):
    """Expected bytes (one bytes object per item) via struct; raises struct.error / OverflowError as struct does."""
    per_item = []
    i = 0
    for p, items in groups:
        for k, c in items:
            for _ in range(k):
                per_item.append((p, c, struct.pack(sprefix(p) + c, vals[i])))
                i += 1
    # the whole group in one struct call must give the same bytes (struct's '=' mode has no padding)
    j = 0
    whole = b''
    for p, items in groups:
        n = sum(k for k, _ in items)
        whole += struct.pack(sprefix(p) + ''.join(f'{k}{c}' for k, c in items), *vals[j:j + n])
        j += n
    assert whole == b''.join(x[2] for x in per_item), 'oracle self-check: struct grouped vs per item'
    return per_item


def oracle_unpack(groups, raw: bytes):
    out = []
    off = 0
    for p, items in groups:
        f = sprefix(p) + ''.join(f'{k}{c}' for k, c in items)
        n = struct.calcsize(f)
        out.extend(struct.unpack(f, raw[off:off + n]))
        off += n
    return out


def first_bad_item(per_item, got: bytes):
    """(prefix+code, index) of the first item whose bytes differ."""
    off = 0
    for idx, (p, c, b) in enumerate(per_item):
        if got[off:off + len(b)] != b:
            return p + c, idx
        off += len(b)
    return 'length', len(per_item)


def short(case):
    c = dict(case)
    for k in ('vals', 'pre'):
        if isinstance(c.get(k), list) and len(c[k]) > 12:
            c[k] = c[k][:12] + [f'...({len(case[k])} values)']
    for k in ('bin', 'hex'):
        if isinstance(c.get(k), str) and len(c[k]) > 160:
            c[k] = c[k][:160] + f'...({len(case[k])} chars)'
    return c


def outcome(got) -> str:
    return 'ok' if got[0] == 'ok' else type(got[1]).__name__


def gclass(groups) -> str:
    """Input class of a pack case for mechanism keys: the single prefix+code or a coarse shape."""
    pcs = {p + c for p, items in groups for k, c in items if k}
    if len(pcs) == 1:
        return next(iter(pcs))
    ps = ''.join(sorted({p for p, _ in groups}))
    return f'multi[{ps}]'


# ==== pack / unpack / readlist =========================================================================
def judge_pack(ctx, c):
    groups = c['groups']
    vals = [dec(v) for v in c['vals']]
    fmt = c['fmt']
    off = c.get('off', 0)
    flat = [(p, cd) for p, items in groups for k, cd in items for _ in range(k)]
    kclass = count_class(max([k for _, items in groups for k, _ in items] + [0]))
    vcl = c.get('vclass', 'rand')
    key_tail = (gclass(groups), kclass, vcl, len(groups) > 1)
    nontrivial = bool(flat)
    try:
        per_item = oracle_pack(groups, vals)
        exp = b''.join(x[2] for x in per_item)
        exp_err = None
    except struct.error:
        per_item, exp, exp_err = None, None, 'ValueError'
    except OverflowError:
        ctx.op('skipped-float-outside-struct-range')
        return

    got = call(lambda: bitstring.pack(fmt, *vals))
    ctx.op('pack', outcome(got))
    if exp_err:
        bad = next((p + cd for (p, cd), v in zip(flat, vals)
                    if cd in INT_CODES and not int_limits(cd)[0] <= v <= int_limits(cd)[1]), gclass(groups))
        if got[0] == 'ok':
            ctx.mismatch(f'C18|pack|{bad}|out-of-range-accepted', short(c), f'struct.error expected; got {got[1].bytes!r}')
        elif not exc_matches(got[1], 'ValueError'):
            ctx.mismatch(f'C18|pack|{bad}|out-of-range-wrong-exc:{type(got[1]).__name__}', short(c), repr(got[1])[:200])
        else:
            ctx.ok(('pack-oor',) + key_tail, nontrivial)
        return
    if got[0] == 'exc':
        ctx.mismatch(f'C18|pack|{gclass(groups)}|unexpected-exc:{type(got[1]).__name__}', short(c), repr(got[1])[:200])
        return
    s = got[1]
    gb = call(lambda: (s.bytes, s.tobytes(), len(s)))
    if gb[0] == 'exc':
        ctx.mismatch(f'C18|pack|{gclass(groups)}|bytes-raises:{type(gb[1]).__name__}', short(c), repr(gb[1])[:200])
        return
    raw, raw2, ln = gb[1]
    if raw == exp and raw2 == exp and ln == 8 * len(exp):
        ctx.ok(('pack',) + key_tail, nontrivial)
    else:
        which, idx = first_bad_item(per_item, raw)
        v = vals[idx] if idx < len(vals) else None
        if (which != 'length' and isinstance(v, float) and math.isnan(v) and len(raw) == len(exp)
                and ln == 8 * len(exp) and raw2 == raw and _nan_only_diff(per_item, raw)):
            ctx.tolerate('T11')
            ctx.ok(('pack-nan',) + key_tail, nontrivial)
        else:
            shape = 'length' if (which == 'length' or len(raw) != len(exp) or ln != 8 * len(exp)) else 'bytes'
            ctx.mismatch(f'C18|pack|{which if which != "length" else gclass(groups)}|{shape}', short(c),
                         f'fmt={fmt!r} item {idx} value {v!r}: got {raw.hex()} expected {exp.hex()}')

    # ---- the same groups given as a list of format strings, then the first group alone again ----------------
    parts = [x.strip() for x in fmt.split(',')]
    if len(groups) > 1 and len(parts) == len(groups):
        n0 = sum(k for k, _ in groups[0][1])
        exp0 = b''.join(x[2] for x in per_item[:n0])
        gl = call(lambda: bitstring.pack(parts, *vals).tobytes())
        g0 = call(lambda: bitstring.pack(parts[0], *vals[:n0]).tobytes())
        ctx.op('pack-list', outcome(gl))
        nan = any(isinstance(v, float) and math.isnan(v) for v in vals)
        if nan or (gl == ('ok', exp) and g0 == ('ok', exp0)):
            ctx.ok(('pack-list',) + key_tail, nontrivial)
        elif gl != ('ok', exp):
            ctx.mismatch(f'C18|pack-list|{gclass(groups)}|bytes', short(c), f'pack({parts!r}): got {gl!r:.120} expected {exp.hex()}')
        else:
            ctx.mismatch(f'C18|pack-after-list|{gclass(groups)}|differs', short(c),
                         f'pack({parts[0]!r}) after pack({parts!r}): got {g0!r:.120} expected {exp0.hex()}')

    # ---- unpack / readlist invert it (from struct's bytes, at a bit offset) -----------------------------
    expv = oracle_unpack(groups, exp)
    body = to_bits(exp)
    lead = c.get('lead', '1' * off)
    for opname in ('unpack', 'readlist'):
        if opname == 'unpack':
            def f():
                t = bitstring.Bits(bin=lead + body) if lead + body else bitstring.Bits()
                return (t[off:] if off else t).unpack(fmt)
        else:
            def f():
                t = bitstring.ConstBitStream(bin=lead + body + '1')
                t.pos = off
                r = t.readlist(fmt)
                return r, t.pos
        got = call(f)
        ctx.op(opname, outcome(got))
        if got[0] == 'exc':
            ctx.mismatch(f'C18|{opname}|{gclass(groups)}|unexpected-exc:{type(got[1]).__name__}', short(c), repr(got[1])[:200])
            continue
        res = got[1]
        if opname == 'readlist':
            res, pos = res
            if pos != off + len(body):
                ctx.mismatch(f'C18|readlist|{gclass(groups)}|bits-consumed', short(c),
                             f'fmt={fmt!r}: pos {pos} after reading, expected {off + len(body)}')
                continue
        if same_list(list(res), expv):
            ctx.ok((opname,) + key_tail, nontrivial)
        else:
            idx = next((i for i, (a, b) in enumerate(zip(res, expv)) if not same(a, b)), None)
            which = (flat[idx][0] + flat[idx][1]) if idx is not None and idx < len(flat) else gclass(groups)
            shape = 'value' if idx is not None else 'item-count'
            ctx.mismatch(f'C18|{opname}|{which}|{shape}', short(c),
                         f'fmt={fmt!r} bytes={exp.hex()}: got {str(list(res))[:150]} expected {str(expv)[:150]}')
    ctx.state('pack', gclass(groups), kclass, vcl, off)


def _nan_only_diff(per_item, raw: bytes) -> bool:
    """Every differing item is a NaN in both encodings (T11)."""
    off = 0
    for p, cd, b in per_item:
        g = raw[off:off + len(b)]
        off += len(b)
        if g != b:
            if cd not in FLOAT_CODES:
                return False
            x = struct.unpack(sprefix(p) + cd, g)[0]
            y = struct.unpack(sprefix(p) + cd, b)[0]
            if not (math.isnan(x) and math.isnan(y)):
                return False
    return True


# ==== Array(code, values) ==============================================================================
def array_typecodes(kind_code: str):
    """Every array.array typecode with the same kind and the same *width* as a struct code (standard size)."""
    want = SIZE[kind_code]
    if kind_code in FLOAT_CODES:
        return [tc for tc in 'fd' if array.array(tc).itemsize == want and kind_code != 'e']
    cands = 'bhilq' if kind_code.islower() else 'BHILQ'
    return [tc for tc in cands if array.array(tc).itemsize == want]


def judge_array(ctx, c):
    p, cd = c['prefix'], c['code']
    vals = [dec(v) for v in c['vals']]
    n = len(vals)
    dt = p + cd
    sp = sprefix(p)
    vcl = c.get('vclass', 'rand')
    key_tail = (dt, count_class(n), vcl)
    try:
        items = [struct.pack(sp + cd, v) for v in vals]
        exp = b''.join(items)
        assert exp == (struct.pack(f'{sp}{n}{cd}', *vals) if n else b'')
        exp_err = False
    except struct.error:
        exp_err = True
    except OverflowError:
        ctx.op('skipped-float-outside-struct-range')
        return
    got = call(lambda: bitstring.Array(dt, vals))
    ctx.op('Array(values)', outcome(got))
    if exp_err:
        if got[0] == 'ok':
            ctx.mismatch(f'C18|array-create|{dt}|out-of-range-accepted', short(c), f'got {got[1].tobytes()!r}')
        elif not exc_matches(got[1], 'ValueError'):
            ctx.mismatch(f'C18|array-create|{dt}|out-of-range-wrong-exc:{type(got[1]).__name__}', short(c), repr(got[1])[:200])
        else:
            ctx.ok(('array-oor',) + key_tail, True)
        return
    if got[0] == 'exc':
        ctx.mismatch(f'C18|array-create|{dt}|unexpected-exc:{type(got[1]).__name__}', short(c), repr(got[1])[:200])
        return
    a = got[1]
    expv = [struct.unpack(sp + cd, b)[0] for b in items]
    has_nan = any(isinstance(v, float) and math.isnan(v) for v in expv)

    def nan_tolerant_eq(raw: bytes, want_items) -> bool:
        if raw == b''.join(want_items):
            return True
        if not has_nan or len(raw) != len(b''.join(want_items)):
            return False
        if _nan_only_diff([(p, cd, b) for b in want_items], raw):
            ctx.tolerate('T11')
            return True
        return False

    g = call(lambda: (a.tobytes(), a.itemsize, len(a), a.tolist()))
    ctx.op('Array.tobytes', outcome(g))
    if g[0] == 'exc':
        ctx.mismatch(f'C18|array-create|{dt}|observe-raises:{type(g[1]).__name__}', short(c), repr(g[1])[:200])
        return
    raw, isz, ln, lst = g[1]
    if not nan_tolerant_eq(raw, items):
        ctx.mismatch(f'C18|array-create|{dt}|bytes', short(c), f'got {raw.hex()} expected {exp.hex()}')
    elif isz != 8 * SIZE[cd] or ln != n:
        ctx.mismatch(f'C18|array-create|{dt}|itemsize-or-len', short(c), f'itemsize {isz} len {ln}; expected {8 * SIZE[cd]} / {n}')
    elif not same_list(lst, expv):
        ctx.mismatch(f'C18|array-create|{dt}|tolist', short(c), f'got {str(lst)[:150]} expected {str(expv)[:150]}')
    else:
        ctx.ok(('array',) + key_tail, n > 0)

    # the same dtype reading struct's bytes
    g = call(lambda: bitstring.Array(dt, exp).tolist())
    ctx.op('Array(bytes)', outcome(g))
    if g[0] == 'exc':
        ctx.mismatch(f'C18|array-frombytes|{dt}|unexpected-exc:{type(g[1]).__name__}', short(c), repr(g[1])[:200])
    elif not same_list(g[1], expv):
        ctx.mismatch(f'C18|array-frombytes|{dt}|tolist', short(c), f'got {str(g[1])[:150]} expected {str(expv)[:150]}')
    else:
        ctx.ok(('array-frombytes',) + key_tail, n > 0)

    # the corresponding array.array (native prefixes only: array.array is always native-endian)
    for tc in (array_typecodes(cd) if p in '=@' else ()):
        arr = array.array(tc, vals)
        tcl = tc_class(tc, arr.itemsize)
        if arr.tobytes() != exp:       # struct and array disagree (only conceivable for quieted NaN payloads)
            continue
        if raw == exp:
            ctx.ok(('array-vs-array.array', dt, tc), n > 0)
        g = call(lambda: a.equals(arr))
        ctx.op('Array.equals', outcome(g))
        if g[0] == 'exc':
            ctx.mismatch(f'C18|array-equals|{tcl}|unexpected-exc:{type(g[1]).__name__}', short(c), repr(g[1])[:200])
        elif not has_nan and g[1] is not True:
            ctx.mismatch(f'C18|array-equals|{tcl}|false-for-equal', short(c), f'{dt} equals array({tc!r}) -> {g[1]!r}')
        else:
            ctx.ok(('array-equals', dt, tc), n > 0)
        g = call(lambda: bitstring.Array(dt, arr).tobytes())
        ctx.op('Array(array)', outcome(g))
        if g[0] == 'exc':
            ctx.mismatch(f'C18|array-extend|{tcl}|rejected-matching-width', short(c),
                         f'Array({dt!r}) rejects array.array({tc!r}) (itemsize {arr.itemsize}): {g[1]!r}'[:300])
        elif g[1] != exp:
            ctx.mismatch(f'C18|array-extend|{tcl}|accepted-wrong-values', short(c), f'{dt}: {g[1].hex()} vs {exp.hex()}')
        else:
            ctx.ok(('array-from-array.array', dt, tc), n > 0)

    # byteswap: converts to the other byte order, twice is the identity
    opp = '<' if eff_order(p) == '>' else '>'
    swapped_items = [b[::-1] for b in items]
    if not has_nan:
        assert b''.join(swapped_items) == b''.join(struct.pack(opp + cd, v) for v in vals), 'oracle self-check: reversal vs struct'
    b2 = bitstring.Array(dt, vals)
    g = call(lambda: (b2.byteswap(), b2.tobytes()))
    ctx.op('Array.byteswap', outcome(g))
    if g[0] == 'exc':
        ctx.mismatch(f'C18|array-byteswap|{dt}|unexpected-exc:{type(g[1]).__name__}', short(c), repr(g[1])[:200])
        return
    if g[1][0] is not None or not nan_tolerant_eq(g[1][1], swapped_items):
        ctx.mismatch(f'C18|array-byteswap|{dt}|not-other-encoding', short(c),
                     f'after byteswap {g[1][1].hex()} expected {b"".join(swapped_items).hex()} (struct {opp}{cd})')
        return
    # reading the swapped data with the opposite-endian code gives the original values
    g = call(lambda: (setattr(b2, 'dtype', opp + cd), b2.tolist())[1])
    if g[0] == 'exc' or not same_list(g[1], expv):
        ctx.mismatch(f'C18|array-byteswap|{dt}|values-under-opposite-code', short(c), f'got {str(g[1])[:150]} expected {str(expv)[:150]}')
        return
    g = call(lambda: (b2.byteswap(), setattr(b2, 'dtype', dt), b2.tobytes())[2])
    if g[0] == 'exc' or not nan_tolerant_eq(g[1], items):
        ctx.mismatch(f'C18|array-byteswap|{dt}|not-involution', short(c), f'after two byteswaps {g[1]!r} expected {exp.hex()}')
        return
    ctx.ok(('array-byteswap',) + key_tail, n > 0 and SIZE[cd] > 1)
    ctx.state('array', dt, n, vcl)


# ==== Array(dtype, array.array) =========================================================================
def _dtype_pool():
    """(dtype string, kind, width in bits, order) by construction.  order: 'none' (single byte, no
    endianness in the name), 'be', 'le', 'ne', 'x8' (8 bits spelled with an endianness suffix)."""
    pool = []
    for nm, kind in (('int', 'int'), ('uint', 'uint'), ('i', 'int'), ('u', 'uint')):
        pool.append((f'{nm}8', kind, 8, 'none'))
        for w in (16, 32, 64, 24, 128, 4, 12):
            pool.append((f'{nm}{w}', kind, w, 'be'))
    for sfx, order in (('ne', 'ne'), ('le', 'le'), ('be', 'be')):
        for nm, kind in (('int', 'int'), ('uint', 'uint')):
            pool.append((f'{nm}{sfx}8', kind, 8, 'x8'))
            for w in (16, 32, 64, 24, 128):
                pool.append((f'{nm}{sfx}{w}', kind, w, order))
        for w in (16, 32, 64):
            pool.append((f'float{sfx}{w}', 'float', w, order))
        pool.append((f'bfloat{sfx}', 'bfloat', 16, order))
    for w in (16, 32, 64):
        pool.append((f'float{w}', 'float', w, 'be'))
        pool.append((f'f{w}', 'float', w, 'be'))
    for p in PREFIXES:
        for cd in CODES:
            kind = 'float' if cd in FLOAT_CODES else ('int' if cd.islower() else 'uint')
            order = 'none' if SIZE[cd] == 1 else {'>': 'be', '<': 'le', '=': 'ne', '@': 'ne'}[p]
            pool.append((p + cd, kind, 8 * SIZE[cd], order))
    for nm, w in (('hex8', 8), ('hex16', 16), ('hex32', 32), ('hex64', 64), ('bin8', 8), ('bin16', 16), ('bin32', 32),
                  ('bytes1', 8), ('bytes2', 16), ('bytes4', 32), ('bytes8', 64), ('bits8', 8), ('bits32', 32),
                  ('bool', 1), ('bfloat', 16), ('p4binary8', 8), ('p3binary8', 8), ('e4m3mxfp8', 8),
                  ('e5m2mxfp8', 8), ('mxint8', 8), ('oct24', 24)):
        pool.append((nm, 'other:' + nm.rstrip('0123456789'), w, 'be'))
    return pool


DTYPE_POOL = _dtype_pool()
TYPECODES = 'bBhHiIlLqQfd' + ('u' if 'u' in array.typecodes else '') + ('w' if 'w' in array.typecodes else '')


def tc_kind(tc: str) -> str:
    if tc in 'fd':
        return 'float'
    if tc in 'uw':
        return 'char'
    return 'int' if tc.islower() else 'uint'


def tc_class(tc: str, itemsize: int) -> str:
    """Input class for mechanism keys; C long whose real size differs from the struct table's 4 is its own class."""
    if tc in 'lL' and itemsize != SIZE['l']:
        return f'typecode-l-{itemsize}byte'
    return f'typecode-{tc}'


def tc_values(rng, tc: str, n: int):
    isz = array.array(tc).itemsize
    if tc in 'uw':
        return ''.join(rng.choice('abcxyz0') for _ in range(n))
    if tc in 'fd':
        cd = 'f' if tc == 'f' else 'd'
        return [float(float_value(rng, cd, rng.choice([k for k in FLOAT_CLASSES if k != 'intval']))) for _ in range(n)]
    bits = 8 * isz
    lo, hi = (-(1 << (bits - 1)), (1 << (bits - 1)) - 1) if tc.islower() else (0, (1 << bits) - 1)
    out = []
    for _ in range(n):
        out.append(rng.choice([lo, hi, 0, 1, 2, 3, hi - 1, lo + 1, rng.randint(lo, hi), rng.randint(lo, hi),
                               1 << rng.randrange(bits - 1)]))
    return out


def judge_arr_in(ctx, c):
    tc, dt, kind, width, order = c['tc'], c['dtype'], c['kind'], c['width'], c['order']
    vals = c['vals'] if isinstance(c['vals'], str) else [dec(v) for v in c['vals']]
    arr = array.array(tc, vals)
    isz = arr.itemsize
    tcl = tc_class(tc, isz)
    want = arr.tolist()
    kind_ok = kind == tc_kind(tc)
    width_ok = width == 8 * isz
    order_ok = order in ('none', 'ne', 'x8') or order == ('le' if NATIVE_LE else 'be')
    match = kind_ok and width_ok and order_ok
    unspecified = match and order == 'x8'
    if unspecified:
        ctx.extra['unspecified_x8_cases'] = ctx.extra.get('unspecified_x8_cases', 0) + 1
    pre = [dec(v) for v in c['pre']] if c.get('pre') is not None else None
    route = 'extend(array)' if pre is not None else 'Array(array)'

    def build():
        if pre is None:
            return bitstring.Array(dt, arr), 0
        a = bitstring.Array(dt, pre)
        before = (a.tobytes(), len(a.data))
        try:
            a.extend(arr)
        except Exception as e:  # noqa: BLE001
            e._rv_state_kept = (a.tobytes(), len(a.data)) == before
            raise
        return a, len(pre)

    got = call(build)
    ctx.op(route, outcome(got))
    key = ('arr-in', route, tc, dt, 'match' if match else 'mismatch')
    if got[0] == 'exc':
        e = got[1]
        if not exc_matches(e, ('ValueError', 'TypeError')):
            ctx.mismatch(f'C18|array-extend|{tcl}|wrong-exc:{type(e).__name__}', short(c), f'{route} {dt}: {e!r}'[:250])
        elif getattr(e, '_rv_state_kept', True) is False:
            ctx.mismatch(f'C18|array-extend|{tcl}|rejected-but-data-changed', short(c), f'{route} {dt}')
        elif match and not unspecified:
            ctx.mismatch(f'C18|array-extend|{tcl}|rejected-matching-width', short(c),
                         f'{route}: Array({dt!r}) rejects array.array({tc!r}) (itemsize {isz}) although kind and width match: {e!r}'[:300])
        else:
            ctx.ok(key, True)
        return
    a, k0 = got[1]
    g = call(lambda: (a.tolist()[k0:], a.tobytes()[k0 * (width // 8 if width % 8 == 0 else 0):], len(a)))
    if g[0] == 'exc':
        ctx.mismatch(f'C18|array-extend|{tcl}|observe-raises:{type(g[1]).__name__}', short(c), repr(g[1])[:200])
        return
    lst, raw, ln = g[1]
    if not match:
        why = 'accepted-wrong-kind' if not kind_ok else ('accepted-wrong-width' if not width_ok else 'accepted-wrong-byteorder')
        ctx.mismatch(f'C18|array-extend|{tcl}|{why}', short(c),
                     f'{route}: Array({dt!r}) accepts array.array({tc!r}, itemsize {isz}) and reads {str(lst)[:80]} for {str(want)[:80]}')
        return
    if not same_list(lst, want) or raw != arr.tobytes() or ln != k0 + len(want):
        ctx.mismatch(f'C18|array-extend|{tcl}|accepted-wrong-values', short(c), f'{route} {dt}: {str(lst)[:120]} expected {str(want)[:120]}')
        return
    if unspecified:
        ctx.extra['unspecified_x8_accepted'] = ctx.extra.get('unspecified_x8_accepted', 0) + 1
    ctx.ok(key, len(want) > 0)
    # equals(array.array) - True for the same items, False once an item or the length differs
    if pre is None and not any(isinstance(v, float) and math.isnan(v) for v in want):
        other = array.array(tc, arr)
        if len(other):
            i = c.get('alter', 0) % len(other)
            if tc in 'fd':
                other[i] = 2.0 if other[i] == 1.0 else 1.0
            else:
                other[i] = other[i] - 1 if other[i] > 0 else other[i] + 1
            assert other.tolist() != want
        longer = array.array(tc, arr)
        longer.append(want[0] if want else (1.0 if tc in 'fd' else 1))
        g = call(lambda: (a.equals(arr), a.equals(other) if len(other) else False, a.equals(longer)))
        ctx.op('Array.equals', outcome(g))
        if g[0] == 'exc':
            ctx.mismatch(f'C18|array-equals|{tcl}|unexpected-exc:{type(g[1]).__name__}', short(c), repr(g[1])[:200])
        elif g[1][0] is not True:
            ctx.mismatch(f'C18|array-equals|{tcl}|false-for-equal', short(c), f'{dt}: equals -> {g[1][0]!r}')
        elif g[1][1] is not False or g[1][2] is not False:
            ctx.mismatch(f'C18|array-equals|{tcl}|true-for-different', short(c), f'{dt}: altered {g[1][1]!r} longer {g[1][2]!r}')
        else:
            ctx.ok(('arr-equals', tc, dt), True)
    ctx.state('arr_in', tc, dt, len(want))


def judge_arr_eq_width(ctx, c):
    """equals() with an array.array of another width is False (the dtypes are not equivalent)."""
    tc, dt = c['tc'], c['dtype']
    vals = [dec(v) for v in c['vals']]
    arr = array.array(tc, vals)
    # 'own' = the same underlying bytes (hex) or the same item values (list) as the array.array
    own = bytes.fromhex(c['own']) if isinstance(c['own'], str) else [dec(v) for v in c['own']]
    g = call(lambda: bitstring.Array(dt, own).equals(arr))
    ctx.op('Array.equals', outcome(g))
    if g[0] == 'exc':
        ctx.mismatch(f'C18|array-equals|{tc_class(tc, arr.itemsize)}|unexpected-exc:{type(g[1]).__name__}', short(c), repr(g[1])[:200])
    elif g[1] is not False:
        ctx.mismatch(f'C18|array-equals|{tc_class(tc, arr.itemsize)}|true-for-other-width', short(c), f'{dt} vs {tc}: {g[1]!r}')
    else:
        ctx.ok(('arr-equals-width', tc, dt, 'same-bytes' if isinstance(c['own'], str) else 'same-values'), True)


# ==== le / be / ne relations on whole-byte contents ======================================================
def judge_endian(ctx, c):
    raw = bytes.fromhex(c['hex'])
    nb = len(raw)
    n = 8 * nb
    cls = util.CLASSES[c.get('cls', 'Bits')]
    bits = to_bits(raw)
    s = cls(bytes=raw)
    t = cls(bytes=raw[::-1])                      # the byte-reversed bits
    native = sys.byteorder
    how = c.get('how', 0)

    def rd(obj, name):
        """Three reading routes of the same interpretation."""
        if how % 3 == 0:
            return getattr(obj, name)
        if how % 3 == 1:
            return getattr(obj, f'{name}{n}') if not name.startswith('bfloat') else getattr(obj, name)
        r = bitstring.ConstBitStream(obj)
        return r.read(f'{name}:{n}') if not name.startswith('bfloat') else r.read(name)

    def check(opname, name, got, exp, relation):
        ctx.op(opname, outcome(got))
        if got[0] == 'exc':
            ctx.mismatch(f'C18|{opname}|{name}|unexpected-exc:{type(got[1]).__name__}', short(c), f'{relation}: {got[1]!r}'[:200])
            return False
        if not same(got[1], exp):
            ctx.mismatch(f'C18|{opname}|{name}|{relation}', short(c), f'{name} of {raw.hex()}: got {got[1]!r} expected {exp!r}')
            return False
        ctx.ok((opname, name, nb, relation), True)
        return True

    for signed, base in ((False, 'uint'), (True, 'int')):
        le_def = int.from_bytes(raw, 'little', signed=signed)
        be_def = int.from_bytes(raw, 'big', signed=signed)
        ne_def = int.from_bytes(raw, native, signed=signed)
        gle = call(lambda: rd(s, base + 'le'))
        if check('le-read', base + 'le', gle, le_def, 'vs-int.from_bytes'):
            check('be-read', base + 'be', call(lambda: rd(t, base + 'be')), gle[1], 'le-vs-be-of-reversed')
        check('be-read', base + 'be', call(lambda: rd(s, base + 'be')), be_def, 'vs-int.from_bytes')
        check('be-read', base, call(lambda: getattr(s, base)), be_def, 'plain-equals-be')
        check('ne-read', base + 'ne', call(lambda: rd(s, base + 'ne')), ne_def, 'vs-sys.byteorder')
        # creation is the inverse: value -> the same bytes
        for sfx, v in (('le', le_def), ('be', be_def), ('ne', ne_def)):
            nm = base + sfx
            route = how % 4
            if route == 0:
                f = lambda: cls(**{nm: v}, length=n).tobytes()                   # noqa: E731
            elif route == 1:
                f = lambda: cls(f'{nm}:{n}={v}').tobytes()                       # noqa: E731
            elif route == 2:
                f = lambda: bitstring.pack(f'{nm}:{n}', v).tobytes()             # noqa: E731
            else:
                def f():
                    x = bitstring.BitArray(n)
                    setattr(x, nm, v)
                    return x.tobytes()
            g = call(f)
            opn = {'le': 'le-create', 'be': 'be-create', 'ne': 'ne-create'}[sfx]
            ctx.op(opn, outcome(g))
            if g[0] == 'exc':
                ctx.mismatch(f'C18|{opn}|{nm}|unexpected-exc:{type(g[1]).__name__}', short(c), repr(g[1])[:200])
            elif g[1] != raw:
                ctx.mismatch(f'C18|{opn}|{nm}|bytes', short(c), f'{nm}={v} length {n}: got {g[1].hex()} expected {raw.hex()}')
            else:
                ctx.ok((opn, nm, nb), True)
    if nb in (2, 4, 8):
        cd = FCODE[n]
        le_def = struct.unpack('<' + cd, raw)[0]
        be_def = struct.unpack('>' + cd, raw)[0]
        ne_def = struct.unpack('=' + cd, raw)[0]
        gle = call(lambda: rd(s, 'floatle'))
        if check('le-read', 'floatle', gle, le_def, 'vs-struct'):
            check('be-read', 'floatbe', call(lambda: rd(t, 'floatbe')), gle[1], 'le-vs-be-of-reversed')
        check('be-read', 'floatbe', call(lambda: rd(s, 'floatbe')), be_def, 'vs-struct')
        check('be-read', 'float', call(lambda: rd(s, 'float')), be_def, 'plain-equals-be')
        check('ne-read', 'floatne', call(lambda: rd(s, 'floatne')), ne_def, 'vs-sys.byteorder')
        for sfx, v in (('le', le_def), ('be', be_def), ('ne', ne_def)):
            nm = 'float' + sfx
            g = call(lambda: cls(**{nm: v}, length=n).tobytes())
            opn = {'le': 'le-create', 'be': 'be-create', 'ne': 'ne-create'}[sfx]
            ctx.op(opn, outcome(g))
            if g[0] == 'exc':
                ctx.mismatch(f'C18|{opn}|{nm}|unexpected-exc:{type(g[1]).__name__}', short(c), repr(g[1])[:200])
            elif g[1] != raw:
                if math.isnan(v) and len(g[1]) == nb and math.isnan(struct.unpack({'le': '<', 'be': '>', 'ne': '='}[sfx] + cd, g[1])[0]):
                    ctx.tolerate('T11')
                    ctx.ok((opn, nm, nb, 'nan'), True)
                else:
                    ctx.mismatch(f'C18|{opn}|{nm}|bytes', short(c), f'{nm}={v!r}: got {g[1].hex()} expected {raw.hex()}')
            else:
                ctx.ok((opn, nm, nb), True)
    if nb == 2:
        # bfloat = the top half of a float32: the oracle pads with two zero bytes
        le_def = struct.unpack('<f', b'\0\0' + raw)[0]
        be_def = struct.unpack('>f', raw + b'\0\0')[0]
        ne_def = le_def if NATIVE_LE else be_def
        gle = call(lambda: rd(s, 'bfloatle'))
        if check('le-read', 'bfloatle', gle, le_def, 'vs-struct'):
            check('be-read', 'bfloatbe', call(lambda: rd(t, 'bfloatbe')), gle[1], 'le-vs-be-of-reversed')
        check('be-read', 'bfloatbe', call(lambda: rd(s, 'bfloatbe')), be_def, 'vs-struct')
        check('be-read', 'bfloat', call(lambda: rd(s, 'bfloat')), be_def, 'plain-equals-be')
        check('ne-read', 'bfloatne', call(lambda: rd(s, 'bfloatne')), ne_def, 'vs-sys.byteorder')
        if not math.isnan(le_def):
            # creating from an exactly representable value: le bytes are the reversed be bytes
            g = call(lambda: (cls(bfloatle=le_def).tobytes(), cls(bfloatbe=le_def).tobytes(), cls(bfloatne=le_def).tobytes()))
            ctx.op('le-create', outcome(g))
            ctx.op('ne-create', outcome(g))
            if g[0] == 'exc':
                ctx.mismatch(f'C18|le-create|bfloatle|unexpected-exc:{type(g[1]).__name__}', short(c), repr(g[1])[:200])
            elif g[1][0] != raw or g[1][1] != raw[::-1]:
                ctx.mismatch('C18|le-create|bfloatle|bytes', short(c), f'bfloatle={le_def!r}: {g[1][0].hex()} / be {g[1][1].hex()} expected {raw.hex()}')
            elif g[1][2] != (raw if NATIVE_LE else raw[::-1]):
                ctx.mismatch('C18|ne-create|bfloatne|bytes', short(c), f'bfloatne={le_def!r}: {g[1][2].hex()}')
            else:
                ctx.ok(('le-create', 'bfloatle', nb), True)
    # whole-object byteswap converts the le reading into the be reading and back
    u = bitstring.BitArray(bytes=raw)
    g = call(lambda: (u.byteswap(), u.tobytes(), u.uintbe, u.intbe))
    ctx.op('BitArray.byteswap', outcome(g))
    if g[0] == 'exc':
        ctx.mismatch(f'C18|byteswap|whole|unexpected-exc:{type(g[1]).__name__}', short(c), repr(g[1])[:200])
    elif g[1][1] != raw[::-1] or g[1][2] != int.from_bytes(raw, 'little') or g[1][3] != int.from_bytes(raw, 'little', signed=True):
        ctx.mismatch('C18|byteswap|whole|not-other-encoding', short(c), f'{raw.hex()} -> {g[1][1].hex()}')
    elif g[1][0] != 1:
        ctx.mismatch('C18|byteswap|whole|return-value', short(c), f'returned {g[1][0]!r}, one swap of {nb} bytes was done')
    else:
        g2 = call(lambda: (u.byteswap(), u.tobytes()))
        if g2[0] == 'exc' or g2[1][1] != raw:
            ctx.mismatch('C18|byteswap|whole|not-involution', short(c), f'{raw.hex()} twice -> {g2[1]!r}')
        else:
            ctx.ok(('byteswap-whole', nb), nb > 1)
    ctx.state('endian', nb, bits[:16])


# ==== BitArray.byteswap with patterns ======================================================================
def bs_model(bits: str, sizes, start: int, end: int, once: bool = False):
    """(content after, repeats): pattern of byte sizes applied from `start`, repeated in its entirety
    as often as it fits into [start, end)."""
    region = bits[start:end]
    if sizes is None:
        sizes = [len(region) // 8]
    tot = 8 * sum(sizes)
    if tot == 0:
        return bits, 0
    reps = len(region) // tot
    if once:
        reps = min(reps, 1)         # repeat=False: the pattern is applied once, and only if all of it fits
    out = []
    p = 0
    for _ in range(reps):
        for sz in sizes:
            out.append(bytes_rev(region[p:p + 8 * sz]))
            p += 8 * sz
    out.append(region[p:])
    return bits[:start] + ''.join(out) + bits[end:], reps


def pattern_sizes(pat):
    """Byte sizes of a case's pattern spec: None | int | list | ['s', prefix, [[k, code], ...], spelled]."""
    if pat is None or pat == 0:
        return None
    if isinstance(pat, int):
        return [pat]
    if pat and pat[0] == 's':
        return [SIZE[cd] for k, cd in pat[2] for _ in range(k)]
    return list(pat)


def pattern_arg(pat):
    if isinstance(pat, list) and pat and pat[0] == 's':
        return pat[3]
    return pat


def pattern_class(pat) -> str:
    if pat is None:
        return 'None'
    if isinstance(pat, int):
        return 'int0' if pat == 0 else 'int'
    if pat and pat[0] == 's':
        return 'struct' + (pat[1] or '-noprefix')
    return 'list'


def judge_byteswap(ctx, c):
    bits = c['bin']
    L = len(bits)
    pat = c['pat']
    start, end = c.get('start'), c.get('end')
    s0 = 0 if start is None else start
    e0 = L if end is None else end
    sizes = pattern_sizes(pat)
    arg = pattern_arg(pat)
    pc = pattern_class(pat)
    as_tuple = c.get('tuple', False)
    if as_tuple and isinstance(arg, list):
        arg = tuple(arg)
    once = bool(c.get('once'))
    exp, reps = bs_model(bits, sizes, s0, e0, once)
    cls = util.CLASSES[c.get('cls', 'BitArray')]
    u = util.mk(cls, bits)
    kw = {}
    if start is not None:
        kw['start'] = start
    if end is not None:
        kw['end'] = end
    if once:
        kw['repeat'] = False
    wc = ('whole' if (s0, e0) == (0, L) else ('aligned-window' if s0 % 8 == 0 else 'unaligned-window')) + (',once' if once else '')
    g = call(lambda: (u.byteswap(arg, **kw) if pat is not None or kw else u.byteswap(), util.B(u)))
    ctx.op('BitArray.byteswap', outcome(g))
    if g[0] == 'exc':
        ctx.mismatch(f'C18|byteswap|{pc},{wc}|unexpected-exc:{type(g[1]).__name__}', short(c), repr(g[1])[:200])
        return
    ret, after = g[1]
    if after != exp:
        ctx.mismatch(f'C18|byteswap|{pc},{wc}|not-other-encoding', short(c), f'pattern {arg!r}: got {after[:96]} expected {exp[:96]}')
        return
    if ret != reps:
        ctx.mismatch(f'C18|byteswap|{pc},{wc}|return-value', short(c), f'pattern {arg!r}: returned {ret!r}, {reps} repeats were done')
        return
    # "converts between the two encodings": struct reads the same values from the original as little-endian
    # and from the result as big-endian
    if isinstance(pat, list) and pat and pat[0] == 's' and reps:
        body = ''.join(f'{k}{cd}' for k, cd in pat[2])
        nbytes = sum(sizes)
        for r in range(reps):
            o = from_bits(bits[s0 + 8 * nbytes * r: s0 + 8 * nbytes * (r + 1)])
            w = from_bits(after[s0 + 8 * nbytes * r: s0 + 8 * nbytes * (r + 1)])
            if struct.pack('>' + body, *struct.unpack('<' + body, o)) != w and \
                    not any(isinstance(x, float) and math.isnan(x) for x in struct.unpack('<' + body, o)):
                ctx.mismatch(f'C18|byteswap|{pc},{wc}|struct-values-differ', short(c), f'{o.hex()} -> {w.hex()} for {body}')
                return
    g = call(lambda: (u.byteswap(arg, **kw) if pat is not None or kw else u.byteswap(), util.B(u)))
    if g[0] == 'exc' or g[1][1] != bits or g[1][0] != reps:
        ctx.mismatch(f'C18|byteswap|{pc},{wc}|not-involution', short(c), f'pattern {arg!r} twice: {str(g[1])[:160]}')
        return
    ctx.ok(('byteswap', pc, wc, 'r0' if reps == 0 else 'r1' if reps == 1 else 'r>1', c.get('cls', 'BitArray')),
           reps > 0 and any(sz > 1 for sz in (sizes or [(e0 - s0) // 8])))
    ctx.state('byteswap', L, pc, wc, reps)


# ==== Array.byteswap for any dtype ==========================================================================
# (byte-multiplier dtypes such as 'bytes3' are left to C14: Array confuses their unit with bits)
ARR_BS_DTYPES = [('uint8', 8), ('int8', 8), ('uint16', 16), ('uint24', 24), ('int40', 40), ('uintle16', 16),
                 ('intle48', 48), ('uintbe32', 32), ('intne64', 64), ('uintne24', 24), ('hex16', 16), ('hex8', 8),
                 ('bin16', 16), ('bits24', 24), ('float16', 16), ('float32', 32), ('floatle64', 64),
                 ('bfloat', 16), ('e4m3mxfp', 8), ('uint128', 128), ('>q', 64), ('<H', 16), ('=f', 32), ('@b', 8),
                 ('uint12', 12), ('bool', 1), ('bin7', 7), ('int5', 5), ('uint17', 17), ('hex12', 12), ('oct9', 9)]


ARR_TOUCHES = ['itemsize', 'byteswap-twice', 'equals', 'pp', 'tolist', 'repr', 'trailing', 'nothing']


def judge_arr_bswap(ctx, c):
    dt, isz, bits = c['dtype'], c['itemsize'], c['bin']
    if c.get('first'):
        # the Array had another dtype (of another width) first and was looked at under it: what byteswap does depends on the
        # dtype in force when it is called, not on anything read or done before the dtype was changed
        a = bitstring.Array(c['first'], bitstring.Bits(bin=bits) if bits else bitstring.Bits())
        t = c.get('touch')
        touched = call(lambda: (a.itemsize if t == 'itemsize' else (a.byteswap(), a.byteswap()) if t == 'byteswap-twice' else
                                a.equals(array.array('B', [1])) if t == 'equals' else a.pp(stream=io.StringIO()) if t == 'pp' else
                                (len(a), a.tolist()) if t == 'tolist' else repr(a) if t == 'repr' else a.trailing_bits if t == 'trailing' else None))
        ctx.op('Array.byteswap:after-dtype-change:' + str(t))
        a.dtype = dt
        if util.B(a.data) != bits:
            ctx.mismatch('C18|array-byteswap|dtype-change-altered-data', short(c), f'{c["first"]} ({t}) -> {dt}: {util.B(a.data)[:96]} expected {bits[:96]}')
            return
    else:
        a = bitstring.Array(dt, bitstring.Bits(bin=bits) if bits else bitstring.Bits())
    g = call(lambda: (a.byteswap(), util.B(a.data)))
    ctx.op('Array.byteswap', outcome(g))
    if isz % 8:
        if g[0] == 'ok':
            ctx.mismatch('C18|array-byteswap|non-whole-byte-items|no-raise', short(c), f'{dt}: {g[1][1][:64]}')
        elif not exc_matches(g[1], 'ValueError'):
            ctx.mismatch(f'C18|array-byteswap|non-whole-byte-items|wrong-exc:{type(g[1]).__name__}', short(c), repr(g[1])[:200])
        elif util.B(a.data) != bits:
            ctx.mismatch('C18|array-byteswap|non-whole-byte-items|data-changed-after-raise', short(c), dt)
        else:
            ctx.ok(('arr-bswap-raise', dt), True)
        return
    nitems = len(bits) // isz
    exp = ''.join(bytes_rev(bits[i * isz:(i + 1) * isz]) for i in range(nitems)) + bits[nitems * isz:]
    ic = f'{isz // 8}-byte-items' + (',trailing-bits' if len(bits) % isz else '')
    if g[0] == 'exc':
        ctx.mismatch(f'C18|array-byteswap|{ic}|unexpected-exc:{type(g[1]).__name__}', short(c), repr(g[1])[:200])
        return
    if g[1][0] is not None or g[1][1] != exp:
        ctx.mismatch(f'C18|array-byteswap|{ic}|not-other-encoding', short(c), f'{dt}: got {g[1][1][:96]} expected {exp[:96]}')
        return
    # the unsigned big-endian reading of the swapped items is the little-endian reading of the original ones
    le = [int.from_bytes(from_bits(bits[i * isz:(i + 1) * isz]), 'little') for i in range(nitems)]
    gv = call(lambda: bitstring.Array(f'uintbe{isz}', a.data[:nitems * isz]).tolist())
    if gv[0] == 'exc' or gv[1] != le:
        ctx.mismatch(f'C18|array-byteswap|{ic}|values-under-opposite-code', short(c), f'{dt}: {str(gv[1])[:150]} expected {str(le)[:150]}')
        return
    g = call(lambda: (a.byteswap(), util.B(a.data)))
    if g[0] == 'exc' or g[1][1] != bits:
        ctx.mismatch(f'C18|array-byteswap|{ic}|not-involution', short(c), f'{dt} twice: {str(g[1])[:160]}')
        return
    ctx.ok(('arr-bswap', dt, len(bits) % isz != 0, min(nitems, 3)), nitems > 0 and isz > 8)
    ctx.state('arr_bswap', dt, len(bits))


JUDGES = {'pack': judge_pack, 'array': judge_array, 'arr_in': judge_arr_in, 'arr_eq_width': judge_arr_eq_width,
          'endian': judge_endian, 'byteswap': judge_byteswap, 'arr_bswap': judge_arr_bswap}


def judge(ctx, case):
    with util.options(lsb0=False, bytealigned=False):
        JUDGES[case['k']](ctx, case)


# ==== generators ==============================================================================================
def mk_pack_case(rng, groups, classes=None, off=0, oor_ok=False):
    vals, cls_used = [], []
    flat = [cd for _, items in groups for k, cd in items for _ in range(k)]
    for i, cd in enumerate(flat):
        cl = classes[i % len(classes)] if classes else rand_class(rng, cd, oor_ok)
        if cd in FLOAT_CODES and cl not in FLOAT_CLASSES:
            cl = 'rand'
        if cd in INT_CODES and cl not in INT_CLASSES + INT_OOR:
            cl = 'rand'
        cls_used.append(cl)
        vals.append(enc(value_for(rng, cd, cl)))
    case = {'k': 'pack', 'groups': groups, 'fmt': spell(rng, groups), 'vals': vals, 'vclass': vclass_of(cls_used) if cls_used else 'none',
            'off': off}
    if off:
        case['lead'] = util.rb(rng, off)
    return case


def gen_pack(ctx):
    rng = ctx.rng
    ngroups = rng.choice([1, 1, 1, 2, 3])
    groups = []
    for _ in range(ngroups):
        items = []
        for _ in range(rng.choice([1, 1, 2, 2, 3, 4, 6])):
            k = rng.choice([1, 1, 1, 2, 2, 3, 4, 4, 0, 10, 16]) if rng.random() < 0.5 else rng.choice([1, 2, 3, 4])
            items.append([k, rng.choice(CODES)])
        groups.append([rng.choice(PREFIXES), items])
    uniform = rng.random() < 0.3
    cls = None
    if uniform:
        cls = [rng.choice(['lo', 'hi', 'zero', 'm1', 'rand', 'subn', 'nzero', 'inf', 'nan', 'max', 'tie'])]
    return mk_pack_case(rng, groups, cls, off=rng.choice([0, 0, 0, 1, 3, 4, 7]), oor_ok=True)


def gen_array(ctx):
    rng = ctx.rng
    cd = rng.choice(CODES)
    n = rng.choice([0, 1, 2, 3, 4, 4, 7, 16, 33])
    classes = [rand_class(rng, cd, oor_ok=(i == n - 1)) for i in range(n)]
    if rng.random() < 0.25 and n:
        classes = [classes[0] if classes[0] not in INT_OOR else 'rand'] * n
    vals = [enc(value_for(rng, cd, cl)) for cl in classes]
    return {'k': 'array', 'prefix': rng.choice(PREFIXES), 'code': cd, 'vals': vals, 'vclass': vclass_of(classes) if classes else 'none'}


def mk_arr_in(rng, tc, ent, extend=False, n=None):
    dt, kind, width, order = ent
    n = rng.choice([0, 1, 2, 3, 3, 5, 9]) if n is None else n
    vals = tc_values(rng, tc, n)
    case = {'k': 'arr_in', 'tc': tc, 'dtype': dt, 'kind': kind, 'width': width, 'order': order,
            'vals': vals if isinstance(vals, str) else [enc(v) for v in vals], 'pre': None, 'alter': rng.randrange(16)}
    if extend:
        # pre-existing items that the dtype can certainly hold
        if kind in ('int', 'uint'):
            case['pre'] = [rng.choice([0, 1, 2, 3, 5, 7]) for _ in range(rng.choice([0, 1, 2, 4]))]
        elif kind in ('float', 'bfloat'):
            case['pre'] = [enc(rng.choice([0.0, 1.0, -2.0, 0.5])) for _ in range(rng.choice([0, 1, 3]))]
        else:
            case['pre'] = []
    return case


def gen_endian(ctx, nb=None):
    rng = ctx.rng
    if nb is None:
        nb = rng.choice([1, 2, 2, 3, 4, 4, 5, 6, 7, 8, 8, 9, 10, 11, 12, 13, 14, 15, 16])
    k = rng.random()
    if k < 0.6:
        raw = bytes(rng.getrandbits(8) for _ in range(nb))
    elif k < 0.7:
        raw = bytes([rng.choice([0, 0xff, 0x80, 0x7f, 1])] * nb)
    elif k < 0.85:
        raw = bytes(rng.choice([0, 0xff, 0x80, 0x7f, 1, 0xf0]) for _ in range(nb))
    else:
        raw = bytes([0] * (nb - 1) + [rng.choice([1, 0x80, 0xff, 0x7f])])
        if rng.random() < 0.5:
            raw = raw[::-1]
    return {'k': 'endian', 'hex': raw.hex(), 'cls': rng.choice(util.CLASS_NAMES), 'how': rng.randrange(12)}


def gen_byteswap(ctx):
    rng = ctx.rng
    nb = rng.choice([0, 1, 2, 3, 4, 5, 6, 7, 8, 9, 10, 12, 15, 16, 16, 24, 33, 64])
    tail = rng.choice([0, 0, 0, 1, 4, 7])
    bits = util.rb(rng, 8 * nb + tail)
    L = len(bits)
    start = end = None
    if rng.random() < 0.35 and L:
        a, b = sorted((rng.randint(0, L), rng.randint(0, L)))
        if rng.random() < 0.5:
            a -= a % 8
        start, end = rng.choice([(a, b), (a, None), (None, b)])
    room = ((L if end is None else end) - (start or 0)) // 8
    r = rng.random()
    if r < 0.15 or room == 0:
        pat = rng.choice([None, 0])
    elif r < 0.4:
        pat = rng.randint(1, max(1, min(room, 9)))
    elif r < 0.65:
        pat = []
        left = room
        while left > 0 and len(pat) < 5 and (not pat or rng.random() < 0.7):
            k = rng.randint(1, min(left, 8))
            pat.append(k)
            left -= k
    else:
        items, left = [], room
        cands = [cd for cd in CODES if SIZE[cd] <= left]
        while cands and len(items) < 4 and (not items or rng.random() < 0.6):
            cd = rng.choice(cands)
            k = rng.randint(1, min(3 if rng.random() < 0.7 else 14, left // SIZE[cd]))
            items.append([k, cd])
            left -= k * SIZE[cd]
            cands = [x for x in CODES if SIZE[x] <= left]
        if not items:
            pat = 1
        else:
            pre = rng.choice(['', '', '<', '>', '=', '@'])
            spelled = pre + ''.join((cd if k == 1 and rng.random() < 0.7 else f'{k}{cd}') for k, cd in items)
            pat = ['s', pre, items, spelled]
    case = {'k': 'byteswap', 'bin': bits, 'pat': pat, 'cls': rng.choice(['BitArray', 'BitArray', 'BitStream'])}
    if start is not None:
        case['start'] = start
    if end is not None:
        case['end'] = end
    if isinstance(pat, list) and pat and pat[0] != 's' and rng.random() < 0.3:
        case['tuple'] = True
    if rng.random() < 0.25:
        case['once'] = True         # repeat=False with a pattern that is valid for the window (invalid ones stay with C03)
    return case


def gen_arr_bswap(ctx):
    rng = ctx.rng
    dt, isz = rng.choice(ARR_BS_DTYPES)
    n = rng.choice([0, 1, 2, 3, 5, 8])
    tb = rng.choice([0, 0, 0, 1, isz - 1, rng.randrange(isz)])
    c = {'k': 'arr_bswap', 'dtype': dt, 'itemsize': isz, 'bin': util.rb(rng, n * isz + tb)}
    if rng.random() < 0.5:
        first, fsz = rng.choice(ARR_BS_DTYPES)
        if fsz != isz:
            c['first'] = first
            c['touch'] = rng.choice(ARR_TOUCHES)
    return c


# ---- enumerated sub-spaces ------------------------------------------------------------------------------------
def enumerated(ctx):
    rng = ctx.rng
    i = 0
    # every code x prefix x count 1..4 x value class, single-code groups; pack + Array
    for p in PREFIXES:
        for cd in CODES:
            classes = (['lo', 'hi', 'zero', 'm1', 'near', 'pow2', 'rand'] + INT_OOR) if cd in INT_CODES else \
                ['zero', 'nzero', 'one', 'subn', 'minnorm', 'max', 'inf', 'ninf', 'nan', 'nanp', 'rand', 'round', 'tie', 'intval']
            for k in (1, 2, 3, 4):
                for cl in classes:
                    i += 1
                    if not ctx.mine(i):
                        continue
                    seq = [cl] if cl not in INT_OOR else (['rand'] * (k - 1) + [cl])
                    if cl in INT_OOR and k > 1:
                        # the offending value in the last position, valid ones before it
                        case = mk_pack_case(rng, [[p, [[k, cd]]]], None)
                        vals = [enc(int_value(rng, cd, 'rand')) for _ in range(k - 1)] + [enc(int_value(rng, cd, cl))]
                        case['vals'], case['vclass'] = vals, cl
                    else:
                        case = mk_pack_case(rng, [[p, [[k, cd]]]], seq)
                    ctx.run_case(judge, case)
                    ctx.run_case(judge, {'k': 'array', 'prefix': p, 'code': cd, 'vals': case['vals'], 'vclass': case['vclass']})
    ctx.exhaustive['code x prefix x count(1-4) x value-class for pack/unpack/readlist/Array'] = True
    # every typecode x every dtype of the pool, constructor and extend
    for tc in TYPECODES:
        for ent in DTYPE_POOL:
            i += 1
            if not ctx.mine(i):
                continue
            ctx.run_case(judge, mk_arr_in(rng, tc, ent, extend=False, n=3))
            if tc not in 'uw':
                ctx.run_case(judge, mk_arr_in(rng, tc, ent, extend=True))
    ctx.exhaustive['array.array typecode x Array dtype pool'] = True
    # equals against an array.array of another width
    for tc in 'bBhHiIlLqQfd':
        isz = array.array(tc).itemsize
        for dt, w in (('int8', 8), ('uint8', 8), ('intne16', 16), ('uintne16', 16), ('intne32', 32), ('uintne32', 32),
                      ('intne64', 64), ('uintne64', 64), ('floatne32', 32), ('floatne64', 64), ('floatne16', 16)):
            i += 1
            if w == 8 * isz or not ctx.mine(i):
                continue
            # same underlying bytes where possible: n items of the array = the bytes of the Array
            vals = [1, 2, 3, 4, 5, 6, 7, 8][: (8 if isz == 1 else 4)]
            arr = array.array(tc, [float(v) for v in vals] if tc in 'fd' else vals)
            own = arr.tobytes()
            own = own[: len(own) - (len(own) % (w // 8))]
            ctx.run_case(judge, {'k': 'arr_eq_width', 'tc': tc, 'dtype': dt, 'vals': [enc(v) for v in arr.tolist()],
                                 'own': own.hex()})
            # ... and the same item values in the other width
            same_vals = [enc(float(v)) if dt.startswith('float') else int(v) for v in arr.tolist()]
            ctx.run_case(judge, {'k': 'arr_eq_width', 'tc': tc, 'dtype': dt, 'vals': [enc(v) for v in arr.tolist()],
                                 'own': same_vals})
    # every 1-byte content; every 2-byte content in the thorough tier
    for v in range(256):
        i += 1
        if ctx.mine(i):
            ctx.run_case(judge, {'k': 'endian', 'hex': f'{v:02x}', 'cls': util.CLASS_NAMES[v % 4], 'how': v})
    ctx.exhaustive['le/be/ne relations: all 1-byte contents'] = True
    if not ctx.quick:
        for v in range(65536):
            if v % ctx.nshards == ctx.shard:
                ctx.run_case(judge, {'k': 'endian', 'hex': f'{v:04x}', 'cls': util.CLASS_NAMES[(v >> 3) % 4], 'how': v % 12})
        ctx.exhaustive['le/be/ne relations: all 2-byte contents (float16, bfloat)'] = True
    # Array.byteswap: every dtype of its pool with 0, 1 and 3 items, with and without trailing bits
    for dt, isz in ARR_BS_DTYPES:
        for n in (0, 1, 3):
            for tb in (0, 3 % isz):
                i += 1
                if ctx.mine(i):
                    ctx.run_case(judge, {'k': 'arr_bswap', 'dtype': dt, 'itemsize': isz, 'bin': util.rb(rng, n * isz + tb)})


def directed(ctx):
    """Hand-aimed cases every run must see, incl. the reproducers of the known finding (C long = 8 bytes)."""
    cases = [
        {'k': 'pack', 'groups': [['>', [[2, 'h'], [1, 'Q']]]], 'fmt': '>2hQ', 'vals': [1, -2, 3], 'vclass': 'rand', 'off': 0},
        {'k': 'pack', 'groups': [['<', [[1, 'b'], [1, 'H'], [1, 'l']]]], 'fmt': '<bHl', 'vals': [-1, 65535, -2147483648], 'vclass': 'mixed', 'off': 0},
        {'k': 'pack', 'groups': [['@', [[1, 'b'], [1, 'l'], [1, 'L'], [1, 'q']]]], 'fmt': '@blLq', 'vals': [1, 2, 4294967295, -3], 'vclass': 'mixed', 'off': 3, 'lead': '010'},
        {'k': 'pack', 'groups': [['=', [[1, 'e'], [1, 'f'], [1, 'd']]], ['>', [[2, 'e']]]], 'fmt': '=efd, >2e',
         'vals': [enc(-0.0), enc(1e-45), enc(5e-324), enc(math.inf), enc(6e-8)], 'vclass': 'mixed', 'off': 0},
        {'k': 'pack', 'groups': [['>', [[1, 'L']]]], 'fmt': '>L', 'vals': [1 << 32], 'vclass': 'hi+1', 'off': 0},
        {'k': 'array', 'prefix': '@', 'code': 'l', 'vals': [1, -2, 2147483647], 'vclass': 'mixed'},
        {'k': 'array', 'prefix': '=', 'code': 'e', 'vals': [enc(65504.0), enc(-0.0), enc(6.1e-5)], 'vclass': 'mixed'},
        {'k': 'endian', 'hex': '0102', 'cls': 'Bits', 'how': 0},
        {'k': 'endian', 'hex': '000000000000f07f', 'cls': 'BitStream', 'how': 2},
        {'k': 'byteswap', 'bin': to_bits(bytes.fromhex('00112233445566')), 'pat': 2, 'cls': 'BitArray'},
        {'k': 'byteswap', 'bin': to_bits(bytes.fromhex('00112233445566')), 'pat': [2, 5], 'cls': 'BitArray'},
        {'k': 'byteswap', 'bin': to_bits(bytes.fromhex('00112233445566')), 'pat': ['s', '', [[1, 'h']], 'h'], 'cls': 'BitStream'},
        {'k': 'arr_bswap', 'dtype': 'uint32', 'itemsize': 32, 'bin': to_bits(struct.pack('>3I', 100, 1, 999))},
    ]
    # known finding C18-D1: array.array('l'/'L') has 8-byte items here but is classified as 32-bit
    for tc, sign in (('l', 'int'), ('L', 'uint')):
        for dt, order in ((f'{sign}ne32', 'ne'), (f'{sign}ne64', 'ne'), ('=' + tc, 'ne'), ('=' + ('q' if tc == 'l' else 'Q'), 'ne')):
            width = 64 if dt.endswith('64') or dt[-1] in 'qQ' else 32
            cases.append({'k': 'arr_in', 'tc': tc, 'dtype': dt, 'kind': sign, 'width': width, 'order': order,
                          'vals': [1, 2, 3], 'pre': None, 'alter': 1})
    cases.append({'k': 'arr_in', 'tc': 'l', 'dtype': 'intne32', 'kind': 'int', 'width': 32, 'order': 'ne', 'vals': [1, 2, 3], 'pre': [7], 'alter': 0})
    cases.append({'k': 'arr_in', 'tc': 'i', 'dtype': 'intne32', 'kind': 'int', 'width': 32, 'order': 'ne', 'vals': [1, -2, 3], 'pre': None, 'alter': 0})
    cases.append({'k': 'arr_in', 'tc': 'q', 'dtype': 'intne64', 'kind': 'int', 'width': 64, 'order': 'ne', 'vals': [1, -2, 3], 'pre': [5], 'alter': 2})
    for c in cases:
        ctx.run_case(judge, c)


def run(ctx):
    if ctx.shard == 0:
        directed(ctx)
    enumerated(ctx)
    # item runs longer than 1 KiB / 64 KiB (where a block-wise path could take over), for every item size 2..8 bytes
    for i in range(ctx.scale(8, 100)):
        rng = ctx.rng
        sz = rng.choice([3, 5, 6, 7, 2, 4, 8, 3])
        nbytes = rng.choice([1024, 4096, 65536 + sz, 65536 * 2 + 3 * sz]) // sz * sz + rng.choice([0, 0, sz, 1])
        bits = util.rb(rng, 8 * nbytes)
        case = {'k': 'byteswap', 'bin': bits, 'pat': rng.choice([sz, [sz], ['s', '', [[1, {2: 'h', 4: 'l', 8: 'q'}.get(sz, 'b')]], {2: 'h', 4: 'l', 8: 'q'}.get(sz, 'b')]]),
                'cls': rng.choice(['BitArray', 'BitStream'])}
        if rng.random() < 0.3:
            case['start'] = 8 * rng.choice([1, sz, 100])
        ctx.run_case(judge, case)
        if sz in (2, 3, 4, 5, 8):
            dt = {2: 'uintbe16', 3: 'uintbe24', 4: 'uintle32', 5: 'int40', 8: 'floatle64'}[sz]
            ctx.run_case(judge, {'k': 'arr_bswap', 'dtype': dt, 'itemsize': 8 * sz, 'bin': bits[:8 * (nbytes // sz * sz)]})
    n = ctx.scale(90000, 3600000)
    mix = [(gen_pack, 0.38), (gen_array, 0.17), (gen_endian, 0.17), (gen_byteswap, 0.17), (gen_arr_bswap, 0.05)]
    rng = ctx.rng
    for i in range(n):
        r = rng.random()
        acc = 0.0
        c = None
        for g, w in mix:
            acc += w
            if r < acc:
                c = g(ctx)
                break
        if c is None:
            c = mk_arr_in(rng, rng.choice(TYPECODES), rng.choice(DTYPE_POOL), extend=rng.random() < 0.5)
            if c['tc'] in 'uw':
                c['pre'] = None
        ctx.run_case(judge, c)
        if i % 1499 == 0:
            ctx.sample(short(c))


def replay(ctx, case):
    ctx.run_case(judge, case)
