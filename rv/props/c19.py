"""C19 - printable forms (str, repr, pp, Array.__repr__) faithfully describe the value."""
from __future__ import annotations

import atexit
import io
import math
import os
import re
import shutil
import tempfile

import bitstring
from bitstring import Array, BitArray, Bits, BitStream, ConstBitStream, Dtype

from rv import util
from rv.model import pp as PP
from rv.util import B, CLASSES, call, mk, rb

AMBIENT = ['bytealigned', 'mxfp_overflow']      # options this property does not depend on: a quarter of the cases run with them switched
PROP = 'C19'
SHARDS = {'quick': 4, 'thorough': 16}
RULE = ("text cases: every length 0..1100 plus 996..1004 x 4 classes, long values (1001..9000), file-backed "
        "objects (offset/length/handle), mutable objects built from a file and then mutated, stream pos, "
        "lsb0 on/off; each runs str, Bits(str), an independent reader of the str form, repr, eval(repr) "
        "(class, ==, content, pos) or the '...'+true-length rule. pp cases: complete grid L 0..48 x "
        "9+3 format pairs x 11 group sizes (raise iff not expressible) plus random class x L (all residues "
        "mod 12, 996..1004, 2000, 4000) x one/two of bin/hex/oct x group {None,0,1,3,4,8,12,16,24,32,64} x "
        "width 0..200 x sep {' ','','_',', '} x show_offset x lsb0 x no_color x stream kind x fmt spelling; "
        "the output is parsed by rv.model.pp. Array cases: 50 unscaled dtypes x 0..12 finite items x "
        "trailing bits: eval(repr) and Array.pp in bin/hex/oct. key = (function, L mod 12, truncation "
        "side/str form, class or fmt pair, group size, width bucket, outcome); non-trivial = non-empty "
        "value and (for pp) output was produced")
ANCHORS = ['Bits.__str__', 'Bits._repr', 'Bits.__repr__', 'ConstBitStream.__repr__', 'Bits._pp',
           'Bits._format_bits', 'Bits._process_pp_tokens', 'Bits._chars_per_group', 'Bits._bits_per_char',
           'Bits.pp', 'Array.__repr__', 'Array.pp', 'hex_bits2chars', 'oct_bits2chars', 'bin_bits2chars']
REQUIRED_OPS = ['str', 'Bits(str)', 'repr', 'eval(repr)', 'pp', 'Array.repr', 'eval(Array.repr)', 'Array.pp']
MIN_EVALS = {'quick': 100000, 'thorough': 2000000}
ASSUMPTIONS = [
    'pp scope is bin/hex/oct only; pp may raise ValueError exactly when the digits are not expressible '
    '(only "must print when expressible" and "what is printed is faithful" are enforced)',
    'LSB0 pp layout is read as pinned by the repository suite: groups in increasing LSB0 index order, '
    'offset column at the right, trailing bits are the highest-index bits',
    'default group sizes 8/8/12 for bin/hex/oct are taken from pp\'s docstring; the default for a format '
    'pair is not documented and is learned from a reference call with sep=" "',
    'for an ungrouped two-format line the "smallest displayable unit" is taken to be 24 bits',
    'a value longer than 1000 bits whose repr is not marked with ... is accepted when eval(repr) rebuilds '
    'an equal object (file-backed immutable objects)',
    'the value of a file-backed object is what s.bin reports (route independence is C08)',
    'Array dtypes based on bytes are excluded (cannot be built: C14 finding); non-finite items are skipped',
]

F = ['bin', 'oct', 'hex']
GROUPS = [None, 0, 1, 3, 4, 8, 12, 16, 24, 32, 64]
SEPS = [' ', '', '_', ', ', ' ', '', '_', ', ',
        # "any separator": characters that mean something to str.format / % formatting / regular expressions (no digit of any format, no ':')
        '{', '}', '{}', '}{', '{x}', '%s', '%', '\\', '|', '$', '#', '.*', '(', '[ ]']
NS = {'Bits': Bits, 'BitArray': BitArray, 'ConstBitStream': ConstBitStream, 'BitStream': BitStream,
      'Array': Array, 'Dtype': Dtype, '__builtins__': {}}
MAXC = 1000          # documented truncation limit (MAX_CHARS * 4 bits)

# Array dtypes (unscaled) with their item size in bits
ARRAY_DTYPES = {
    'uint1': 1, 'uint3': 3, 'uint5': 5, 'uint8': 8, 'u12': 12, 'uint17': 17, 'uint32': 32, 'uint64': 64,
    'uint70': 70, 'int2': 2, 'int3': 3, 'i8': 8, 'int13': 13, 'int64': 64, 'uintbe16': 16, 'uintle24': 24,
    'uintne32': 32, 'intbe16': 16, 'intle32': 32, 'intne64': 64, 'hex4': 4, 'hex8': 8, 'hex12': 12,
    'bin1': 1, 'bin3': 3, 'bin9': 9, 'oct3': 3, 'oct6': 6, 'bool': 1, 'float16': 16, 'float32': 32,
    'float64': 64, 'floatle32': 32, 'floatle64': 64, 'floatne16': 16, 'bfloat': 16, 'bfloatle': 16,
    'p4binary': 8, 'p3binary': 8, 'e4m3mxfp': 8, 'e5m2mxfp': 8, 'e2m1mxfp': 4, 'e3m2mxfp': 6,
    'e2m3mxfp': 6, 'mxint': 8, 'e8m0mxfp': 8, 'bits8': 8, 'bits3': 3, '>H': 16, '<h': 16, '=L': 32,
    '>f': 32, '<d': 64, 'bytes1': 8, 'bytes2': 16, 'bytes3': 24,
}

# ---- scratch files ----------------------------------------------------------------------------
_TMP = {'dir': None, 'n': 0}


def _cleanup():
    d = _TMP['dir']
    if d:
        shutil.rmtree(d, ignore_errors=True)
        _TMP['dir'] = None


def _newfile(data: bytes) -> str:
    if _TMP['dir'] is None:
        _TMP['dir'] = tempfile.mkdtemp(prefix='rv_c19_')
        atexit.register(_cleanup)
    _TMP['n'] += 1
    path = os.path.join(_TMP['dir'], f'f{_TMP["n"]}.bin')
    with open(path, 'wb') as f:
        f.write(data)
    return path


class WriteOnly:
    """The documented minimum for pp's stream: an object with a write() method."""

    def __init__(self):
        self.parts = []

    def write(self, x):
        self.parts.append(x)

    def getvalue(self):
        return ''.join(self.parts)


# ---- sources ----------------------------------------------------------------------------------
def src_class(src) -> str:
    if src['via'] == 'mem':
        return 'in-memory' + (',from-a-bitarray' if src.get('made') else '')
    if src['cls'] in util.MUTABLE:
        return 'mutable-file-backed'
    if src.get('length') is not None and not src.get('offset') and src['length'] < 4 * len(src['hex']):
        return 'file-backed-length-limited'      # a view of the first `length` bits of a longer file
    return 'file-backed'


def mutate(s, mut):
    op = mut[0]
    n = len(s)
    if n == 0 and op not in ('append', 'prepend', 'iadd', 'clear'):
        s.append('0b1')             # nothing to change in place in an empty object: grow it instead
        return
    if op == 'append':
        s.append('0b' + mut[1])
    elif op == 'prepend':
        s.prepend('0b' + mut[1])
    elif op == 'iadd':
        s += '0b' + mut[1]
    elif op == 'invert':
        s.invert(mut[1] % n)
    elif op == 'invertall':
        s.invert()
    elif op == 'del':
        a = mut[1] % n
        del s[a:a + mut[2]]
    elif op == 'overwrite':
        s.overwrite('0b' + mut[1], mut[2] % n)
    elif op == 'insert':
        s.insert('0b' + mut[1], mut[2] % (n + 1))
    elif op == 'reverse':
        s.reverse()
    elif op == 'setitem':
        s[mut[1] % n] = not s[mut[1] % n]
    elif op == 'clear':
        s.clear()
    else:
        raise KeyError(op)


import enum  # noqa: E402
try:
    import numpy as _np
except Exception:  # noqa: BLE001 - numpy is optional
    _np = None


def build(src, paths):
    """-> (object, value bits).  For file-backed objects the value is what the object reports."""
    cls = CLASSES[src['cls']]
    if src['via'] == 'mem':
        made = src.get('made')
        if made:
            # the object got its bits from somebody else's bitarray (whose bit-endianness describes ITS buffer, not the bits it holds)
            import bitarray as _ba
            e = 'little' if 'little' in made else 'big'
            raw = (_ba.frozenbitarray if 'frozen' in made else _ba.bitarray)(('1' if 'offset' in made else '') + src['bits'], endian=e)
            s = cls(bitarray=raw, offset=1) if 'offset' in made else cls(bitarray=raw) if 'kw' in made else cls(raw)
        else:
            s = mk(cls, src['bits'])
        bits = src['bits']
    else:
        path = _newfile(bytes.fromhex(src['hex']))
        paths.append(path)
        kw = {}
        if src.get('offset') is not None:
            kw['offset'] = src['offset']
        if src.get('length') is not None:
            kw['length'] = src['length']
        if src.get('handle'):
            with open(path, 'rb') as f:
                s = cls(f, **kw)
        else:
            s = cls(filename=path, **kw)
        if src.get('mut'):
            mutate(s, src['mut'])
        bits = B(s)
    if src.get('pos') is not None and src['cls'] in util.STREAMS:
        p = min(src['pos'], len(s))
        kind = src.get('poskind')
        if kind == 'numpy' and _np is not None:
            p = _np.int64(p)                    # a position is an integer whatever its class; repr must still evaluate
        elif kind == 'enum':
            p = enum.IntEnum('Field', {'HERE': p}).HERE
        s.pos = p
    if src.get('after') and src['cls'] in util.MUTABLE:
        # the object goes on being used after its position was set: changed in place, or given a new value through a property
        a = src['after']
        if a[0] == 'prop':
            try:
                setattr(s, a[1], a[2])
            except ValueError:
                pass            # refused (no length to go by, lsb0 and exp-Golomb ...): the object stays as it is and is printed all the same
        else:
            mutate(s, a)
        bits = B(s)
    return s, bits


def short(c):
    def cut(x):
        if isinstance(x, str) and len(x) > 160:
            return x[:48] + f'...({len(x)} chars)'
        if isinstance(x, dict):
            return {k: cut(v) for k, v in x.items()}
        return x
    return cut(c)


def _unlink(paths):
    for p in paths:
        try:
            os.unlink(p)
        except OSError:
            pass


# ---- str / repr -------------------------------------------------------------------------------
def str_form(L: int) -> str:
    if L == 0:
        return 'empty'
    if L > MAXC:
        return 'truncated'
    if L % 4 == 0:
        return 'hex'
    return 'bin' if L < 32 else 'hex+bin'


def judge_text(ctx, c):
    paths = []
    try:
        _judge_text(ctx, c, paths)
    finally:
        _unlink(paths)


def _judge_text(ctx, c, paths):
    src = c['src']
    lsb0 = bool(c.get('lsb0'))
    s, b = build(src, paths)
    L = len(b)
    cls = type(s)
    form = str_form(L)
    ic = src_class(src)
    if lsb0:
        ic += '-lsb0-hex-plus-bin-tail' if form == 'hex+bin' else '-lsb0'
    pos = s.pos if src['cls'] in util.STREAMS else None
    side = 'long' if L > MAXC else 'short'
    nontrivial = L > 0

    def key(fn, outcome='ok'):
        return (fn, L % 12, form, src['cls'], ic, 'pos' if pos else 'nopos', outcome)

    with util.options(lsb0=lsb0):
        # ---------------- str
        kind, t = call(lambda: str(s))
        ctx.op('str', 'ok' if kind == 'ok' else type(t).__name__)
        if kind != 'ok' or not isinstance(t, str):
            ctx.mismatch(f'C19|str|{ic}|raised', c, f'str() -> {kind}:{t!r}'[:300])
        elif side == 'short':
            k2, back = call(lambda: Bits(t))
            ctx.op('Bits(str)', 'ok' if k2 == 'ok' else type(back).__name__)
            if k2 != 'ok':
                ctx.mismatch(f'C19|str|{ic}|not-parsable', c, f'Bits({t[:80]!r}) raised {type(back).__name__}')
            elif B(back) != b:
                ctx.mismatch(f'C19|str|{ic}|roundtrip-not-equal', c,
                             f'L={L} str={t[:80]!r}: Bits(str(s)) has other content than s')
            elif not (back == s):
                ctx.mismatch(f'C19|str|{ic}|eq-false-though-same-content', c,
                             f'L={L} str={t[:80]!r}: Bits(str(s)) == s is False although both have the same bits')
            else:
                ctx.ok(key('str'), nontrivial)
            # independent reader of the literal
            try:
                mine = PP.read_literal(t)
            except ValueError:
                mine = None
            if mine is None:
                ctx.mismatch(f'C19|str|{ic}|not-a-bit-literal', c, f'str={t[:80]!r}')
            elif mine != b:
                ctx.mismatch(f'C19|str|{ic}|literal-differs-from-value', c, f'L={L} str={t[:80]!r}')
            else:
                ctx.ok(key('str-literal'), nontrivial)
            if '...' in t:
                ctx.mismatch(f'C19|str|{ic}|truncated-below-limit', c, f'L={L} str={t[:40]!r}')
        else:
            if not t.endswith('...'):
                ctx.mismatch(f'C19|str|{ic}|long-value-not-marked', c, f'L={L} str ends {t[-20:]!r}')
            else:
                ctx.ok(key('str'), True)
                if not lsb0:
                    try:
                        head = PP.read_literal(t[:-3])
                    except ValueError:
                        head = None
                    if head is None or not head or not b.startswith(head):
                        ctx.mismatch(f'C19|str|{ic}|truncated-head-not-a-prefix', c, f'L={L} str={t[:40]!r}')
                    else:
                        ctx.ok(key('str-head'), True)

        # ---------------- repr
        kind, r = call(lambda: repr(s))
        ctx.op('repr', 'ok' if kind == 'ok' else type(r).__name__)
        if kind != 'ok' or not isinstance(r, str):
            ctx.mismatch(f'C19|repr|{ic}|raised', c, f'repr() -> {kind}:{r!r}'[:300])
            return
        marked = '...' in r
        if side == 'short' and marked:
            ctx.mismatch(f'C19|repr|{ic}|truncated-below-limit', c, f'L={L} repr={r[:60]!r}')
            return
        if marked:
            lens = re.findall(r'length=(\d+)', r)
            if not lens or int(lens[-1]) != L:
                ctx.mismatch(f'C19|repr|{ic}|true-length-missing', c, f'L={L} repr ends {r[-40:]!r}')
            elif not r.startswith(cls.__name__ + '('):
                ctx.mismatch(f'C19|repr|{ic}|wrong-class-name', c, f'repr={r[:40]!r}')
            else:
                ctx.ok(key('repr-truncated'), True)
            if pos and f'pos={pos}' not in r:
                ctx.mismatch(f'C19|repr|{ic}|pos-missing', c, f'pos={pos} repr={r[:40]!r}...{r[-40:]!r}')
            return
        # not marked: must evaluate back (mandatory up to 1000 bits; a longer value that is not
        # marked is only acceptable when it does evaluate back)
        k3, e = call(lambda: eval(r, dict(NS)))
        ctx.op('eval(repr)', 'ok' if k3 == 'ok' else type(e).__name__)
        rs = r if len(r) < 160 else r[:80] + '...' + r[-60:]
        if k3 != 'ok':
            ctx.mismatch(f'C19|repr|{ic}|eval-raises', c, f'L={L} eval({rs!r}) raised {type(e).__name__}: {e}'[:400])
            return
        if type(e) is not cls:
            ctx.mismatch(f'C19|repr|{ic}|eval-wrong-class', c, f'{type(e).__name__} from {rs!r}')
            return
        k4, same = call(lambda: (B(e) == b, e == s))
        if k4 != 'ok' or same[0] is not True:
            ctx.mismatch(f'C19|repr|{ic}|eval-not-equal', c, f'L={L} content differs after eval({rs!r})')
            return
        if same[1] is not True:
            ctx.mismatch(f'C19|repr|{ic}|eq-false-though-same-content', c, f'L={L} eval({rs!r}) == s is False')
            return
        if pos is not None:
            if getattr(e, 'pos', None) != pos:
                ctx.mismatch(f'C19|repr|{ic}|eval-wrong-pos', c, f'pos {pos} -> {getattr(e, "pos", None)} via {rs!r}')
                return
        ctx.ok(key('repr'), nontrivial)
    ctx.state('text', src['cls'], L, pos, lsb0)


# ---- pp ---------------------------------------------------------------------------------------
_DEFAULT_PAIR = {}


def default_group(f1, f2):
    """Group length in effect when the format string gives none (None = unknown)."""
    if f2 is None:
        return PP.DOC_DEFAULT_GROUP[f1]
    k = (f1, f2)
    if k not in _DEFAULT_PAIR:
        val = None
        with util.options(lsb0=False, no_color=True):
            out = io.StringIO()
            kind, _ = call(lambda: Bits(bin='0110' * 72).pp(f'{f1}, {f2}', width=2000, sep=' ',
                                                           show_offset=False, stream=out))
        if kind == 'ok':
            lines = out.getvalue().split('\n')
            if len(lines) > 2:
                first = lines[1].split(' : ')[0].split()
                if first and all(ch in PP.DIGITS[f1] for ch in first[0]):
                    val = len(first[0]) * PP.BPC[f1]
        _DEFAULT_PAIR[k] = val
    return _DEFAULT_PAIR[k]


def pp_class(c) -> str:
    g = c['g']
    return ('two-formats' if c['f2'] else 'one-format') + \
           ('-default-group' if g is None else '-ungrouped' if g == 0 else '-explicit-group') + \
           ('-lsb0' if c.get('lsb0') else '')


def wbucket(w):
    return 'w0' if w == 0 else 'w<=20' if w <= 20 else 'w<=60' if w <= 60 else 'w<=120' if w <= 120 else 'w<=200'


def judge_pp(ctx, c):
    paths = []
    try:
        _judge_pp(ctx, c, paths)
    finally:
        _unlink(paths)


def _judge_pp(ctx, c, paths):
    src = c['src']
    s, b = build(src, paths)
    L = len(b)
    lsb0, no_color = bool(c.get('lsb0')), bool(c.get('no_color', True))
    f1, f2, g = c['f1'], c['f2'], c['g']
    fmt = c['fmt']
    ic = pp_class(c) if fmt is not None else 'fmt-none' + ('-lsb0' if lsb0 else '')
    if lsb0 and g and str_form(L % g) == 'hex+bin':
        ic = 'lsb0-hex-plus-bin-trailing-bits'      # the trailing-bits note is str() of >= 32 unaligned bits
    sink = WriteOnly() if c.get('sink') == 'write-only' else io.StringIO()
    with util.options(lsb0=lsb0, no_color=no_color):
        kind, val = call(lambda: s.pp(fmt, width=c['width'], sep=c['sep'], show_offset=c['offset'], stream=sink))
        text = sink.getvalue()
        if fmt is None:
            can = True
        else:
            can = PP.expressible(L, [f1] + ([f2] if f2 else []), g)
        ctx.op('pp', 'ok' if kind == 'ok' else type(val).__name__)
        if kind != 'ok':
            if text:
                ctx.mismatch(f'C19|pp|{ic}|wrote-before-raising', c, f'{type(val).__name__} after writing {text[:80]!r}')
            if can:
                ctx.mismatch(f'C19|pp|{ic}|raised-though-expressible', c,
                             f'L={L} fmt={fmt!r}: {type(val).__name__}: {val}'[:300])
            elif not isinstance(val, ValueError):
                ctx.mismatch(f'C19|pp|{ic}|raised-other-than-ValueError', c, f'{type(val).__name__}: {val}'[:300])
            else:
                ctx.ok(('pp', L % 12, f1, f2, g, 'raised'), False)
            return
        if fmt is None:
            hf = PP.header_formats(PP.strip_escapes(text.split('\n')[0]))
            if not hf:
                ctx.mismatch(f'C19|pp|{ic}|header-format-unreadable', c, text[:120])
                return
            f1, f2 = hf[0][0], (hf[1][0] if len(hf) > 1 else None)
            gs = [x[1] for x in hf if x[1] is not None]
            g = gs[0] if gs else None
        dg = default_group(f1, f2) if g is None else None
        faults, info = PP.verify(text, b, f1=f1, f2=f2, g=g, default_g=dg, sep=c['sep'], show_offset=c['offset'],
                                 lsb0=lsb0, width=c['width'], no_color=no_color, header_len=L)
    if B(s) != b:
        ctx.mismatch(f'C19|pp|{ic}|value-changed-by-pp', c, '')
    if faults:
        seen = set()
        for shape, detail in faults:
            if shape in seen:
                continue
            seen.add(shape)
            ctx.mismatch(f'C19|pp|{ic}|{shape}', c, f'L={L} fmt={fmt!r} width={c["width"]} sep={c["sep"]!r}: {detail}')
        return
    ctx.ok(('pp', L % 12, f1, f2, g, wbucket(c['width']), 'lsb0' if lsb0 else 'msb0',
            'nosep' if c['sep'] == '' else 'sep'), L > 0, n=1 + info['lines'])
    ctx.extra['pp_lines_parsed'] = ctx.extra.get('pp_lines_parsed', 0) + info['lines']
    ctx.extra['pp_overwide_single_group_lines'] = ctx.extra.get('pp_overwide_single_group_lines', 0) + info['overwide_single']
    ctx.extra['pp_outputs_with_trailing_bits'] = ctx.extra.get('pp_outputs_with_trailing_bits', 0) + (1 if info['trailing'] else 0)
    if not info['width_rule_checked'] or not info['data_checked']:
        ctx.extra['pp_partially_checked'] = ctx.extra.get('pp_partially_checked', 0) + 1
    ctx.state('pp', L, f1, f2, g, c['width'], c['sep'], c['offset'], lsb0)


# ---- Array ------------------------------------------------------------------------------------
def judge_array(ctx, c):
    dt, data = c['dtype'], c['data']
    kind, a = call(lambda: Array(dt, BitArray(bin=data) if data else BitArray()))
    if kind != 'ok' or call(lambda: B(a.data))[1] != data:
        ctx.op('Array.build', 'unusable')
        return
    size = ARRAY_DTYPES.get(dt) or a.itemsize
    fam = re.sub(r'\d+', '', str(a.dtype))
    k0, items = call(a.tolist)
    if k0 != 'ok':
        ctx.op('Array.build', 'unusable')
        return
    finite = all(not isinstance(x, float) or math.isfinite(x) for x in items)
    trailing = len(data) % size
    if not finite:
        ctx.op('Array.repr', 'skipped-nonfinite')
    else:
        kind, r = call(lambda: repr(a))
        ctx.op('Array.repr', 'ok' if kind == 'ok' else type(r).__name__)
        if kind != 'ok' or not isinstance(r, str):
            ctx.mismatch(f'C19|Array.repr|{fam}|raised', c, f'{type(r).__name__}: {r}'[:300])
        else:
            k2, e = call(lambda: eval(r, dict(NS)))
            ctx.op('eval(Array.repr)', 'ok' if k2 == 'ok' else type(e).__name__)
            rs = r if len(r) < 200 else r[:120] + '...' + r[-60:]
            if k2 != 'ok':
                ctx.mismatch(f'C19|Array.repr|{fam}|eval-raises', c, f'eval({rs!r}) raised {type(e).__name__}: {e}'[:400])
            elif type(e) is not Array:
                ctx.mismatch(f'C19|Array.repr|{fam}|eval-wrong-class', c, f'{type(e).__name__} from {rs!r}')
            else:
                k3, same = call(lambda: (e.equals(a), a.equals(e), B(e.data) == data, str(e.dtype) == str(a.dtype)))
                if k3 != 'ok' or same != (True, True, True, True):
                    ctx.mismatch(f'C19|Array.repr|{fam}|eval-not-equal', c,
                                 f'(equals, equals-rev, same data, same dtype)={same} via {rs!r}')
                else:
                    ctx.ok(('Array.repr', fam, size, len(items) if len(items) < 3 else 'n', bool(trailing)), len(data) > 0)
    p = c.get('pp')
    if not p:
        return
    f1, f2, g = p['f1'], p['f2'], p['g']
    unit = g or size
    can = all(unit % PP.BPC[f] == 0 for f in [f1] + ([f2] if f2 else []))
    ic = ('two-formats' if f2 else 'one-format') + ('-explicit-group' if g else '-itemsize-group')
    sink = io.StringIO()
    with util.options(lsb0=False, no_color=bool(p.get('no_color', True))):
        kind, val = call(lambda: a.pp(p['fmt'], width=p['width'], show_offset=p['offset'], stream=sink))
    ctx.op('Array.pp', 'ok' if kind == 'ok' else type(val).__name__)
    if kind != 'ok':
        if can:
            ctx.mismatch(f'C19|Array.pp|{ic}|raised-though-expressible', c, f'{type(val).__name__}: {val}'[:300])
        elif not isinstance(val, ValueError):
            ctx.mismatch(f'C19|Array.pp|{ic}|raised-other-than-ValueError', c, f'{type(val).__name__}: {val}'[:300])
        return
    if not can:
        return              # printed although not expressible (empty data): nothing to read
    faults, info = PP.verify(sink.getvalue(), data, f1=f1, f2=f2, g=unit, sep=' ', show_offset=p['offset'],
                             lsb0=False, width=p['width'], no_color=bool(p.get('no_color', True)),
                             offset_factor=unit)
    if faults:
        seen = set()
        for shape, detail in faults:
            if shape not in seen:
                seen.add(shape)
                ctx.mismatch(f'C19|Array.pp|{ic}|{shape}', c, f'dtype={dt} fmt={p["fmt"]!r} width={p["width"]}: {detail}')
        return
    ctx.ok(('Array.pp', fam, f1, f2, g, wbucket(p['width'])), len(data) >= unit, n=1 + info['lines'])


# ---- dispatch ---------------------------------------------------------------------------------
def judge(ctx, c):
    k = c['kind']
    if k == 'text':
        judge_text(ctx, c)
    elif k == 'pp':
        judge_pp(ctx, c)
    elif k == 'array':
        judge_array(ctx, c)
    else:
        raise KeyError(k)


# ---- generators -------------------------------------------------------------------------------
MUTS = ['append', 'prepend', 'iadd', 'invert', 'invertall', 'del', 'overwrite', 'insert', 'reverse', 'setitem', 'clear']


def gen_mut(rng):
    op = rng.choice(MUTS)
    if op in ('append', 'prepend', 'iadd'):
        return [op, rb(rng, rng.choice([1, 3, 8, 9]))]
    if op in ('invert', 'setitem'):
        return [op, rng.randrange(10 ** 6)]
    if op == 'del':
        return [op, rng.randrange(10 ** 6), rng.choice([1, 4, 8, 13])]
    if op in ('overwrite', 'insert'):
        return [op, rb(rng, rng.choice([1, 4, 8, 11])), rng.randrange(10 ** 6)]
    return [op]


def gen_after(rng):
    if rng.random() < 0.5:
        return gen_mut(rng)
    return ['prop'] + rng.choice([['uint8', 3], ['u8', 200], ['int4', -1], ['hex8', 'a5'], ['hex', 'f'], ['bin', '1'], ['bin3', '101'], ['bytes1', b'a'], ['float16', 0.5], ['uint', 1],
                                  ['bool', True], ['uintle16', 513], ['bits', '0b1'], ['oct', '7'], ['ue', 3]])


def gen_src(rng, L, allow_file=True, p_file=0.15, cls=None):
    cls = cls or rng.choice(util.CLASS_NAMES)
    pos = None
    poskind = None
    if cls in util.STREAMS:
        pos = rng.choice([None, 0, 1, L, L // 2, max(L - 1, 0), rng.randint(0, L)])
        poskind = rng.choice([None, None, None, 'numpy', 'enum'])
    if allow_file and rng.random() < p_file:
        nbytes = (L + 7) // 8 + rng.choice([0, 0, 1, 3])
        if L == 0:
            nbytes = rng.choice([1, 3])        # an empty window over a file that is not empty
        raw = bytes(rng.getrandbits(8) for _ in range(nbytes))
        src = {'via': 'file', 'cls': cls, 'hex': raw.hex(), 'pos': pos}
        r = rng.random()
        if L == 0:
            src['length'] = 0
            if r < 0.4:
                src['offset'] = rng.choice([0, 3, 8])
        elif r < 0.45:
            src['length'] = L
        elif r < 0.6:
            off = rng.choice([0, 1, 3, 8, 9])
            if off + L <= nbytes * 8:
                src['offset'], src['length'] = off, L
        if rng.random() < 0.3:
            src['handle'] = True
        if cls in util.MUTABLE and rng.random() < 0.6:
            src['mut'] = gen_mut(rng)
        if cls in util.MUTABLE and rng.random() < 0.3:
            src['after'] = gen_after(rng)
        return src
    src = {'via': 'mem', 'cls': cls, 'bits': util.content(rng, L), 'pos': pos, 'poskind': poskind}
    if rng.random() < 0.15:
        src['made'] = rng.choice(['little-kw', 'little-auto', 'frozen-little-kw', 'frozen-little-auto', 'little-kw-offset', 'big-kw-offset', 'frozen-big-kw'])
    if cls in util.MUTABLE and rng.random() < 0.25:
        src['after'] = gen_after(rng)
    return src


PP_LENGTHS = list(range(0, 49)) * 3 + [60, 63, 64, 65, 72, 96, 100, 120, 127, 128, 129, 144, 192, 200, 255, 256, 257, 300,
                                       480, 600] + list(range(996, 1005)) + [1001, 1004]


def fmt_string(rng, f1, f2, g):
    def tok(f, withlen):
        name = f if rng.random() < 0.8 else f[0]
        if not withlen or g is None:
            return name
        return f'{name}{g}' if rng.random() < 0.7 else f'{name}:{g}'
    if f2 is None:
        return tok(f1, True)
    mix = rng.choice(['both', 'both', 'first', 'second']) if g is not None else 'both'
    joiner = rng.choice([', ', ',', ' , '])
    return tok(f1, mix != 'second') + joiner + tok(f2, mix != 'first')


def gen_pp(ctx, L=None, f1=None, f2='?', g='?'):
    rng = ctx.rng
    f1 = f1 or rng.choice(F)
    if f2 == '?':
        f2 = rng.choice([None, None, None, 'bin', 'oct', 'hex'])
    if g == '?':
        g = rng.choice(GROUPS)
        used = [f1] + ([f2] if f2 else [])
        if g and rng.random() < 0.7 and any(g % PP.BPC[f] for f in used):
            g = rng.choice([x for x in GROUPS if x and all(x % PP.BPC[f] == 0 for f in used)])
    free = L is None
    if L is None:
        r = rng.random()
        L = rng.choice([2000, 4000, 1500, 3001]) if r < 0.01 else rng.choice(PP_LENGTHS)
        used = [f1] + ([f2] if f2 else [])
        if not g and rng.random() < 0.75:
            need = 12 if ('oct' in used and 'hex' in used) else 3 if 'oct' in used else 4 if 'hex' in used else 1
            L -= L % need
    width = rng.randint(0, 200) if rng.random() < 0.75 else rng.choice([0, 1, 2, 3, 5, 8, 9, 10, 16, 20, 40, 79, 80, 81, 120, 199, 200])
    c = {'kind': 'pp', 'src': gen_src(rng, L, allow_file=free, p_file=0.1 if L <= 1100 else 0.0),
         'f1': f1, 'f2': f2, 'g': g, 'fmt': fmt_string(rng, f1, f2, g),
         'width': width, 'sep': rng.choice(SEPS + [' ']), 'offset': rng.random() < 0.6,
         'lsb0': rng.random() < 0.25, 'no_color': rng.random() < 0.85,
         'sink': 'write-only' if rng.random() < 0.15 else 'StringIO'}
    if free and rng.random() < 0.04:
        c.update(fmt=None, f1=None, f2=None, g=None)
    return c


def gen_text(ctx, L=None, cls=None, lsb0=None, p_file=0.0):
    rng = ctx.rng
    if L is None:
        r = rng.random()
        if r < 0.25:
            L = rng.choice([1001, 1002, 1003, 1004, 1005, 1023, 1024, 1025, 2000, 2001, 4000, 4097, 8193, 9000])
        elif r < 0.5:
            L = rng.randint(990, 1010)
        else:
            L = rng.choice(util.MID_LENGTHS + list(range(28, 45)))
    src = gen_src(rng, L, allow_file=p_file > 0, p_file=p_file, cls=cls)
    if lsb0 is None:
        lsb0 = src['via'] == 'mem' and rng.random() < 0.2
    return {'kind': 'text', 'src': src, 'lsb0': bool(lsb0) and src['via'] == 'mem'}


def gen_array(ctx):
    rng = ctx.rng
    dt = rng.choice(sorted(ARRAY_DTYPES))
    size = ARRAY_DTYPES[dt]
    n = rng.choice([0, 1, 2, 3, 5, 8, 12])
    tr = rng.choice([0, 0, 1, size - 1, rng.randrange(size)]) if size > 1 else 0
    data = rb(rng, n * size + tr) if rng.random() < 0.8 else util.content(rng, n * size + tr)
    if n and size in (16, 32, 64) and ('float' in dt or dt in ('>f', '<d')) and rng.random() < 0.4:
        # the extreme finite codes of the format: largest magnitude of either sign, smallest subnormal, smallest normal
        code = rng.choice({16: ['7bff', 'fbff', '0001', '0400', '8001', '7bfe'], 32: ['7f7fffff', 'ff7fffff', '00000001', '00800000', '7f7ffffe'],
                           64: ['7fefffffffffffff', 'ffefffffffffffff', '0000000000000001', '0010000000000000']}[size])
        raw = bytes.fromhex(code)
        if 'le' in dt or dt.startswith('<') or ('ne' in dt and __import__('sys').byteorder == 'little'):
            raw = raw[::-1]
        item = ''.join(format(b, '08b') for b in raw)
        k = rng.randrange(n)
        data = data[:k * size] + item + data[(k + 1) * size:]
    if size in (16, 32, 64) and ('float' in dt or dt in ('>f', '<d', 'bfloat', 'bfloatle')) and rng.random() < 0.12:
        # many items that all compare equal although they are not the same: zeros of either sign
        n = rng.choice([2, 3, 31, 32, 33, 40])
        neg = ('1' + '0' * (size - 1)) if not ('le' in dt or dt.startswith('<') or ('ne' in dt and __import__('sys').byteorder == 'little')) else ('0' * (size - 8) + '10000000')
        data = ''.join(rng.choice(['0' * size, neg]) for _ in range(n))
        tr = 0
    c = {'kind': 'array', 'dtype': dt, 'data': data, 'pp': None}
    if rng.random() < 0.6:
        f1 = rng.choice(F)
        f2 = rng.choice([None, None, 'bin', 'oct', 'hex'])
        g = rng.choice([None, None, None, size, 2 * size, 4, 8, 12, 24])
        used = [f1] + ([f2] if f2 else [])
        if rng.random() < 0.7 and any((g or size) % PP.BPC[f] for f in used):
            f1, f2 = 'bin', rng.choice([None, 'bin'])
        c['pp'] = {'f1': f1, 'f2': f2, 'g': g, 'fmt': fmt_string(rng, f1, f2, g), 'width': rng.randint(0, 200),
                   'offset': rng.random() < 0.6, 'no_color': rng.random() < 0.85}
    return c


# ---- directed ---------------------------------------------------------------------------------
def directed(ctx):
    """Shapes every run must see, including the reproducer of each genuine defect."""
    cases = []
    filehex = bytes(range(1, 21)).hex()
    # D1: repr of a mutable object built from a file, after a mutation
    for cls in util.MUTABLE:
        for mut in (['invert', 0], ['append', '1'], ['del', 0, 8], ['overwrite', '1111', 4], None):
            cases.append({'kind': 'text', 'lsb0': False,
                          'src': {'via': 'file', 'cls': cls, 'hex': filehex, 'pos': 5 if cls == 'BitStream' else None, 'mut': mut}})
    # an empty window over a file that is not empty (repr must say length=0, not fall back to the whole file)
    for cls in util.CLASS_NAMES:
        for kw in ({'length': 0}, {'length': 0, 'offset': 0}, {'length': 0, 'offset': 8}, {'length': 0, 'handle': True}):
            cases.append({'kind': 'text', 'lsb0': False, 'src': dict({'via': 'file', 'cls': cls, 'hex': filehex, 'pos': None}, **kw)})
    for cls in util.CLASS_NAMES:
        for kw in ({}, {'length': 37}, {'length': 40}, {'offset': 8}, {'offset': 3, 'length': 33}, {'handle': True}):
            cases.append({'kind': 'text', 'lsb0': False, 'src': dict({'via': 'file', 'cls': cls, 'hex': filehex, 'pos': 7}, **kw)})
        big = bytes((i * 37) & 255 for i in range(130)).hex()
        cases.append({'kind': 'text', 'lsb0': False, 'src': {'via': 'file', 'cls': cls, 'hex': big, 'pos': 1001}})
        # D2: str() mixed hex+bin form under lsb0
        for L in (33, 37, 63, 999):
            cases.append({'kind': 'text', 'lsb0': True, 'src': {'via': 'mem', 'cls': cls, 'bits': '1' + '0' * (L - 1), 'pos': 3}})
        for L in (0, 1, 31, 32, 36, 1000, 1001, 1004):
            cases.append({'kind': 'text', 'lsb0': True, 'src': {'via': 'mem', 'cls': cls, 'bits': ('1101' * 300)[:L], 'pos': L // 2}})
    base = {'kind': 'pp', 'width': 40, 'sep': ' ', 'offset': True, 'lsb0': False, 'no_color': True, 'sink': 'StringIO'}
    data = ('0000000100100011010001010110011110001001101010111100110111101111' * 3)
    for cls in util.CLASS_NAMES:
        src = {'via': 'mem', 'cls': cls, 'bits': data[:67], 'pos': 2}
        for f1, f2, g, fmt in (('hex', None, 8, 'hex8'), ('hex', 'bin', 8, 'hex8, bin8'), ('bin', None, None, 'bin'),
                               ('oct', None, 12, 'o:12'), ('hex', None, None, 'hex'), ('bin', 'oct', 0, 'bin0, oct0')):
            for lsb0 in (False, True):
                for nc in (True, False):
                    cases.append(dict(base, src=src, f1=f1, f2=f2, g=g, fmt=fmt, lsb0=lsb0, no_color=nc))
        cases.append(dict(base, src={'via': 'mem', 'cls': cls, 'bits': data[:64], 'pos': 0}, f1=None, f2=None, g=None, fmt=None))
        cases.append(dict(base, src={'via': 'mem', 'cls': cls, 'bits': data[:61], 'pos': 0}, f1=None, f2=None, g=None, fmt=None))
        cases.append(dict(base, src={'via': 'file', 'cls': cls, 'hex': filehex, 'pos': 9, 'length': 100}, f1='hex', f2='oct', g=12, fmt='hex12, oct12', width=30))
    for c in cases:
        ctx.run_case(judge, c)


# ---- run --------------------------------------------------------------------------------------
def run(ctx):
    rng = ctx.rng
    try:
        if ctx.shard == 0:
            directed(ctx)
        # 1. every length 0..1100 (str/repr), partitioned over the shards
        i = 0
        for L in range(0, 1101):
            if ctx.mine(i):
                ctx.run_case(judge, gen_text(ctx, L=L, lsb0=False))
            i += 1
        ctx.exhaustive['str_repr_every_length_0_to_1100'] = True
        # 2. the truncation boundary x classes
        for L in range(996, 1005):
            for cls in util.CLASS_NAMES:
                if ctx.mine(i):
                    for _ in range(2):
                        ctx.run_case(judge, gen_text(ctx, L=L, cls=cls, lsb0=False))
                i += 1
        # 3. pp grid: raise iff not expressible, and faithful whenever printed
        i = 0
        for L in range(0, 49):
            for f1 in F:
                for f2 in [None] + F:
                    for g in GROUPS:
                        if ctx.mine(i):
                            ctx.run_case(judge, gen_pp(ctx, L=L, f1=f1, f2=f2, g=g))
                        i += 1
        ctx.exhaustive['pp_L0-48_x_format_pairs_x_group_sizes'] = True
        # 4. random
        n = ctx.scale(80000, 1600000)
        for k in range(n):
            r = rng.random()
            if r < 0.62:
                c = gen_pp(ctx)
            elif r < 0.82:
                c = gen_text(ctx, p_file=0.3)
            else:
                c = gen_array(ctx)
            ctx.run_case(judge, c)
            if k % 1999 == 0:
                ctx.sample(short(c))
    finally:
        _cleanup()


def replay(ctx, case):
    try:
        ctx.run_case(judge, case)
    finally:
        _cleanup()
