"""C20 - well-typed misuse fails cleanly and never corrupts an object (API-surface fuzz)."""
from __future__ import annotations

import inspect
import io
import itertools
import os
import tempfile

import bitarray
import bitstring
from bitstring import Array, BitArray, Bits, BitStream, ConstBitStream, Dtype, pack

from rv import util
from rv.util import B, CLASSES, call, mk, rb

PROP = 'C20'
SHARDS = {'quick': 4, 'thorough': 16}
RULE = ("API-surface fuzz: public callables are enumerated by introspection on Bits, BitArray, ConstBitStream, BitStream, "
        "Array, Dtype plus pack, the constructors and every property (get, and set on mutable classes); arguments are "
        "generated from the parameter names with documented types but adversarial values (negative, zero, "
        "huge-but-feasible, empty, mismatched lengths, the receiver itself, malformed token strings, iterables that "
        "raise midway, sinks that raise OSError); sequences of 5-30 calls are made on ONE object under msb0 and lsb0; "
        "after every call the outcome class and the validity of every involved object (immutables unchanged, "
        "len == len(bin), 0 <= pos <= len, options as set) are checked, by the harness and by the class-wide sentinels "
        "S1-S5. key = (callable, argument-class vector, outcome class); non-trivial = at least one adversarial argument")
AMBIENT = ['bytealigned']
ANCHORS = ['Bits._validate_slice', 'Bits.__getattr__', 'BitArray.__setattr__', 'pack', 'Dtype.build', 'Dtype.parse',
           'Array.__init__', 'Options.set_lsb0', 'Bits._initialise']
REQUIRED_SENTINELS = ['S1', 'S2', 'S3', 'S4']
MIN_EVALS = {'quick': 20000, 'thorough': 300000}
ASSUMPTIONS = ['arguments are always drawn from the documented types (TypeError is an allowed outcome)',
               'sizes are bounded (<= ~10^7 bits) so MemoryError is never provoked']

# how a bitstring-like argument is handed over: the usual kinds, instances of subclasses, views that are not contiguous in memory,
# bitarrays of the other bit-endianness, arbitrary truthy / falsy items
KINDS20 = util.OPERAND_KINDS * 2 + util.SUBCLASS_KINDS + ['truthy', 'truthy-iter']

ALLOWED = (ValueError, IndexError, TypeError, bitstring.Error, OSError)
INTERNAL = (AttributeError, AssertionError, KeyError, NameError, RecursionError, ZeroDivisionError, NotImplementedError,
            RuntimeError, StopIteration, UnboundLocalError)

SKIP_NAMES = {'__class__', '__dir__', '__init_subclass__', '__subclasshook__', '__sizeof__', '__reduce__', '__reduce_ex__',
              '__getattribute__', '__format__', '__delattr__', '__new__', '__init__', '__getstate__', '__setattr__',
              '__getattr__', '__doc__', '__module__', '__slots__', '__dict__', '__weakref__', '__annotations__',
              '__class_getitem__', '__hash__'}


def public_callables(cls):
    out = {}
    for name in sorted(dir(cls)):
        if name in SKIP_NAMES:
            continue
        if name.startswith('_') and not (name.startswith('__') and name.endswith('__')):
            continue
        o = inspect.getattr_static(cls, name)
        if isinstance(o, property):
            continue
        f = getattr(o, '__func__', o)
        if not callable(f):
            continue
        try:
            sig = inspect.signature(f)
        except (TypeError, ValueError):
            continue
        params = [p for p in list(sig.parameters.values())[1:]]
        out[name] = params
    return out


def properties_of(cls):
    return sorted(n for n in dir(cls) if not n.startswith('_') and isinstance(inspect.getattr_static(cls, n), property))


# ---- argument specs (JSON-able) -> values -----------------------------------------------------------------
class RaisingIter:
    def __init__(self, items, exc=RuntimeError):
        self.items, self.exc = list(items), exc

    def __iter__(self):
        for x in self.items:
            yield x
        raise ValueError('iterable failed midway')


class BadSink:
    def __init__(self, after=1):
        self.n, self.after = 0, after

    def write(self, b):
        self.n += 1
        if self.n > self.after:
            raise OSError('sink failed')
        return len(b)


def build(spec, receiver, tmpdir):
    t = spec[0]
    if t == 'none':
        return None
    if t in ('int', 'bool', 'float', 'str', 'raw'):
        return spec[1]
    if t == 'bits':
        return util.build_operand(spec[1], receiver=receiver)
    if t == 'slice':
        return slice(*spec[1])
    if t == 'range':
        return range(*spec[1])
    if t == 'list':
        return [build(x, receiver, tmpdir) for x in spec[1]]
    if t == 'tuple':
        return tuple(build(x, receiver, tmpdir) for x in spec[1])
    if t == 'raising-iter':
        return RaisingIter(spec[1])
    if t == 'sink':
        return io.BytesIO() if spec[1] == 'ok' else BadSink(spec[2] if len(spec) > 2 else 0)
    if t == 'textsink':
        return io.StringIO()
    if t == 'dtype':
        return Dtype(*spec[1])
    if t == 'bytes':
        return bytes.fromhex(spec[1])
    if t == 'array':
        return Array(spec[1], spec[2])
    if t == 'pyarray':
        import array as _array
        return _array.array(spec[1], spec[2])
    if t == 'file':
        path = os.path.join(tmpdir, 'f.bin')
        with open(path, 'wb') as f:
            f.write(bytes.fromhex(spec[1]))
        return open(path, 'rb')
    if t == 'missing-file':
        return os.path.join(tmpdir, 'does-not-exist.bin')
    raise KeyError(t)


def adversarial(spec):
    t = spec[0]
    if t == 'int':
        return spec[1] < 0 or spec[1] == 0 or spec[1] >= 10 ** 5
    if t == 'bits':
        return spec[1][0] == 'self' or not spec[1][1:] or spec[1][1] == ''
    return t in ('none', 'raising-iter', 'sink', 'missing-file', 'range') or (t == 'str' and (spec[1] == '' or len(spec[1]) > 40))


TOKENS_OK = ['uint:8', 'int:5', 'hex:8', 'bin:3', 'bits:4', 'bool', 'ue', 'se', 'uie', 'sie', 'float:32', 'bytes:1', 'pad:2', 'u8', 'i3',
             'uintle:16', 'bfloat', 'p4binary', 'e2m1mxfp', 'hex', 'bin', 'bits', 'uint', 'bytes', '2*u4', '2*(u2, bool)', '<2h', '>Q', 'u:n',
             'e4m3mxfp', 'mxint', 'floatne:64', 'intbe:24', 'oct:6']
TOKENS_BAD = ['', ',', 'uint', 'uint:0', 'int:-3', 'float:17', 'hex:3', 'uintle:12', 'nonsense', 'u8=', '=3', '2*', '*u8', '(u8', 'u8)', '2*(u8',
              'bytes:-1', 'bool:2', 'ue:3', '0x', '0xzz', '0b2', 'u:nokey', 'float:32=nan?', ':8', 'u8,,u8', 'uint:999999', '1e3', '@',
              '>z', 'pad', 'bfloat:8', 'e4m3mxfp:7', 'x' * 60, 'u8, ' * 30 + 'u8', '3*(3*(3*(3*(u1))))', 'uint:8, bits, bits', 'bits, ue']


def pyarray_spec(rng):
    """An array.array of any typecode the interpreter has (not all of them are struct codes: 'u', and 'w' from 3.13)."""
    import array as _array
    tc = rng.choice(_array.typecodes)
    n = rng.choice([0, 1, 2, 3])
    if tc in 'uw':
        return ['pyarray', tc, 'hi\u00e9'[:n]]
    if tc in 'fd':
        return ['pyarray', tc, [0.5, -1.0, 2.0][:n]]
    return ['pyarray', tc, [1, 0, 100][:n]]


MACHINE_EDGES = [2 ** 31 - 1, 2 ** 31, 2 ** 63 - 1, 2 ** 63, 2 ** 32, 2 ** 64, -2 ** 31, -2 ** 31 - 1, -2 ** 63, -2 ** 63 - 1, 2 ** 64 + 1, 10 ** 30]
BIG_COUNT_OK = {'rol', 'ror', '__lshift__', '__rshift__', '__ilshift__', '__irshift__', 'cut', 'read', 'peek', 'readlist', 'peeklist', 'pop', 'insert',
                '__getitem__', '__delitem__', '__setitem__', 'set', 'invert', 'all', 'any', 'bytealign'}


def gen_arg(rng, pname, cname, L, method):
    """JSON-able spec for a parameter called pname of cname.method; L = current length of the receiver."""
    ints = [0, 1, -1, 2, 7, 8, 9, L, L - 1, L + 1, -L, -L - 1, L // 2, 64, 10 ** 5, -10 ** 5]
    if pname in ('pos', 'start', 'end', 'count', 'key') or (pname in ('bits', 'n', 'i') and method in BIG_COUNT_OK):
        # positions and counts at the edges of the machine integer types (never a size that would have to be allocated)
        ints = ints + MACHINE_EDGES[:4] * 1 + [rng.choice(MACHINE_EDGES)]
    if pname in ('bs', 'prefix', 'suffix', 'delimiter', 'old', 'new', 'b'):
        r = rng.random()
        if r < 0.12:
            return ['bits', ['self']]
        if r < 0.2:
            return ['str', rng.choice(TOKENS_BAD + ['0xff', '0b1', 'u8=3', 'ue=4', 'float:32=1.5'])]
        n = rng.choice([0, 0, 1, 2, 3, 8, 9, 16, L, max(L - 1, 0), L + 1])
        if rng.random() < 0.12:
            return ['bits', util.operand_spec(rng, rng.choice(['0' * 8, '0' * 16, '1' * 8, '0' * 24, '10000000', '00000001']), KINDS20)]      # whole bytes of one value
        return ['bits', util.operand_spec(rng, rb(rng, min(n, 5000)), KINDS20)]
    if pname == 'other':
        if cname == 'Array' and method in ('__and__', '__or__', '__xor__', '__iand__', '__ior__', '__ixor__', '__rand__', '__ror__', '__rxor__'):
            return ['bits', util.operand_spec(rng, rb(rng, rng.choice([0, 1, 8, 16, 3, 4])), KINDS20)]
        if cname == 'Array' and method in ('__lshift__', '__rshift__', '__ilshift__', '__irshift__', '__mod__', '__imod__'):
            return rng.choice([['int', rng.choice([0, 1, -1, 2, 8, 64, 10 ** 4])], ['array', rng.choice(['uint8', 'int8', 'uint1']), rng.choice([[], [1], [1, 0], [1, 1, 0]])]])
        if cname == 'Array' and method in ('__eq__', '__ne__', 'equals'):
            return rng.choice([['int', 1], ['float', 0.5], ['none'], ['str', 'a'], ['array', 'uint8', [1, 0]], ['bits', ['Bits', '1']], ['list', [['int', 1]]],
                               pyarray_spec(rng), pyarray_spec(rng)])
        if cname == 'Array':
            r = rng.random() * 0.8
            if r < 0.5:
                return rng.choice([['int', rng.choice([0, 1, -1, 2, 255, 256, -129, 10 ** 9])], ['float', rng.choice([0.0, 0.5, -1.5, 1e308, float('inf'), float('nan')])]])
            if r < 0.8:
                return ['array', rng.choice(['uint8', 'int8', 'float32', 'uint1', 'hex4', 'int64']), rng.choice([[], [1], [1, 0], [1, 1, 0]])] \
                    if True else None
            return ['none']
        return ['bits', util.operand_spec(rng, rb(rng, rng.choice([0, 1, 8, L, L + 1])), KINDS20)]
    if pname in ('pos',):
        if method in ('all', 'any', 'set', 'invert'):
            r = rng.random()
            if r < 0.25:
                return ['none']
            if r < 0.45:
                return ['int', rng.choice(ints)]
            if r < 0.7:
                return ['list', [['int', rng.choice(ints)] for _ in range(rng.randint(0, 4))]]
            if r < 0.85:
                return ['range', [rng.choice([0, -L, L, 1]), rng.choice([L, L + 5, -1, 0]), rng.choice([1, 2, -1, -3])]]
            return ['raising-iter', [0] if L else []]
        return rng.choice([['none'], ['int', rng.choice(ints)]])
    if pname in ('start', 'end', 'count'):
        return rng.choice([['none'], ['none'], ['int', rng.choice(ints)], ['int', rng.choice(ints)]])
    if pname in ('bits', 'n', 'i'):
        v = rng.choice(ints)
        if method in ('__mul__', '__rmul__', '__imul__') or pname == 'n' and method.startswith('__'):
            v = rng.choice([0, 1, -1, 2, 3, 7, min(2000, 10 ** 5 // max(L, 1))])
        if method == 'fromfile':
            return rng.choice([['none'], ['int', rng.choice([0, 1, 3, -1, 100])]])
        return ['int', v]
    if pname == 'key':
        if rng.random() < 0.5:
            return ['int', rng.choice(ints)]
        return ['slice', [rng.choice([None] + ints), rng.choice([None] + ints), rng.choice([None, 1, -1, 2, -2, 0, 7, 10 ** 5])]]
    if pname == 'value':
        if method == '__setitem__':
            if cname == 'Array':
                return rng.choice([['int', rng.choice([0, 1, 255, 256, -1])], ['list', [['int', rng.choice([0, 1, 300])] for _ in range(rng.randint(0, 3))]],
                                   ['str', 'ff'], ['float', 1.5], ['raising-iter', [1]]])
            return rng.choice([['int', rng.choice([0, 1, -1, 2, 255, -128, 10 ** 9])], ['bits', util.operand_spec(rng, rb(rng, rng.choice([0, 1, 2, 8])), KINDS20)],
                               ['bits', ['self']], ['str', rng.choice(TOKENS_BAD)], ['bool', True]])
        return rng.choice([['int', 0], ['int', 1], ['bool', True], ['bool', False], ['str', ''], ['int', -5], ['none'], ['float', float('nan')],
                           ['str', 'e'], ['bits', ['Bits', '1']]])
    if pname == 'fmt':
        if method == 'byteswap':
            return rng.choice([['none'], ['int', rng.choice([0, 1, 2, 3, -1, 10 ** 5])], ['list', [['int', rng.choice([0, 1, 2, -1])] for _ in range(rng.randint(0, 3))]],
                               ['str', rng.choice(['h', '>2h', '<q', 'bb', 'xx', '', '2', '>', '3e'])], ['raising-iter', [1]], ['float', 1.5]])
        if method == 'pp':
            return rng.choice([['none'], ['str', rng.choice(['bin', 'hex', 'oct', 'bytes', 'bin, hex', 'hex:16', 'bin:0', 'u8', 'float32', 'ue', 'bin, hex, oct',
                                                              'hex:3', 'uint:0', 'nonsense', '', 'bits', 'bool', 'bin:4, hex:8', 'i5, u5', 'bytes:2, hex', 'e4m3mxfp', 'hex, float:32',
                                                              'hex:0, float', 'float, bin:0', 'uint:24, float', 'floatle, hex', 'f, u8', 'float, float', 'bfloat, hex:0', 'floatne:0, bin',
                                                              'e5m2mxfp, hex', 'bin:0, oct:0', 'u, hex', 'int, float', 'bytes, float'])]])
        if method in ('read', 'peek'):
            return rng.choice([['int', rng.choice(ints)], ['str', rng.choice(TOKENS_OK + TOKENS_BAD)], ['dtype', ['uint', 8]], ['dtype', ['bytes', 2]], ['dtype', ['ue']],
                               ['dtype', ['bool']]])
        r = rng.random()
        if r < 0.5:
            k = rng.randint(1, 4)
            return ['str', ', '.join(rng.choice(TOKENS_OK + TOKENS_BAD[:12]) for _ in range(k))]
        if r < 0.8:
            return ['list', [rng.choice([['str', rng.choice(TOKENS_OK + TOKENS_BAD)], ['int', rng.choice([0, 1, 8, -1, 10 ** 5])], ['dtype', ['uint', 8]]]) for _ in range(rng.randint(0, 3))]]
        return ['str', rng.choice(TOKENS_BAD)]
    if pname == 'sequence':
        r = rng.random()
        if r < 0.7:
            return ['list', [['bits', util.operand_spec(rng, rb(rng, rng.choice([0, 1, 8])), KINDS20)] if rng.random() < 0.8 else rng.choice([['int', 3], ['none'], ['str', 'zz'], ['bits', ['self']]])
                             for _ in range(rng.randint(0, 4))]]
        return ['raising-iter', ['0b1']]
    if pname in ('f',):
        if method == 'fromfile':
            return ['file', rb(rng, 0) or ''.join(rng.choice('0123456789abcdef') for _ in range(2 * rng.choice([0, 1, 3, 8])))]
        return rng.choice([['sink', 'ok'], ['sink', 'raise', 0], ['sink', 'raise', 1]])
    if pname == 'stream':
        return ['textsink']
    if pname == 'width':
        return ['int', rng.choice([0, 1, -1, 10, 80, 120, 10 ** 5, -10 ** 5])]
    if pname == 'sep':
        return ['str', rng.choice([' ', '', '_', ', ', 'x' * 50, '\n'])]
    if pname in ('show_offset', 'repeat'):
        return ['bool', rng.choice([True, False])]
    if pname == 'bytealigned':
        return rng.choice([['none'], ['bool', True], ['bool', False]])
    if pname == 's':
        return ['str', rng.choice(TOKENS_OK + TOKENS_BAD + ['0xabc', '0b101, 0o7', 'u8=300', 'ue=-1', 'float:32=abc', 'hex:8=0xf', 'bits:3=0b1'])]
    if pname == 'x':
        return rng.choice([['int', rng.choice([0, 1, 255, 256, -1, 10 ** 30])], ['float', rng.choice([0.5, float('nan'), float('inf'), 1e308])], ['str', rng.choice(['f', 'zz', ''])],
                           ['bits', ['Bits', '1010']], ['none'], ['bool', True]])
    if pname == 'iterable':
        return rng.choice([['list', [['int', rng.choice([0, 1, 255, 256, -1])] for _ in range(rng.randint(0, 4))]], ['raising-iter', [1]], ['str', '123'],
                           ['array', rng.choice(['uint8', 'int8', 'float32']), [1, 2]], ['bytes', 'ff00'], ['none'], pyarray_spec(rng), pyarray_spec(rng)])
    if pname == 'dtype':
        names = ['uint8', 'int3', 'float16', 'hex4', '>H', 'bool', 'uint0', 'bytes2', 'ue', 'nonsense', '', 'float17', 'bits3', 'uint', '<zz', 'e2m1mxfp']
        if method == 'astype':
            names.remove('bytes2')      # converting numbers to a bytes dtype hands each int to bytes(): an allocation of that many bytes, not a documented use
        return rng.choice([['str', rng.choice(names)],
                           ['dtype', ['uint', 8]], ['dtype', ['ue']]])
    if pname == 'kwargs':
        return ['none']
    return rng.choice([['none'], ['int', rng.choice(ints)], ['str', ''], ['bits', ['Bits', '1']]])


# ---- validity sweep -------------------------------------------------------------------------------------
def snap(o):
    if isinstance(o, Bits):
        n = len(o)
        return (n, o.tobytes() if n < 200000 else None)
    return None


def invalid_state(o):
    """None if o is a valid object, else a failure label."""
    try:
        if isinstance(o, Bits):
            n = len(o)
            if n < 20000:
                nb = len(o.bin) if n else 0
                if nb != n:
                    return 'len-incoherent'
            if isinstance(o, ConstBitStream):
                p = o.pos
                if not 0 <= p <= n:
                    return 'pos-out-of-range'
        elif isinstance(o, Array):
            if len(o.data) < 20000 and len(o.data.bin if len(o.data) else '') != len(o.data):
                return 'len-incoherent'
    except Exception as e:  # noqa: BLE001
        return f'unreadable:{type(e).__name__}'
    return None


SHARED_ROUTES = ['fromstring', 'token', 'bits-prop-text', 'bits-prop-object', 'bitsN-prop-object', 'ctor-from-immutable', 'pack-bits', 'iadd-to-empty',
                 'prepend-to-empty', 'copy-of-immutable', 'radd-empty-text', 'bits-kw']


def make_shared(cls, bits, route, pos):
    """(receiver, witnesses, text): a mutable object made along a route that starts from a text or an immutable object"""
    tok = (('0x' + format(int(bits, 2), f'0{len(bits) // 4}x')) if len(bits) % 8 == 0 else '0b' + bits) if bits else ''
    w1 = Bits(tok)
    w2 = ConstBitStream(tok)
    if route == 'fromstring':
        r = cls.fromstring(tok)
    elif route == 'token':
        r = cls(tok)
    elif route == 'bits-prop-text':
        r = cls()
        r.bits = tok
    elif route == 'bits-prop-object':
        r = cls()
        r.bits = w1
    elif route == 'bitsN-prop-object':
        r = cls()
        setattr(r, f'bits{len(bits)}', w2) if bits else setattr(r, 'bits', w2)
    elif route == 'ctor-from-immutable':
        r = cls(w2)
    elif route == 'pack-bits':
        r = bitstring.pack('bits', w1)
        r = r if cls is BitStream else cls(r)
    elif route == 'iadd-to-empty':
        r = cls()
        r += w1
    elif route == 'prepend-to-empty':
        r = cls()
        r.prepend(tok if len(bits) % 2 else w2)
    elif route == 'copy-of-immutable':
        import copy as _copy
        r = cls(_copy.copy(w1))
    elif route == 'radd-empty-text':
        r = tok + cls()
    else:
        r = cls(bits=w1)
    if isinstance(r, ConstBitStream):
        r.pos = min(pos, len(r))
    return r, [w1, w2], tok


def make_receiver(rng, rspec, tmpdir):
    kind = rspec[0]
    if kind in CLASSES:
        o = mk(CLASSES[kind], rspec[1])
        if kind in util.STREAMS and len(rspec) > 2:
            o.pos = min(rspec[2], len(o))
        return o
    if kind == 'Array':
        return Array(rspec[1], rspec[2], trailing_bits=('0b' + rspec[3]) if rspec[3] else None)
    if kind == 'Dtype':
        return Dtype(*rspec[1])
    raise KeyError(kind)


def origin(e):
    """Qualified name of the innermost /repo function on the traceback of e (the raise site)."""
    tb = e.__traceback__
    site = 'python'
    root = os.path.realpath(os.path.dirname(bitstring.__file__)) + os.sep
    while tb is not None:
        co = tb.tb_frame.f_code
        if os.path.realpath(co.co_filename).startswith(root):
            site = co.co_qualname
        tb = tb.tb_next
    return site


def outcome_class(kind, val, method):
    """None when the outcome is allowed, else a mechanism label '<class>-exc:<Name>@<raise site>'."""
    if kind == 'ok':
        return None
    e = val
    if isinstance(e, ALLOWED):
        return None
    if method == 'fromfile' and isinstance(e, EOFError):
        return None
    if (method.startswith('get:') or method.startswith('set:')) and isinstance(e, AttributeError) and origin(e) in ('python', 'Bits.__getattr__', 'BitArray.__setattr__'):
        return None         # a missing or read-only attribute is reported by Python's own attribute protocol
    if isinstance(e, INTERNAL):
        return f'internal-exc:{type(e).__name__}@{origin(e)}'
    return f'undocumented-exc:{type(e).__name__}@{origin(e)}'



def judge(ctx, case):
    rng = ctx.rng
    tmpdir = shard_tmpdir()
    lsb0 = case.get('lsb0', False)
    opened = []
    try:
        with util.options(lsb0=lsb0, bytealigned=case.get('oba', False)):
            rspec = case['receiver']
            rname = rspec[0]
            k0, recv = call(lambda: make_receiver(rng, rspec, tmpdir))
            if k0 != 'ok':
                oc = outcome_class('exc', recv, 'ctor')
                ctx.op('ctor', type(recv).__name__)
                if oc:
                    ctx.mismatch(f'C20|{oc}', case, f'{rname}.ctor: {recv!s:.100}')
                return
            watched = []          # immutable bitstrings met earlier in this sequence: they must never change later either
            shared_text = None
            if case.get('made') and rname in ('BitArray', 'BitStream'):
                k0, made = call(lambda: make_shared(CLASSES[rname], rspec[1], case['made'], rspec[2] if len(rspec) > 2 else 0))
                if k0 == 'ok' and B(made[0]) == rspec[1]:
                    recv, wit, shared_text = made
                    watched = [(w, snap(w)) for w in wit]
                    ctx.op('receiver-made:' + case['made'])
                elif k0 == 'ok' or outcome_class('exc', made, 'ctor'):
                    ctx.mismatch(f'C20|receiver-made:{case["made"]}|wrong-value-or-internal-error', case, f'{made!r:.100}')
                    return
            for st in case['calls']:
                name, aspecs, kspecs = st
                size_now = len(recv.data) if isinstance(recv, Array) else len(recv) if isinstance(recv, Bits) else 0
                if size_now > 1500000:
                    # earlier steps (s += s, s *= n, replace with a long operand) have multiplied the receiver beyond what a sequence of
                    # further calls can be run on in reasonable time: the rest of this sequence is not executed
                    ctx.op('sequence-cut:receiver-too-large')
                    break
                set_before = util.get_options()
                args = []
                kw = {}
                try:
                    args = [build(a, recv, tmpdir) for a in aspecs]
                    kw = {k: build(v, recv, tmpdir) for k, v in kspecs.items()}
                except Exception:  # noqa: BLE001 - building an operand failed (e.g. malformed spec): skip
                    continue
                opened += [a for a in args if hasattr(a, 'close') and hasattr(a, 'name')]
                involved = [recv] + [a for a in args if isinstance(a, (Bits, Array))] + [v for v in kw.values() if isinstance(v, (Bits, Array))]
                imm_before = [(o, snap(o)) for o in involved if type(o) in (Bits, ConstBitStream)]
                is_prop = name.startswith('get:') or name.startswith('set:')
                if not is_prop and name != 'iterate' and not hasattr(type(recv), name):
                    continue        # the class does not define this method (e.g. a mutator on an immutable class)
                if name.startswith('get:'):
                    f = lambda: getattr(recv, name[4:])  # noqa: E731
                elif name.startswith('set:'):
                    f = lambda: setattr(recv, name[4:], args[0])  # noqa: E731
                elif name == 'iterate':
                    f = lambda: list(itertools.islice(iter(recv), 50))  # noqa: E731
                else:
                    def f():
                        r = getattr(recv, name)(*args, **kw)
                        if inspect.isgenerator(r) or (hasattr(r, '__next__') and not isinstance(r, (Bits, Array))):
                            r = list(itertools.islice(r, 200))
                        return r
                kind, val = call(f)
                ctx.op(f'{rname}.{name}', 'ok' if kind == 'ok' else type(val).__name__)
                where = f'{type(recv).__name__}.{name}'
                if is_prop:
                    where = f'{type(recv).__name__}.{name[:4]}<property>'
                oc = outcome_class(kind, val, name)
                fails = []
                if oc:
                    fails.append(oc)
                for o, s0 in imm_before:
                    if snap(o) != s0:
                        fails.append('immutable-changed')
                        break
                results = val if isinstance(val, (list, tuple)) else [val]
                for o in involved + [x for x in results if isinstance(x, (Bits, Array))][:5]:
                    bad = invalid_state(o)
                    if bad:
                        fails.append(bad)
                        # repair so that the sequence can continue
                        if bad == 'pos-out-of-range':
                            try:
                                o._pos = 0
                            except Exception:  # noqa: BLE001
                                pass
                        break
                for o, s0 in watched:
                    if snap(o) != s0:
                        fails.append('immutable-from-earlier-call-changed')
                        watched = [(o2, snap(o2)) for o2, _ in watched]
                        break
                for o in involved[1:] + [x for x in results if type(x) in (Bits, ConstBitStream)][:3]:
                    if type(o) in (Bits, ConstBitStream) and len(watched) < 12 and not any(o is w for w, _ in watched):
                        watched.append((o, snap(o)))
                now = util.get_options()
                if now != set_before:
                    fails.append('options-changed')
                    util.set_options(set_before)
                argc = tuple(sorted({a[0] + ('!' if adversarial(a) else '') for a in aspecs}))
                if fails:
                    for fl in dict.fromkeys(fails):
                        key = f'C20|{fl}' if '-exc:' in fl else f'C20|{where}|{fl}'
                        ctx.mismatch(key, case, f'{"lsb0" if lsb0 else "msb0"} {where}({aspecs!r:.120}, {kspecs!r:.60}) -> {kind}:{str(val)[:100]}')
                else:
                    ctx.ok((where, argc, 'ok' if kind == 'ok' else type(val).__name__), any(adversarial(a) for a in aspecs))
                ctx.state(where, kind)
            if shared_text is not None:
                k1, again = call(lambda: (B(Bits(shared_text)), B(BitArray(shared_text))))
                if k1 != 'ok' or again != (rspec[1], rspec[1]):
                    ctx.mismatch(f'C20|receiver-made:{case["made"]}|text-means-something-else-after-the-calls', case, f'{shared_text!r:.40} -> {again!r:.100}')
                else:
                    ctx.ok(('receiver-made', case['made'], rname), True)
    finally:
        for fh in opened:
            try:
                fh.close()
            except Exception:  # noqa: BLE001
                pass
        for fn in os.listdir(tmpdir):
            os.unlink(os.path.join(tmpdir, fn))


_TMP = []


def shard_tmpdir():
    if not _TMP:
        import atexit
        import shutil
        d = tempfile.mkdtemp(prefix='rv_c20_')
        _TMP.append(d)
        atexit.register(shutil.rmtree, d, True)
    return _TMP[0]


ARITH = {'__add__', '__sub__', '__mul__', '__truediv__', '__floordiv__', '__mod__', '__lshift__', '__rshift__', '__iadd__', '__isub__', '__imul__',
         '__itruediv__', '__ifloordiv__', '__imod__', '__ilshift__', '__irshift__', '__radd__', '__rsub__', '__rmul__', '__neg__', '__abs__',
         '__lt__', '__le__', '__gt__', '__ge__'}
API = {}


def api():
    if not API:
        for cls in (Bits, BitArray, ConstBitStream, BitStream, Array, Dtype):
            API[cls.__name__] = (public_callables(cls), properties_of(cls))
    return API


SETTABLE = ['bits', 'bits', 'bits', 'bits', 'bits', 'uint', 'int', 'hex', 'bin', 'oct', 'bytes', 'float', 'floatle', 'uintle', 'intbe', 'bool', 'ue', 'se', 'uie', 'sie', 'bfloat',
            'p4binary', 'e4m3mxfp', 'mxint', 'bits', 'u', 'i', 'f', 'pos', 'bitpos', 'bytepos', 'uint8', 'int12', 'hex8', 'float32', 'bin3',
            'len', 'length', 'pad', 'uintne', 'e2m1mxfp', 'e8m0mxfp', 'dtype', 'itemsize', 'trailing_bits', 'name', 'scale']
SET_VALUES = [['int', 0], ['int', 1], ['int', -1], ['int', 255], ['int', 256], ['int', 10 ** 30], ['float', 0.5], ['float', float('nan')], ['float', 1e308],
              ['str', 'ff'], ['str', '0b101'], ['str', 'zz'], ['str', ''], ['bool', True], ['none'], ['bits', ['Bits', '1010']], ['bits', ['self']],
              ['bytes', 'ab'], ['bytes', ''], ['str', 'uint8'], ['str', 'nonsense']]


INTS_V = [['int', 0], ['int', 1], ['int', -1], ['int', 255], ['int', 256], ['int', 10 ** 30], ['int', -10 ** 30], ['bool', True], ['str', '3'], ['str', '-3'], ['str', 'zz'], ['str', '']]
FLOATS_V = [['float', 0.5], ['float', float('nan')], ['float', 1e308], ['float', float('inf')], ['float', -0.0], ['float', -1e39], ['int', 1], ['str', 'nan'], ['str', '1e3'], ['str', 'zz'],
            # the edges of the half / single precision ranges that the encoders convert through
            ['float', 65504.0], ['float', 65519.99], ['float', 65520.0], ['float', -65530.0], ['float', 65535.9], ['float', 65536.0], ['float', 3.4028235e38],
            ['float', 3.4028236e38], ['float', -3.5e38], ['float', 5e-324], ['float', 448.0], ['float', 57344.0], ['int', 65530], ['float', -float('inf')]]
STR_V = [['str', 'ff'], ['str', '0b101'], ['str', 'zz'], ['str', ''], ['str', '0xf f_0'], ['str', '17'], ['str', '0o17'], ['str', '1' * 70]]
BITS_V = [['bits', ['Bits', '1010']], ['bits', ['self']], ['bits', ['str', '101']], ['str', 'zz'], ['bits', ['BitArray', '']], ['bits', ['bytes', '1111000011110000']]]


def family_values(name):
    base = name.rstrip('0123456789')
    if base in ('int', 'uint', 'intbe', 'uintbe', 'intle', 'uintle', 'intne', 'uintne', 'se', 'ue', 'sie', 'uie', 'u', 'i'):
        return INTS_V
    if base in ('float', 'floatbe', 'floatle', 'floatne', 'bfloat', 'bfloatle', 'bfloatbe', 'bfloatne', 'f', 'p4binary', 'p3binary', 'e4m3mxfp', 'e5m2mxfp', 'e3m2mxfp',
                'e2m3mxfp', 'e2m1mxfp', 'e8m0mxfp', 'mxint'):
        return FLOATS_V
    if base in ('hex', 'oct', 'bin', 'h', 'o', 'b'):
        return STR_V
    if base == 'bytes':
        return [['bytes', 'ab'], ['bytes', ''], ['bytes', 'abcdef'], ['raw', None]]
    if base == 'bool':
        return [['bool', True], ['bool', False], ['int', 1], ['int', 2], ['str', 'True'], ['str', 'maybe']]
    if base == 'bits':
        return BITS_V
    if base in ('pos', 'bitpos', 'bytepos'):
        return [['int', 0], ['int', 1], ['int', -1], ['int', 8], ['int', 10 ** 5], ['int', 7], ['bool', True]]
    if base == 'dtype':
        return [['str', 'uint8'], ['str', 'nonsense'], ['str', ''], ['str', 'float16'], ['str', 'ue'], ['str', 'uint0'], ['dtype', ['int', 4]], ['str', '>H']]
    return INTS_V + STR_V[:3] + [['none']]


def set_value(rng, attr):
    return rng.choice(family_values(attr))


def gen_case(ctx):
    rng = ctx.rng
    a = api()
    rk = rng.choice(['Bits', 'BitArray', 'ConstBitStream', 'BitStream', 'BitArray', 'BitStream', 'Array', 'Dtype'])
    L = rng.choice([0, 1, 7, 8, 9, 16, 24, 33, 64, 100, 257])
    golomb = False
    if rk in CLASSES:
        bits = util.content(rng, L)
        rspec = [rk, bits] + ([rng.randint(0, L)] if rk in util.STREAMS else [])
        if rk in util.STREAMS and rng.random() < 0.3:
            # self-delimiting codewords with the position at the start of one of them and the data cut inside the last one
            from rv.model import codecs as K
            cws = [K.GOLOMB_ENC[rng.choice(['ue', 'se', 'uie', 'sie'])](rng.choice([0, 1, 3, 4, 7, 8, 20, 100])) for _ in range(rng.randint(1, 5))]
            starts = [sum(len(c) for c in cws[:j]) for j in range(len(cws))]
            bits = ''.join(cws)
            cut = rng.choice([0, 0, 1, 1, 2, 3])
            bits = bits[:len(bits) - cut] if cut < len(bits) else bits
            rspec = [rk, bits, min(rng.choice(starts), len(bits))]
            L = len(bits)
            golomb = True
    elif rk == 'Array':
        dt = rng.choice(['uint8', 'int8', 'float32', 'uint1', 'hex4', 'int64', 'bool', '>H', 'float16', 'bits3', 'uint12'])
        items = {'hex4': ['a', 'f', '0'], 'bits3': ['0b101'], 'bool': [True, False]}.get(dt, [1, 0, 1, 1])[:rng.randint(0, 4)]
        rspec = ['Array', dt, items, rb(rng, rng.choice([0, 0, 1, 3]))]
        L = len(items)
    else:
        rspec = ['Dtype', rng.choice([['uint', 8], ['int', 5], ['hex', 8], ['float', 32], ['ue'], ['bool'], ['bytes', 2], ['bits', 3], ['e4m3mxfp'], ['uint8'], ['bin']])]
        L = 8
    methods, props = a[rk]
    names = list(methods)
    calls = []
    for _ in range(rng.randint(5, 12) if ctx.quick else rng.randint(5, 30)):
        r = rng.random()
        if golomb and rng.random() < 0.45:
            code = lambda: rng.choice(['ue', 'se', 'uie', 'sie'])  # noqa: E731
            calls.append(rng.choice([
                ['readlist', [['str', code()]], {}], ['peeklist', [['str', code()]], {}], ['read', [['str', code()]], {}], ['peek', [['str', code()]], {}],
                ['readlist', [['list', [['str', code()], ['str', code()]]]], {}], ['readlist', [['str', f'{code()}, {code()}, {code()}']], {}],
                ['unpack', [['str', f'{code()}, {code()}']], {}], ['get:' + code(), [], {}], ['set:pos', [['int', rng.choice([0, 1, 2, 3, 5])]], {}],
                ['readlist', [['str', f'2*{code()}']], {}], ['peeklist', [['list', [['int', 1], ['str', code()]]]], {}]]))
            continue
        if r < 0.12 and props:
            calls.append(['get:' + rng.choice(props + ['uint8', 'int3', 'hex4', 'float32', 'bin2', 'u1', 'nonsense', 'uint0', 'bytes1', 'f16']), [], {}])
        elif r < 0.22 and rk in ('BitArray', 'BitStream', 'Array', 'ConstBitStream', 'Bits'):
            attr = rng.choice(SETTABLE)
            calls.append(['set:' + attr, [set_value(rng, attr)], {}])
        elif r < 0.25 and rk != 'Dtype':
            calls.append(['iterate', [], {}])
        else:
            name = rng.choice(names)
            if rk == 'Array' and rspec[1] in ('hex4', 'bits3') and name in ARITH:
                name = rng.choice(['append', 'count', '__getitem__', 'insert', 'pop', 'extend', '__setitem__', 'reverse', 'tolist'])
            params = methods[name]
            aspecs, kspecs = [], {}
            skipped = False
            for p in params:
                if p.kind in (p.VAR_POSITIONAL,):
                    continue
                if p.kind == p.VAR_KEYWORD:
                    if rng.random() < 0.3:
                        kspecs['n'] = ['int', rng.choice([0, 1, 8, -1])]
                    continue
                if p.default is not p.empty and rng.random() < 0.4:
                    skipped = True
                    continue            # leave the default
                spec = gen_arg(rng, p.name, rk, L, name)
                if p.kind == p.KEYWORD_ONLY or (p.default is not p.empty and rng.random() < 0.5 and p.kind != p.POSITIONAL_ONLY):
                    kspecs[p.name] = spec
                else:
                    if (kspecs or skipped) and p.kind != p.POSITIONAL_ONLY:
                        kspecs[p.name] = spec
                    elif skipped:
                        break
                    else:
                        aspecs.append(spec)
            if name == 'pp' and 'stream' not in kspecs and len(aspecs) < (5 if rk != 'Array' else 4):
                kspecs['stream'] = ['textsink']
            calls.append([name, aspecs, kspecs])
            if name == '__imul__':
                # the receiver has grown: later repeat counts (and everything sized from L) follow the new length
                v = next((sp[1] for sp in list(aspecs) + list(kspecs.values()) if sp and sp[0] == 'int'), 1)
                if isinstance(v, int) and v > 1:
                    L *= v
    case = {'receiver': rspec, 'calls': calls, 'lsb0': rng.random() < 0.3, 'oba': rng.random() < 0.1}
    if rk in ('BitArray', 'BitStream') and rng.random() < 0.35:
        # the mutable receiver is made from something an immutable object holds as well (the same text, or the object itself):
        # whatever the calls do to the receiver, the immutable witnesses keep their value and the text keeps its meaning
        case['made'] = rng.choice(SHARED_ROUTES)
    return case


# ---- module-level entry points: constructors, pack, Dtype(), Array() -----------------------------------------
CTOR_KW = ['bin', 'hex', 'oct', 'bytes', 'int', 'uint', 'float', 'floatle', 'bool', 'se', 'ue', 'sie', 'uie', 'intbe', 'uintle', 'bfloat', 'bits',
           'p4binary', 'e5m2mxfp', 'mxint', 'e8m0mxfp', 'filename', 'bitarray', 'auto', 'nonsense', 'u', 'pad', 'uint8', 'float32']


def judge_entry(ctx, case):
    tmpdir = shard_tmpdir()
    try:
        with util.options(lsb0=case.get('lsb0', False)):
            before = util.get_options()
            kind_ = case['entry']
            if kind_ == 'ctor':
                cls = CLASSES[case['cls']]
                kw = {k: build(v, None, tmpdir) for k, v in case['kw'].items()}
                pos_args = [build(v, None, tmpdir) for v in case['args']]
                f = lambda: cls(*pos_args, **kw)  # noqa: E731
                where = f'{case["cls"]}.ctor'
            elif kind_ == 'pack':
                vals = [build(v, None, tmpdir) for v in case['args']]
                kw = {k: build(v, None, tmpdir) for k, v in case['kw'].items()}
                fmt = build(case['fmt'], None, tmpdir)
                f = lambda: pack(fmt, *vals, **kw)  # noqa: E731
                where = 'pack'
            elif kind_ == 'Dtype':
                a = [build(v, None, tmpdir) for v in case['args']]
                kw = {k: build(v, None, tmpdir) for k, v in case['kw'].items()}
                f = lambda: Dtype(*a, **kw)  # noqa: E731
                where = 'Dtype.ctor'
            else:
                a = [build(v, None, tmpdir) for v in case['args']]
                kw = {k: build(v, None, tmpdir) for k, v in case['kw'].items()}
                f = lambda: Array(*a, **kw)  # noqa: E731
                where = 'Array.ctor'
            # immutable bitstrings and token strings among the arguments: what they are worth before the call
            involved = [x for x in list(locals().get('pos_args', [])) + list(locals().get('vals', [])) + list(locals().get('a', [])) + list(kw.values())]
            watched_args = [(x, B(x), hash(x)) for x in involved if type(x) in (Bits, ConstBitStream)]
            watched_strs = [(x, call(lambda x=x: B(Bits(x)))) for x in involved if isinstance(x, str) and len(x) < 200]
            kind, val = call(f)
            ctx.op(where, 'ok' if kind == 'ok' else type(val).__name__)
            fails = []
            oc = outcome_class(kind, val, where)
            if oc:
                fails.append(oc)
            if kind == 'ok':
                bad = invalid_state(val)
                if bad:
                    fails.append(bad)
                # the caller goes on to use what was returned: changing a mutable result in place must not reach the arguments
                target = val.data if isinstance(val, Array) else val
                if type(target) in (BitArray, BitStream):
                    call(lambda: (target.invert() if len(target) else None, target.append('0b1')))
                for x, bits_, h_ in watched_args:
                    if B(x) != bits_ or hash(x) != h_:
                        fails.append('immutable-argument-changed-after-result-mutated')
                for x, before_ in watched_strs:
                    if before_[0] == 'ok' and call(lambda x=x: B(Bits(x))) != before_:
                        fails.append('token-string-meaning-changed-after-result-mutated')
                        for _, c_ in util.find_caches():
                            c_.cache_clear()
            if util.get_options() != before:
                fails.append('options-changed')
            for a_ in list(locals().get('pos_args', [])) + list(locals().get('a', [])):
                if hasattr(a_, 'close') and hasattr(a_, 'name'):
                    a_.close()
            if fails:
                for fl in dict.fromkeys(fails):
                    key = f'C20|{fl}' if '-exc:' in fl else f'C20|{where}|{fl}'
                    ctx.mismatch(key, case, f'{where} -> {kind}:{str(val)[:120]}')
            else:
                ctx.ok((where, tuple(sorted(case['kw'])), 'ok' if kind == 'ok' else type(val).__name__), True)
    finally:
        for fn in os.listdir(tmpdir):
            os.unlink(os.path.join(tmpdir, fn))


def gen_entry(ctx):
    rng = ctx.rng
    kind = rng.choice(['ctor', 'ctor', 'ctor', 'pack', 'Dtype', 'Array'])
    vals = [['int', rng.choice([0, 1, -1, 255, 256, 2 ** 64, -2 ** 63 - 1])], ['float', rng.choice([0.5, float('nan'), float('inf'), 1e39, -0.0])],
            ['str', rng.choice(['ff', '0xff', '0b101', 'zz', '', '1 0_1', '0o17', 'True', '-3', '1e3', 'nan'])], ['bool', True], ['none'],
            ['bytes', 'abcd'], ['bytes', ''], ['bits', ['Bits', '1011']], ['bits', ['BitArray', '']], ['list', [['int', 1], ['int', 0]]],
            ['missing-file'], ['raising-iter', [1, 0]], pyarray_spec(rng)]
    lens = [['none'], ['int', rng.choice([0, 1, 7, 8, 16, 17, 32, 64, -1, -8, 10 ** 5])]]
    c = {'entry': kind, 'lsb0': rng.random() < 0.25, 'args': [], 'kw': {}}
    if kind == 'ctor':
        c['cls'] = rng.choice(util.CLASS_NAMES)
        r = rng.random()
        if r < 0.55:
            kwn = rng.choice(CTOR_KW)
            if kwn == 'filename':
                c['kw'][kwn] = rng.choice([['missing-file'], ['str', ''], ['str', '/']])
            elif kwn == 'bitarray':
                c['kw'][kwn] = ['bits', ['bitarray', rb(rng, rng.choice([0, 1, 8, 9]))]]
            elif kwn in ('auto', 'nonsense', 'pad'):
                c['kw'][kwn] = rng.choice(vals)
            else:
                c['kw'][kwn] = rng.choice(family_values(kwn))
        elif r < 0.9:
            c['args'] = [rng.choice([v for v in vals if v[0] != 'int' or abs(v[1]) <= 10 ** 6] + [['str', rng.choice(TOKENS_BAD + TOKENS_OK + ['u8=3', '0xff, 0b1', 'ue=3', 'float:32=0.5'])], ['file', 'abcdef01'],
                                            ['int', rng.choice([0, 5, -1, 10 ** 6])]])]
        if rng.random() < 0.5:
            c['kw']['length'] = rng.choice(lens)
        if rng.random() < 0.3:
            c['kw']['offset'] = rng.choice(lens)
        if rng.random() < 0.2 and c['cls'] in util.STREAMS:
            c['kw']['pos'] = ['int', rng.choice([0, 1, -1, 8, 10 ** 5])]
        if rng.random() < 0.05:
            kwn = rng.choice(['uint', 'hex', 'bin', 'float', 'bytes'])
            c['kw'][kwn] = rng.choice(family_values(kwn))
    elif kind == 'pack':
        k = rng.randint(0, 4)
        c['fmt'] = rng.choice([['str', ', '.join(rng.choice(TOKENS_OK + TOKENS_BAD[:15]) for _ in range(k))], ['str', rng.choice(TOKENS_BAD)],
                               ['list', [['str', rng.choice(TOKENS_OK)] for _ in range(k)]]])
        toks = [t for t in (c['fmt'][1].split(',') if c['fmt'][0] == 'str' else [t[1] for t in c['fmt'][1]]) if t.strip()]
        import re as _re
        structured = any(ch in ''.join(toks) for ch in '*()<>@=')
        # one value family per token that consumes a positional value (pad tokens take none)
        fam = [] if structured else [family_values((_re.match(r'[a-zA-Z]+', t.strip()) or [''])[0] or 'uint') for t in toks
                                     if not _re.match(r'\s*pad\b|\s*pad[:\d]', t)]
        want = rng.choice([k, k, k + 1, max(k - 1, 0), 0])
        # values whose meaning does not depend on the token they end up with (an int can be a bit count for a 'bits' token)
        safe = [['int', 0], ['int', 1], ['int', -1], ['int', 255], ['int', 65536], ['float', 0.5], ['float', float('nan')], ['str', 'ff'], ['str', 'zz'],
                ['bool', True], ['bits', ['Bits', '1010']], ['bytes', 'ab'], ['none']]
        c['args'] = [rng.choice(fam[j] if j < len(fam) and fam[j] else safe) for j in range(want)]
        if rng.random() < 0.4:
            c['kw'] = {'n': ['int', rng.choice([0, 1, 8, -1, 10 ** 5])]}
        if rng.random() < 0.1:
            # a lone bitstring item: the result is all there is of the argument
            c['fmt'] = ['str', rng.choice(['bits', 'bits:4', 'bits', 'hex', 'bin'])]
            c['args'] = [rng.choice([['bits', ['Bits', '1010']], ['bits', ['ConstBitStream', '1010']], ['bits', ['str', '1010']], ['str', 'a'], ['str', '0101']])]
            c['kw'] = {}
    elif kind == 'Dtype':
        c['args'] = [['str', rng.choice(TOKENS_OK + TOKENS_BAD + ['uint', 'float', 'hex', 'bytes', 'e4m3mxfp', 'bool'])]]
        if rng.random() < 0.5:
            c['args'].append(rng.choice(lens))
        if rng.random() < 0.4:
            c['kw']['scale'] = rng.choice([['int', 0], ['int', 2], ['float', 0.5], ['float', float('nan')], ['str', 'auto'], ['none'], ['float', float('inf')]])
    else:
        c['args'] = [['str', rng.choice(['uint8', 'int3', 'float16', 'hex4', '>H', 'bool', 'uint0', 'bytes2', 'ue', 'nonsense', '', 'float17', 'bits3', 'uint', '<zz',
                                          'e2m1mxfp', 'pad8', 'uintle12', 'int0', 'bin0', 'hex0', 'bits0'])],
                     rng.choice([['list', [['int', rng.choice([0, 1, 255, 256, -1])] for _ in range(rng.randint(0, 4))]], ['none'], ['int', rng.choice([0, 3, -1, 10 ** 4])],
                                 ['bytes', 'ff00ff'], ['bits', ['Bits', '10101']], ['raising-iter', [1]], ['str', 'abc'], ['file', 'abcdef'],
                                 pyarray_spec(rng), pyarray_spec(rng)])]
        if rng.random() < 0.3:
            c['kw']['trailing_bits'] = rng.choice([['str', '0b1'], ['str', 'zz'], ['bits', ['Bits', '101']], ['int', 3]])
    return c


DIRECTED = [
    # a whole-byte pattern searched byte-aligned in data that ends part way through a byte (its last bits could be completed by padding)
    {'receiver': ['ConstBitStream', '111111110'], 'calls': [['readto', [['bits', ['Bits', '00000000']]], {'bytealigned': ['bool', True]}], ['get:pos', [], {}]]},
    {'receiver': ['BitStream', '0' * 12], 'calls': [['readto', [['bits', ['str', '0' * 16]]], {'bytealigned': ['bool', True]}], ['find', [['bits', ['Bits', '0' * 16]]], {'bytealigned': ['bool', True]}],
                                                   ['rfind', [['bits', ['Bits', '0' * 16]]], {'bytealigned': ['bool', True]}], ['get:pos', [], {}]]},
    {'receiver': ['BitStream', '1' * 8 + '000'], 'lsb0': True, 'calls': [['readto', [['bits', ['Bits', '0' * 8]]], {'bytealigned': ['bool', True]}], ['replace', [['bits', ['Bits', '0' * 8]], ['bits', ['Bits', '1']]], {'bytealigned': ['bool', True]}]]},
    {'receiver': ['BitArray', '0' * 12], 'lsb0': True, 'calls': [['set', [['int', 1], ['range', [0, 12, 2]]], {}]]},
    {'receiver': ['BitArray', '0110' * 4], 'calls': [['overwrite', [['bits', ['self']], ['int', 4]], {}]]},
    {'receiver': ['BitArray', '0110' * 4], 'calls': [['rol', [['int', 3], ['int', 5], ['int', 5]], {}], ['ror', [['int', 3], ['int', 5], ['int', 5]], {}]]},
    {'receiver': ['ConstBitStream', '1' * 16, 4], 'calls': [['append', [['bits', ['Bits', '1']]], {}], ['overwrite', [['bits', ['Bits', '0']], ['int', 0]], {}],
                                                             ['readlist', [['list', [['int', -1]]]], {}]]},
    {'receiver': ['BitStream', '0' * 16, 16], 'calls': [['set:uint8', [['int', 3]], {}]]},
]
DIRECTED_ENTRY = [
    {'entry': 'Array', 'args': [['str', 'uint0'], ['list', [['int', 0]]]], 'kw': {}},
]


# ---- the module options themselves ---------------------------------------------------------------------------
OPTION_VALUES = {'lsb0': [True, False, 1, 0, 'yes', '', None, 2.5, [], [0]],
                 'bytealigned': [True, False, 1, 0, 'yes', '', None],
                 'no_color': [True, False, 1, 0, 'x', None],
                 'mxfp_overflow': ['saturate', 'overflow', 'Saturate', 'clip', '', None, 0, True, 'saturate ', ['saturate'], b'overflow']}


def judge_option(ctx, case):
    name, spec = case['option'], case['value']
    val = spec[1] if spec[0] != 'none' else None
    if spec[0] == 'bytes':
        val = val.encode()
    start = case['start']
    with util.options(lsb0=start[0], bytealigned=start[1], mxfp_overflow=start[2], no_color=start[3]):
        before = util.get_options()
        kind, r = call(lambda: setattr(bitstring.options, name, val))
        ctx.op('options.' + name, 'ok' if kind == 'ok' else type(r).__name__)
        now = util.get_options()
        valid = now[2] in ('saturate', 'overflow')       # the switches are used for their truth value only: any object is a valid setting
        if kind == 'exc':
            if isinstance(r, INTERNAL) and not isinstance(r, (ValueError, TypeError)):
                ctx.mismatch(f'C20|undocumented-exc:{type(r).__name__}@options.{name}', case, f'{r!s:.100}')
            elif now != before:
                ctx.mismatch(f'C20|options.{name}|options-changed-by-rejected-assignment', case, f'{before} -> {now}')
            else:
                ctx.ok(('option', name, 'rejected'), True)
        elif not valid:
            ctx.mismatch(f'C20|options.{name}|invalid-value-stored', case, f'{val!r} accepted: options now {now}')
        elif [x for i, x in enumerate(now) if i != ['lsb0', 'bytealigned', 'mxfp_overflow', 'no_color'].index(name)] != \
                [x for i, x in enumerate(before) if i != ['lsb0', 'bytealigned', 'mxfp_overflow', 'no_color'].index(name)]:
            ctx.mismatch(f'C20|options.{name}|another-option-changed', case, f'{before} -> {now}')
        else:
            # the library still works under what was stored
            k2, r2 = call(lambda: (Bits(e4m3mxfp=1000.0).uint, Bits('0b00101')[1], list(Bits('0x0101').findall('0b1'))))
            if k2 != 'ok':
                ctx.mismatch(f'C20|options.{name}|library-unusable-after-assignment', case, f'{val!r}: {r2!s:.100}')
            else:
                ctx.ok(('option', name, 'accepted', repr(val)[:12]), True)


# ---- lazy results consumed after the options have moved on ------------------------------------------------------------
LAZY_METHODS = ['findall', 'findall-bytealigned', 'split', 'cut', 'iter', 'array-iter', 'findall-count', 'split-window', 'rfind-after']


def gen_lazy(ctx):
    rng = ctx.rng
    L = rng.choice([0, 1, 8, 13, 40, 64, 100])
    return {'lazy': rng.choice(LAZY_METHODS), 'cls': rng.choice(util.CLASS_NAMES), 'bits': rb(rng, L), 'pat': rb(rng, rng.choice([1, 2, 8])),
            'before': [rng.random() < 0.5, rng.random() < 0.5], 'after': [rng.random() < 0.5, rng.random() < 0.5], 'consume_first': rng.choice([0, 0, 1, 2])}


def judge_lazy(ctx, case):
    """A generator returned by a public method is made under one setting of lsb0 / bytealigned and consumed (wholly, or the rest of it) under
    another.  Which setting its items follow is not stated anywhere; that consuming it either works or raises a documented error is."""
    import itertools
    from rv import sentinels
    m, bits, pat = case['lazy'], case['bits'], '0b' + case['pat']
    b0, b1 = case['before'], case['after']
    sentinels._state['harness_moves_options'] = True      # (S4 compares the options before and after a raising call: here the harness changes them in between)
    try:
        _judge_lazy(ctx, case, m, bits, pat, b0, b1)
    finally:
        sentinels._state['harness_moves_options'] = False


def _judge_lazy(ctx, case, m, bits, pat, b0, b1):
    import itertools
    with util.options(lsb0=b0[0], bytealigned=b0[1]):
        s = util.mk(case['cls'], bits)
        snap = (len(s), B(s))

        def make():
            if m == 'findall':
                return s.findall(pat)
            if m == 'findall-bytealigned':
                return s.findall(pat, bytealigned=True)
            if m == 'findall-count':
                return s.findall(pat, count=2)
            if m == 'split':
                return s.split(pat)
            if m == 'split-window':
                return s.split(pat, 1, max(len(s) - 1, 1), 3)
            if m == 'cut':
                return s.cut(3)
            if m == 'iter':
                return iter(s)
            if m == 'array-iter':
                return iter(Array('u4', s))
            return iter([s.rfind(pat)])
        kind, g = call(make)
        ctx.op('lazy:' + m, 'ok' if kind == 'ok' else type(g).__name__)
        fails = []
        if kind == 'exc':
            oc = outcome_class(kind, g, 'lazy')
            if oc:
                fails.append(oc)
        else:
            k1, first = call(lambda: list(itertools.islice(g, case['consume_first'])))
            bitstring.options.lsb0, bitstring.options.bytealigned = b1[0], b1[1]
            set_now = util.get_options()
            k2, rest = call(lambda: list(itertools.islice(g, 10000)))
            for k_, v_ in ((k1, first), (k2, rest)):
                oc = outcome_class(k_, v_, 'lazy') if k_ == 'exc' else None
                if oc:
                    fails.append(oc)
            if util.get_options() != set_now:
                fails.append('options-changed-by-consuming-a-generator')
            if (len(s), B(s)) != snap:
                fails.append('receiver-changed-by-consuming-a-generator')
        if fails:
            for fl in dict.fromkeys(fails):
                ctx.mismatch(f'C20|{fl}' if '-exc:' in fl else f'C20|lazy:{m}|{fl}', case, f'{m} made under lsb0/bytealigned={b0}, consumed under {b1}')
        else:
            ctx.ok(('lazy', m, tuple(b0), tuple(b1), case['consume_first'] > 0), b0 != b1)


def option_cases(ctx):
    for name, vals in OPTION_VALUES.items():
        for v in vals:
            spec = ['none'] if v is None else ['bytes', v.decode()] if isinstance(v, bytes) else ['val', v]
            for start in ([False, False, 'saturate', False], [True, True, 'overflow', True]):
                yield {'option': name, 'value': spec, 'start': start}


# ---- termination: a short malformed format must be answered (a result or a documented exception), not looped on -----------
TERMINATION_FORMATS = ['x*(hex), 2*(uint:8)', 'a*(u8),2*(u8)', '2*(x*(u8)), 3*(u8)', ' *(u8), 2*(u8)', '1.5*(u8), 2*(u8)', '-*(u8),2*(bool)',
                       'u8, y*(bool), 4*(bool)', '2*(u8)', '((u8)), 2*(bool)', ')*(u8), 2*(u8)', '2*(u8), x*(hex)', '0*(u8), z*(u8), 3*(u8)']
TERMINATION_ENTRIES = {'Bits': 'bitstring.Bits(F)', 'pack': 'bitstring.pack(F, 1, 2, 3)', 'unpack': "bitstring.Bits('0xffff').unpack(F)",
                       'readlist': "bitstring.ConstBitStream('0xffff').readlist(F)"}


def judge_termination(ctx, case):
    import subprocess
    import sys
    code = ('import bitstring\nF = %r\ntry:\n    %s\n    print("ok")\nexcept Exception as e:\n    print(type(e).__name__)\n'
            % (case['terminates'], TERMINATION_ENTRIES[case['via']]))
    root = os.path.dirname(os.path.dirname(os.path.abspath(bitstring.__file__)))
    try:
        r = subprocess.run([sys.executable, '-c', code], capture_output=True, text=True, timeout=40, env=dict(os.environ, PYTHONPATH=root))
        out = r.stdout.strip().splitlines()[-1] if r.stdout.strip() else 'no-output:' + r.stderr.strip()[-80:]
    except subprocess.TimeoutExpired:
        out = None
    ctx.op('termination:' + case['via'], out or 'timeout')
    if out is None:
        ctx.ops['termination:' + case['via'] + ':timeout'] += 1
        # a 20-character format is parsed in microseconds: 40 s is not a performance verdict but "it does not come back"
        ctx.mismatch(f'C20|{case["via"]}|short-malformed-multiplier-format|no-answer-within-40s', case, case['terminates'])
    elif out in ('ok', 'ValueError', 'CreationError', 'ReadError', 'IndexError', 'TypeError', 'InterpretError', 'Error'):
        ctx.ok(('termination', case['via'], out), True)
    else:
        ctx.mismatch(f'C20|undocumented-exc:{out}@{case["via"]}-malformed-format', case, case['terminates'])


# ---- small reproducers of repaired defects that the random workload reaches only rarely (each must stay documented-exception-or-ok) ----
def _lazy_findall_across_toggle():
    bitstring.options.lsb0 = True
    try:
        g = Bits('0b0110100110').findall('0b1')
        h = ConstBitStream('0x0ff0').findall('0xf', bytealigned=True)
    finally:
        bitstring.options.lsb0 = False
    return list(g), list(h)


def _regressions():
    import io as _io
    return {
        'len(Array(Dtype(bits,0)))': lambda: len(Array(Dtype('bits', 0))),
        'Array(Dtype(uint,0)).tolist()': lambda: Array(Dtype('uint', 0)).tolist(),
        'Array(Dtype(ue))': lambda: Array(Dtype('ue'), [1]).tolist(),
        'Array(auto-scale, [inf])': lambda: Array(Dtype('e4m3mxfp', scale='auto'), [float('inf'), 1.0]),
        'Array(auto-scale, [nan])': lambda: Array(Dtype('e5m2mxfp', scale='auto'), [float('nan')]),
        'Bits(BufferedReader(BytesIO))': lambda: Bits(_io.BufferedReader(_io.BytesIO(b'ab'))).hex,
        'ConstBitStream(BufferedReader(BytesIO))': lambda: ConstBitStream(_io.BufferedReader(_io.BytesIO(b''))).pos,
        "pp(pad8, sep='')": lambda: Bits(16).pp('pad8', sep='', stream=_io.StringIO()),
        "pp(pad3, pad3, sep='')": lambda: Bits(12).pp('pad3, pad3', sep='', stream=_io.StringIO()),
        'findall made under lsb0, consumed after the option was switched off': lambda: _lazy_findall_across_toggle(),
        'Bits() == 10**5000': lambda: (Bits() == 10 ** 5000, Bits('0b1') != -10 ** 6000),
        'BitArray(10**5000 as auto in +)': lambda: BitArray('0b1') + 10 ** 5000,
        's >> True': lambda: (Bits('0b1010') >> True, Bits('0b1010') << True, BitArray('0b1010').__irshift__(True)),
    }


def judge_regressions(ctx):
    for name, f in _regressions().items():
        with util.options(lsb0=False):
            kind, val = call(f)
        ctx.op('regression:' + name, 'ok' if kind == 'ok' else type(val).__name__)
        oc = outcome_class(kind, val, name)
        if oc:
            ctx.mismatch(f'C20|{oc}', {'regression': name}, f'{name} -> {type(val).__name__}: {val!s:.100}')
        else:
            ctx.ok(('regression', name), True)


def run(ctx):
    if ctx.shard == 2 % ctx.nshards:
        judge_regressions(ctx)
    if ctx.shard == 1 % ctx.nshards:
        for f in TERMINATION_FORMATS:
            for via in TERMINATION_ENTRIES:
                if ctx.ops.get('termination:' + via + ':timeout', 0) < 1:         # one unanswered call per entry point is verdict enough
                    judge_termination(ctx, {'terminates': f, 'via': via})
    if ctx.shard == 0:
        for c in option_cases(ctx):
            ctx.run_case(judge_option, c)
    if not ctx.quick and ctx.shard == ctx.nshards - 1:
        # extra workload: the repository's own tests as a generator of realistic API events under the sentinels
        from rv.suite_workload import run_suite_under_sentinels
        run_suite_under_sentinels(ctx)
    if ctx.shard == 0:
        for c in DIRECTED:
            ctx.run_case(judge, dict(c))
        for c in DIRECTED_ENTRY:
            ctx.run_case(judge_entry, dict(c))
        # every public callable that exists must have been called at least once (checked via the op histogram)
    n = ctx.scale(54000, 400000)
    for i in range(n):
        c = gen_case(ctx)
        ctx.run_case(judge, c)
        if i % 997 == 0:
            ctx.sample({'receiver': c['receiver'][:2], 'calls': c['calls'][:3]})
    for i in range(ctx.scale(6000, 200000)):
        ctx.run_case(judge_entry, gen_entry(ctx))
    for i in range(ctx.scale(1500, 40000)):
        ctx.run_case(judge_lazy, gen_lazy(ctx))
    # reach: which public callables were never called in this shard (merged by the parent)
    called = {k.split('.', 1)[1] for k in ctx.ops if '.' in k}
    ctx.extra['public_callables'] = {cls: len(m) for cls, (m, p) in api().items()}


def required_ops():
    ops = []
    for cls, (methods, props) in api().items():
        for m in methods:
            ops.append(f'{cls}.{m}')
    return ops + ['pack', 'Dtype.ctor', 'Array.ctor', 'Bits.ctor', 'BitStream.ctor']


REQUIRED_OPS = required_ops()


def replay(ctx, case):
    if 'regression' in case:
        judge_regressions(ctx)
    elif 'terminates' in case:
        judge_termination(ctx, case)
    elif 'option' in case:
        ctx.run_case(judge_option, case)
    elif 'lazy' in case:
        ctx.run_case(judge_lazy, case)
    elif 'entry' in case:
        ctx.run_case(judge_entry, case)
    else:
        ctx.run_case(judge, case)
