"""pytest plugin: run the repository's own tests as an extra *workload* under the sentinels S1-S6.

The tests' own assertions are irrelevant to the verdict; they only generate a few hundred thousand realistic API
events.  The Ctx summary is written to $RV_PLUGIN_OUT at session end and merged by the calling property module."""
from __future__ import annotations

import json
import os

from rv import sentinels
from rv.core import Ctx

_ctx = Ctx(os.environ.get('RV_PLUGIN_PROP', 'C20'), 'thorough', 0)
_ctx.current_case = {'pytest-test': '<collection>'}
sentinels.install(_ctx)


def pytest_runtest_setup(item):
    _ctx.current_case = {'pytest-test': item.nodeid}


def pytest_sessionfinish(session, exitstatus):
    out = os.environ.get('RV_PLUGIN_OUT')
    if out:
        with open(out, 'w') as f:
            json.dump(_ctx.summary(), f, default=str)
