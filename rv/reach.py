"""Reach tracker (DESIGN 2.3): which functions of /repo's bitstring package did this run enter?

sys.monitoring PY_START with DISABLE after the first hit per code object, so the cost is paid
once per function.  Anchors are qualified names (``Bits.find``,
``DtypeDefinition.__init__.<locals>.read_fn``); an anchor that exists in the tree but was never
entered makes the run inconclusive, an anchor that no longer exists is only reported."""
from __future__ import annotations

import os
import sys
import types

_reached: set = set()
_root = None
_on = False


def _on_start(code, offset):
    fn = code.co_filename
    if _root and fn.startswith(_root):
        _reached.add(code.co_qualname)
    return sys.monitoring.DISABLE


def start(repo_pkg_dir: str) -> None:
    global _root, _on
    _root = os.path.realpath(repo_pkg_dir) + os.sep
    if _on:
        return
    mon = sys.monitoring
    try:
        mon.use_tool_id(mon.COVERAGE_ID, 'rv-reach')
    except ValueError:
        return
    mon.register_callback(mon.COVERAGE_ID, mon.events.PY_START, _on_start)
    mon.set_events(mon.COVERAGE_ID, mon.events.PY_START)
    _on = True


def reached() -> set:
    return set(_reached)


def all_qualnames(repo_pkg_dir: str) -> set:
    """Every function qualname present in the package sources (compiled, not imported)."""
    out = set()

    def walk(co):
        out.add(co.co_qualname)
        for c in co.co_consts:
            if isinstance(c, types.CodeType):
                walk(c)
    for fn in sorted(os.listdir(repo_pkg_dir)):
        if fn.endswith('.py'):
            path = os.path.join(repo_pkg_dir, fn)
            try:
                with open(path, encoding='utf-8') as f:
                    walk(compile(f.read(), path, 'exec'))
            except SyntaxError:
                pass
    return out
