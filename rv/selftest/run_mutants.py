"""Apply seeded property-breaking patches to a scratch copy of /repo (never to /repo itself) and run checks.

usage: python -m rv.selftest.run_mutants [--suite] [--tier quick] PATCH[:PROP[,PROP...]] ...
  PATCH  a .patch/.diff file (git-apply format, paths a/bitstring/...); the property ids default to the
         file name prefix (C07_xxx.patch -> C07) or meta.json's "property" next to patch.diff.
  --suite  also run the repository's own test-suite on the mutant (a useful mutant passes it).
Exit 0 if every mutant was reported (VIOLATION) by at least one of its checks."""
from __future__ import annotations

import json
import os
import re
import shutil
import subprocess
import sys
import tempfile

VERIF = os.path.dirname(os.path.dirname(os.path.dirname(os.path.abspath(__file__))))


def props_for(patch):
    base = os.path.basename(patch)
    pf = patch[:-6] + '.props' if patch.endswith('.patch') else None
    if pf and os.path.exists(pf):
        return open(pf).read().strip().split(',')
    m = re.search(r'(C\d\d)', base)
    if m:
        return [m.group(1)]
    meta = os.path.join(os.path.dirname(patch), 'meta.json')
    if os.path.exists(meta):
        p = json.load(open(meta)).get('property')
        return p if isinstance(p, list) else [p]
    return []


def main(argv):
    suite = '--suite' in argv
    tier = 'quick'
    args = [a for a in argv if not a.startswith('--')]
    if '--tier' in argv:
        tier = argv[argv.index('--tier') + 1]
        args.remove(tier)
    missed = 0
    for spec in args:
        patch, _, plist = spec.partition(':')
        props = plist.split(',') if plist else props_for(patch)
        d = tempfile.mkdtemp(prefix='rvmut_')
        try:
            shutil.copytree('/repo/bitstring', os.path.join(d, 'bitstring'))
            shutil.copytree('/repo/tests', os.path.join(d, 'tests'))
            shutil.copy('/repo/pyproject.toml', d)
            r = subprocess.run(['patch', '-p1', '-s', '-i', os.path.abspath(patch)], cwd=d, capture_output=True, text=True)
            if r.returncode != 0:
                print(f'{patch}: PATCH DOES NOT APPLY: {r.stdout[-300:]}{r.stderr[-300:]}')
                missed += 1
                continue
            if suite:
                t = subprocess.run(['/venv/bin/python', '-m', 'pytest', '-q', '-x', '-p', 'no:cacheprovider', 'tests'], cwd=d, capture_output=True, text=True)
                print(f'{patch}: suite {"PASSES" if t.returncode == 0 else "FAILS: " + t.stdout[-300:]}')
            caught = []
            for prop in props:
                env = dict(os.environ, VERIF_REPO_ROOT=d)
                c = subprocess.run([os.path.join(VERIF, 'check'), prop, tier], env=env, capture_output=True, text=True)
                viol = [ln for ln in c.stdout.splitlines() if ln.startswith('VIOLATION')]
                inc = [ln for ln in c.stdout.splitlines() if ln.startswith('INCONCLUSIVE')]
                print(f'{os.path.basename(patch)} x {prop}: rc={c.returncode} violations={len(viol)} inconclusive={len(inc)}')
                for ln in viol[:3]:
                    print('    ' + re.sub(r'replay=\S+ ', '', ln)[:230])
                if c.returncode == 1 and viol:
                    caught.append(prop)
            if not caught:
                missed += 1
                print(f'{patch}: MISSED by {props}')
        finally:
            shutil.rmtree(d, ignore_errors=True)
    return 1 if missed else 0


if __name__ == '__main__':
    sys.exit(main(sys.argv[1:]))
