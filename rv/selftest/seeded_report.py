"""Print a markdown table of the seeded changes and which checks catch them (from seeded/*/meta.json)."""
import glob
import json
import os
import re

VERIF = os.path.dirname(os.path.dirname(os.path.dirname(os.path.abspath(__file__))))
rows = []
for d in sorted(glob.glob(os.path.join(VERIF, 'seeded', '*'))):
    mp = os.path.join(d, 'meta.json')
    if not os.path.exists(mp):
        continue
    m = json.load(open(mp))
    notes = m.get('needs_to_manifest_and_why_tests_miss_it', '')
    title = re.sub(r'^#+\s*', '', notes.strip().splitlines()[0]) if notes.strip() else ''
    title = re.sub(r'^(Change|change|notes?)\s*\d*\s*[-:–—.]*\s*', '', title)[:110]
    c = m.get('confirmation', {})
    ok = c.get('suite_passes_with_change') and c.get('demo_fails_with_change') and c.get('demo_passes_without_change')
    caught = ', '.join(m.get('caught_by', [])) or '**missed**'
    h = m.get('history') or {}
    hist = ('first missed; ' + h.get('strengthening', 'check strengthened')) if str(h.get('first_run', '')).startswith('MISSED') else ''
    if os.environ.get('WAVE') and str(m.get('wave', 1)) != os.environ['WAVE']:
        continue
    rows.append(f"| {m['id']} | {title} | {'yes' if ok else 'NO'} | {caught} | {hist} |")
print('| id | change (as described by its author) | confirmed (suite passes, demo fails with / passes without) | caught by (quick tier) | note |')
print('|---|---|---|---|---|')
print('\n'.join(rows))
