"""Confirm a seeded change and run the checks against it.

usage: python -m rv.selftest.verify_seeded [--import SRC_DIR PROP] [--checks P1,P2] [--tier quick] [--no-confirm] SEEDED_DIR ...

  --import SRC_DIR PROP   copy change_k.diff / demo_k.py / notes_k.md from a seeding agent's _out directory into
                          /verif/seeded/<PROP>_<k>/ (patch.diff, demo.py, notes.md) first
For each seeded directory (containing patch.diff, demo.py):
  1. scratch copy of /repo (bitstring/, tests/, pyproject.toml) under /tmp, never /repo itself
  2. demo on the clean copy must pass; apply the patch; the repository's suite must still pass; demo must fail
  3. run ./check <prop> <tier> with VERIF_REPO_ROOT=<copy> for the owning property (+ --checks) and record caught / missed
  4. write meta.json; delete the scratch copy."""
from __future__ import annotations

import json
import os
import re
import shutil
import subprocess
import sys
import tempfile
import time

VERIF = os.path.dirname(os.path.dirname(os.path.dirname(os.path.abspath(__file__))))
PY = '/venv/bin/python'


def sh(cmd, cwd=None, env=None, timeout=3600):
    p = subprocess.run(cmd, cwd=cwd, env=env, capture_output=True, text=True, timeout=timeout)
    return p.returncode, p.stdout, p.stderr


def import_from(src, prop):
    out = []
    seeded = os.path.join(VERIF, 'seeded')
    existing = [int(m.group(1)) for d in (os.listdir(seeded) if os.path.isdir(seeded) else [])
                for m in [re.match(rf'{prop}_(\d+)$', d)] if m]
    base = max(existing, default=0)
    for f in sorted(os.listdir(src)):
        m = re.match(r'change_(\d+)\.diff$', f)
        if not m:
            continue
        k = m.group(1)
        d = os.path.join(VERIF, 'seeded', f'{prop}_{base + int(k)}')
        os.makedirs(d, exist_ok=True)
        shutil.copy(os.path.join(src, f), os.path.join(d, 'patch.diff'))
        for a, b in ((f'demo_{k}.py', 'demo.py'), (f'notes_{k}.md', 'notes.md')):
            if os.path.exists(os.path.join(src, a)):
                shutil.copy(os.path.join(src, a), os.path.join(d, b))
        out.append(d)
    return out


def verify(d, extra_checks, tier, confirm=True):
    d = os.path.abspath(d)
    name = os.path.basename(d.rstrip('/'))
    prop = name.split('_')[0]
    meta_path = os.path.join(d, 'meta.json')
    meta = json.load(open(meta_path)) if os.path.exists(meta_path) else {}
    meta.update({'id': name, 'property': prop})
    tmp = tempfile.mkdtemp(prefix='rvseed_')
    try:
        shutil.copytree('/repo/bitstring', os.path.join(tmp, 'bitstring'))
        shutil.copytree('/repo/tests', os.path.join(tmp, 'tests'))
        shutil.copy('/repo/pyproject.toml', tmp)
        for f in os.listdir(os.path.join(tmp, 'tests')):
            if f.startswith('temp_'):
                os.unlink(os.path.join(tmp, 'tests', f))
        env = dict(os.environ, PYTHONPATH=tmp, PYTHONDONTWRITEBYTECODE='1')
        demo = os.path.join(d, 'demo.py')
        conf = meta.setdefault('confirmation', {})
        if confirm and os.path.exists(demo):
            rc, o, e = sh([PY, demo], cwd=tmp, env=env, timeout=600)
            conf['demo_passes_without_change'] = rc == 0
        rc, o, e = sh(['patch', '-p1', '-s', '-i', os.path.join(d, 'patch.diff')], cwd=tmp)
        conf['patch_applies'] = rc == 0
        if rc != 0:
            conf['patch_error'] = (o + e)[-300:]
            meta['ran'] = time.strftime('%Y-%m-%d %H:%M')
            json.dump(meta, open(meta_path, 'w'), indent=1)
            print(f'{name}: PATCH DOES NOT APPLY')
            return meta
        if confirm:
            rc, o, e = sh([PY, '-m', 'pytest', '-q', '-x', '-p', 'no:cacheprovider', 'tests'], cwd=tmp, env=env, timeout=1800)
            conf['suite_passes_with_change'] = rc == 0
            conf['suite_tail'] = o.strip().splitlines()[-1][:120] if o.strip() else ''
            if os.path.exists(demo):
                rc, o, e = sh([PY, demo], cwd=tmp, env=env, timeout=600)
                conf['demo_fails_with_change'] = rc != 0
                conf['demo_output_tail'] = (o + e).strip()[-300:]
        results = {}
        for p in [prop] + [c for c in extra_checks if c != prop]:
            t0 = time.time()
            env2 = dict(os.environ, VERIF_REPO_ROOT=tmp)
            rc, o, e = sh([os.path.join(VERIF, 'check'), p, tier], env=env2, timeout=7200)
            viol = [re.sub(r'replay=\S+ ', '', ln)[:300] for ln in o.splitlines() if ln.startswith('VIOLATION')]
            inc = [ln[:200] for ln in o.splitlines() if ln.startswith('INCONCLUSIVE')]
            results[p] = {'tier': tier, 'exit': rc, 'caught': rc == 1 and bool(viol), 'violations': len(viol), 'first': viol[:3],
                          'inconclusive': inc[:2], 'wall_s': round(time.time() - t0, 1)}
        meta.setdefault('checks', {}).update(results)
        meta['caught_by'] = sorted(p for p, r in meta['checks'].items() if r.get('caught'))
        meta['ran'] = time.strftime('%Y-%m-%d %H:%M')
        json.dump(meta, open(meta_path, 'w'), indent=1)
        c = meta['confirmation']
        print(f"{name}: suite_passes={c.get('suite_passes_with_change')} demo_fails_with={c.get('demo_fails_with_change')} "
              f"demo_passes_without={c.get('demo_passes_without_change')} | " +
              ' '.join(f"{p}:{'CAUGHT' if r['caught'] else 'missed'}({r['violations']})" for p, r in results.items()))
        for p, r in results.items():
            for ln in r['first'][:2]:
                print('     ', ln[:220])
        return meta
    finally:
        shutil.rmtree(tmp, ignore_errors=True)


def main(argv):
    extra, tier, dirs, confirm = [], 'quick', [], True
    i = 0
    while i < len(argv):
        a = argv[i]
        if a == '--import':
            dirs += import_from(argv[i + 1], argv[i + 2])
            i += 3
        elif a == '--checks':
            extra = argv[i + 1].split(',')
            i += 2
        elif a == '--tier':
            tier = argv[i + 1]
            i += 2
        elif a == '--no-confirm':
            confirm = False
            i += 1
        else:
            dirs.append(a)
            i += 1
    for d in dirs:
        verify(d, extra, tier, confirm)


if __name__ == '__main__':
    main(sys.argv[1:])
