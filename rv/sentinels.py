"""Class-wide invariant wrappers ("invariant at a hook", DESIGN 2.2).

Installed from the harness on every public method / operator dunder of the five public classes.
Only the outermost (boundary) call is checked; nested library-internal calls pass through.

  S1 immutable receiver unchanged            (owners C04, C20)
  S2 stream position valid 0 <= pos <= len   (owners C06, C20)
  S3 len(s) == len(s.bin)                    (owner  C20)
  S4 options unchanged by a raising call     (owner  C20)
  S5 no internal exception class escapes     (owner  C20)
  S6 argument operands unchanged             (owners C04, C16)
"""
from __future__ import annotations

import functools
import inspect

import bitstring
from bitstring import Bits, BitArray, ConstBitStream, BitStream, Array

OWNERS = {
    'S1': ('C04', 'C20'), 'S2': ('C06', 'C20'), 'S3': ('C20',), 'S4': ('C20',), 'S5': ('C20',),
    'S6': ('C04', 'C16'),
}
INTERNAL = (AttributeError, AssertionError, KeyError, NameError, RecursionError, ZeroDivisionError,
            NotImplementedError, RuntimeError, StopIteration, UnboundLocalError)
SKIP = {'__new__', '__init__', '__getattr__', '__setattr__', '__getattribute__', '__del__', '__len__',
        '__hash__', '__bool__', '__iter__', '__class_getitem__', '__init_subclass__',
        '__subclasshook__', '__reduce__', '__reduce_ex__', '__sizeof__', '__dir__', '__format__',
        '__repr__', '__str__', '__bytes__', '__delattr__', '__eq__', '__ne__', '__lt__', '__gt__',
        '__le__', '__ge__'}
SNAP_LIMIT = 200_000

_state = {'depth': 0, 'ctx': None, 'installed': 0, 'originals': []}


def _snap(o):
    try:
        if isinstance(o, Bits):
            n = len(o)
            return (n, o.tobytes() if n < SNAP_LIMIT else None)
    except Exception as e:  # noqa: BLE001
        return ('snapfail', type(e).__name__)
    return None


def _opts():
    o = bitstring.options
    return (o.lsb0, o.bytealigned, o.mxfp_overflow, o.no_color)


def origin(e) -> str:
    """Qualified name of the innermost package function on the traceback of e (the raise site)."""
    import os
    tb = e.__traceback__
    site = 'python'
    root = os.path.realpath(os.path.dirname(bitstring.__file__)) + os.sep
    while tb is not None:
        co = tb.tb_frame.f_code
        if os.path.realpath(co.co_filename).startswith(root):
            site = co.co_qualname
        tb = tb.tb_next
    return site


def _ev(sid: str):
    ctx = _state['ctx']
    if ctx is not None:
        ctx.sentinel_evals[sid] += 1


def _trip(sid: str, where: str, detail):
    ctx = _state['ctx']
    if ctx is None:
        return
    mech = f"{sid}|{where}"
    if ctx.prop in OWNERS[sid]:
        ctx.mismatch(mech, getattr(ctx, 'current_case', None), f"sentinel {sid} at {where}: {detail}")
    else:
        ctx.foreign_trips[mech] += 1


def _post(cls, name, self, pre, preargs, opts_before, raised):
    _ev('calls')
    tname = type(self).__name__
    if pre is not None:
        _ev('S1')
        post = _snap(self)
        if post != pre:
            _trip('S1', f'{tname}.{name}', f'{str(pre)[:80]} -> {str(post)[:80]}')
    if isinstance(self, ConstBitStream):
        _ev('S2')
        try:
            p = self.pos
            if not 0 <= p <= len(self):
                _trip('S2', f'{tname}.{name}', f'pos={p} len={len(self)}')
        except AttributeError:
            pass  # half-built stream without a position yet
    if isinstance(self, Bits):
        n = len(self)
        if n < 5000:
            _ev('S3')
            try:
                nb = len(self.bin) if n else 0
            except Exception as e:  # noqa: BLE001
                nb = f'bin raised {type(e).__name__}'
            if nb != n:
                _trip('S3', f'{tname}.{name}', f'len={n} len(bin)={nb}')
    if raised is not None:
        _ev('S4')
        if _opts() != opts_before and not _state.get('harness_moves_options'):
            _trip('S4', f'{tname}.{name}', f'{opts_before} -> {_opts()}')
        if isinstance(raised, INTERNAL) and not isinstance(raised, bitstring.Error):
            _trip('S5', f'{type(raised).__name__}@{origin(raised)}', f'{tname}.{name}: {str(raised)[:120]}')
    for x, s in preargs:
        _ev('S6')
        if _snap(x) != s:
            _trip('S6', f'{tname}.{name}', f'argument {type(x).__name__} changed')


def _gen_guard(gen, cls, name, self, pre, opts_before):
    """Iteration of a generator returned by a public method is part of the public call."""
    while True:
        _state['depth'] += 1
        raised = None
        try:
            try:
                item = next(gen)
            except StopIteration:
                return
            except BaseException as e:
                raised = e
                raise
            finally:
                try:
                    if raised is not None or pre is not None:
                        _post(cls, name + '()iter', self, pre, (), opts_before, raised)
                except Exception:  # noqa: BLE001 - a sentinel must never change behaviour
                    pass
        finally:
            _state['depth'] -= 1
        yield item


def _wrap(cls, name, f):
    @functools.wraps(f)
    def w(self, *a, **k):
        if _state['depth']:
            return f(self, *a, **k)
        _state['depth'] += 1
        raised = None
        pre = None
        preargs = ()
        opts_before = None
        try:
            try:
                imm = type(self) in (Bits, ConstBitStream)
                pre = _snap(self) if imm else None
                preargs = [(x, _snap(x)) for x in a if isinstance(x, Bits) and x is not self]
                opts_before = _opts()
            except Exception:  # noqa: BLE001
                pass
            try:
                r = f(self, *a, **k)
            except BaseException as e:
                raised = e
                raise
            finally:
                try:
                    _post(cls, name, self, pre, preargs, opts_before, raised)
                except Exception:  # noqa: BLE001
                    pass
        finally:
            _state['depth'] -= 1
        if inspect.isgenerator(r):
            return _gen_guard(r, cls, name, self, pre, opts_before)
        return r
    w.__rv_sentinel__ = True
    return w


def install(ctx) -> int:
    _state['ctx'] = ctx
    if _state['installed']:
        return _state['installed']
    n = 0
    for cls in (Bits, BitArray, ConstBitStream, BitStream, Array):
        for name, obj in list(vars(cls).items()):
            if name in SKIP:
                continue
            if name.startswith('_') and not (name.startswith('__') and name.endswith('__')):
                continue
            if isinstance(obj, (classmethod, staticmethod, property)) or not callable(obj):
                continue
            if obj is None or getattr(obj, '__rv_sentinel__', False):
                continue
            _state['originals'].append((cls, name, obj))
            setattr(cls, name, _wrap(cls, name, obj))
            n += 1
    _state['installed'] = n
    return n


def uninstall():
    for cls, name, obj in _state['originals']:
        setattr(cls, name, obj)
    _state['originals'].clear()
    _state['installed'] = 0
    _state['ctx'] = None
