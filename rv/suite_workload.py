"""Run /repo's test-suite (from a scratch copy of tests/, never inside /repo) under the sentinels and merge the trips."""
from __future__ import annotations

import json
import os
import shutil
import subprocess
import sys
import tempfile


def run_suite_under_sentinels(ctx, repo_root=None):
    repo_root = repo_root or os.environ.get('VERIF_REPO_ROOT', '/repo')
    d = tempfile.mkdtemp(prefix='rv_suite_')
    try:
        shutil.copytree(os.path.join(repo_root, 'tests'), os.path.join(d, 'tests'))
        out = os.path.join(d, 'plugin.json')
        env = dict(os.environ, RV_PLUGIN_OUT=out, RV_PLUGIN_PROP=ctx.prop)
        p = subprocess.run([sys.executable, '-m', 'pytest', '-q', '-x', '-p', 'no:cacheprovider', '-p', 'rv.pytest_plugin',
                            '--benchmark-disable', 'tests'], cwd=d, env=env, capture_output=True, text=True, timeout=1800)
        if not os.path.exists(out):
            p = subprocess.run([sys.executable, '-m', 'pytest', '-q', '-p', 'no:cacheprovider', '-p', 'rv.pytest_plugin', 'tests'],
                               cwd=d, env=env, capture_output=True, text=True, timeout=1800)
        if not os.path.exists(out):
            ctx.inconclusive_because('test-suite workload produced no sentinel summary: ' + (p.stdout[-200:] + p.stderr[-200:]).replace('\n', ' '))
            return
        with open(out) as f:
            s = json.load(f)
        for mech, n in s['mech_counts'].items():
            ctx.mech_counts[mech] += n
            ctx.mech_cases.setdefault(mech, []).extend(s['mech_cases'].get(mech, [])[:2])
        for k, v in s['sentinel_evals'].items():
            ctx.sentinel_evals[k] += v
        ctx.evaluations += s['sentinel_evals'].get('calls', 0)
        ctx.events += s['sentinel_evals'].get('calls', 0)
        ctx.ops['suite-under-sentinels'] += s['sentinel_evals'].get('calls', 0)
        ctx.extra['suite_under_sentinels'] = {'boundary_calls': s['sentinel_evals'].get('calls', 0), 'pytest_rc': p.returncode,
                                              'foreign_trips': s.get('foreign_trips', {})}
    finally:
        shutil.rmtree(d, ignore_errors=True)
