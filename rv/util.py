"""Helpers shared by the property modules: content generators, operand specs (JSON-able
descriptions of operands that are turned into real objects only when a case is executed),
outcome capture, exception-class matching and the option guard."""
from __future__ import annotations

import array
import builtins
import contextlib
import enum
import io

import bitarray
import bitstring
from bitstring import Bits, BitArray, ConstBitStream, BitStream

CLASSES = {'Bits': Bits, 'BitArray': BitArray, 'ConstBitStream': ConstBitStream, 'BitStream': BitStream}
CLASS_NAMES = list(CLASSES)
MUTABLE = ('BitArray', 'BitStream')
STREAMS = ('ConstBitStream', 'BitStream')

LENGTHS = [0, 1, 2, 3, 4, 5, 7, 8, 9, 15, 16, 17, 23, 24, 25, 31, 32, 33, 63, 64, 65, 127, 128, 129,
           255, 256, 257, 999, 1000, 1001, 1023, 1024, 1025, 1999, 2000, 2001, 3599, 3600, 3601,
           4095, 4096, 4097, 8191, 8192, 8193]
SHORT_LENGTHS = [x for x in LENGTHS if x <= 129]
MID_LENGTHS = [x for x in LENGTHS if x <= 1025]


def rb(rng, n: int, p: float = 0.5) -> str:
    if n <= 0:
        return ''
    if p == 0.5:
        return format(rng.getrandbits(n), f'0{n}b')
    return ''.join('1' if rng.random() < p else '0' for _ in range(n))


def content(rng, n: int) -> str:
    """Random, sparse, periodic, constant, single-bit, alternating, palindromic, run-structured or self-overlapping content of length n."""
    if n == 0:
        return ''
    k = rng.random()
    if k < 0.40:
        return rb(rng, n)
    if k < 0.52:
        return rb(rng, n, 0.125)
    if k < 0.64:
        per = rb(rng, rng.choice([1, 2, 3, 8]))
        return (per * (n // len(per) + 1))[:n]
    if k < 0.70:
        return '0' * n
    if k < 0.76:
        return '1' * n
    if k < 0.82:
        i = rng.randrange(n)
        return '0' * i + '1' + '0' * (n - i - 1)
    if k < 0.86:
        return (('01', '10')[rng.randrange(2)] * (n // 2 + 1))[:n]                 # alternating
    if k < 0.90:
        h = rb(rng, (n + 1) // 2)
        return (h + h[::-1][n % 2:])[:n]                                           # a palindrome
    if k < 0.94:
        out, bit = [], rng.randrange(2)                                            # a few long runs
        while sum(map(len, out)) < n:
            out.append(str(bit) * rng.choice([1, 7, 8, 9, 63, 64, 65, max(n // 3, 1)]))
            bit ^= 1
        return ''.join(out)[:n]
    if k < 0.97:
        w = rb(rng, rng.choice([8, 16, 24, 64]))                                   # one byte / item repeated, with one odd item somewhere
        t = (w * (n // len(w) + 1))[:n]
        i = rng.randrange(n)
        return t[:i] + ('1' if t[i] == '0' else '0') + t[i + 1:]
    p = rb(rng, rng.choice([2, 3, 5]))                                             # prefix == suffix (self-overlapping)
    return (p + rb(rng, max(n - 2 * len(p), 0)) + p)[:n] if n >= 2 * len(p) else rb(rng, n)


def mk(cls, bits: str):
    """Canonical in-memory construction: cls(bin=...)."""
    if isinstance(cls, str):
        cls = CLASSES[cls]
    return cls(bin=bits) if bits else cls()


# Ways in which a MUTABLE object can have come to hold `bits` (all in msb0 terms; the caller pins lsb0 off around the build).
MADE_ROUTES = ['bin', 'bin', 'token', 'from-BitArray', 'from-BitStream', 'from-Bits', 'copy', 'copy.copy', 'pack', 'bin-assigned', 'uintN-assigned',
               'appended-to-empty', 'cleared-then-iadd', 'slice-of-longer', 'add-halves', 'bytes-offset', 'shifted-out-then-or']


def mk_via(cls, bits: str, route: str):
    """An object of the mutable class cls holding bits, made along `route` (falls back to the canonical route where one does not apply)."""
    import copy as _copy
    if isinstance(cls, str):
        cls = CLASSES[cls]
    L = len(bits)
    tok = ('0b' + bits) if L else ''
    if route == 'token':
        return cls(tok)
    if route in ('from-BitArray', 'from-BitStream', 'from-Bits'):
        return cls(mk(route[5:], bits))
    if route == 'copy':
        return mk(cls, bits).copy()
    if route == 'copy.copy':
        return _copy.copy(mk(cls, bits))
    if route == 'pack':
        o = bitstring.pack('bits', mk(Bits, bits))
        return o if cls is BitStream else cls(o)
    if route == 'bin-assigned':
        t = cls('0b1')
        t.bin = bits
        return t
    if route == 'uintN-assigned' and 0 < L <= 64:
        t = cls()
        setattr(t, f'uint{L}', int(bits, 2))
        return t
    if route == 'appended-to-empty':
        t = cls()
        t.append(tok)
        return t
    if route == 'cleared-then-iadd':
        t = mk(cls, '1101')
        t.clear()
        t += tok
        return t
    if route == 'slice-of-longer':
        return mk(cls, '10' + bits + '011')[2:L + 2]
    if route == 'add-halves':
        return mk(cls, bits[:L // 2]) + mk(cls, bits[L // 2:])
    if route == 'bytes-offset':
        padded = '101' + bits
        padded += '1' * (-len(padded) % 8)
        return cls(bytes=int(padded, 2).to_bytes(len(padded) // 8, 'big'), offset=3, length=L) if L else cls()
    if route == 'shifted-out-then-or' and L:
        t = mk(cls, '1' * L)
        t <<= L
        t |= tok
        return t
    return mk(cls, bits)


def B(s) -> str:
    """Public observation of the content as a '0'/'1' string."""
    return s.bin if len(s) else ''


def positions(rng, L: int, beyond: bool = True):
    c = [0, 1, 2, L, L - 1, L // 2, -1, -2, -L, 7, 8, 9, -7, -8, -9, 64, -64]
    if beyond:
        c += [L + 1, -L - 1, L + 9, -L - 9, 10 ** 6, -10 ** 6]
    return rng.choice(c)


def optpos(rng, L: int, beyond: bool = True):
    return None if rng.random() < 0.35 else positions(rng, L, beyond)


def steps(rng, L: int):
    return rng.choice([None, None, 1, -1, 2, -2, 3, -3, 7, -7, 8, -8, 9, -9, 64, -64, L + 1, -(L + 1)])


def norm_window(start, end, L: int):
    """The library's documented window rule: negative values wrap once; 0<=s<=e<=L else None."""
    s = 0 if start is None else (start + L if start < 0 else start)
    e = L if end is None else (end + L if end < 0 else end)
    return (s, e) if 0 <= s <= e <= L else None


# ---- operand specs ---------------------------------------------------------------------------
OPERAND_KINDS = ['Bits', 'BitArray', 'ConstBitStream', 'BitStream', 'str', 'bytes', 'bytearray',
                 'memoryview', 'list', 'tuple', 'gen', 'bitarray']


def operand_spec(rng, bits: str, kinds=None):
    """Choose a way to hand `bits` to the library; byte-based kinds only when whole bytes."""
    kinds = kinds or OPERAND_KINDS
    k = rng.choice(kinds)
    if k in ('bytes', 'bytearray', 'memoryview', 'bytes-sub', 'bytearray-sub', 'memoryview-ro', 'BytesIO', 'BytesIO-used', 'BytesIO-written',
             'memoryview-strided', 'memoryview-reversed') and (len(bits) % 8 or not bits):
        k = 'str'
    return [k, bits]


_TRUTHY = [1, 2, -1, 'x', 0.5, True, (0,), '0', 7, 1.0]
_FALSY = [0, '', None, 0.0, False, (), 0, '', 0, None]


# Instances of subclasses of the promotable built-in types: the documentation promises promotion for "a str", "bytes", "an
# iterable", and the library decides with isinstance, so a subclass instance stands for its base value.
class StrSub(str):
    pass


class BytesSub(bytes):
    pass


class BytearraySub(bytearray):
    pass


class ListSub(list):
    pass


class TupleSub(tuple):
    pass


def str_enum_member(value: str):
    """A member of a `class X(str, Enum)` whose value is the given string."""
    return enum.Enum('StrEnum_', {'MEMBER': value}, type=str).MEMBER


SUBCLASS_KINDS = ['str-sub', 'str-enum', 'bytes-sub', 'bytearray-sub', 'list-sub', 'tuple-sub', 'memoryview-ro', 'frozenbitarray',
                  'memoryview-strided', 'memoryview-reversed', 'frozenbitarray-little', 'bitarray-little']


class OperandFailure(Exception):
    """Raised by a FailingIter operand after its last item: the caller's own error, which must come out unchanged."""


class FailingIter:
    """An iterable operand that yields its items and then fails (a generator reading from a source that breaks)."""

    def __init__(self, bits: str):
        self.bits = bits

    def __iter__(self):
        for ch in self.bits:
            yield int(ch)
        raise OperandFailure('the iterable failed after its last item')


def truthy_items(bits: str):
    return [(_TRUTHY if ch == '1' else _FALSY)[i % 10] for i, ch in enumerate(bits)]


STR_HISTORY = 0       # set per case by Ctx.run_case (recorded in the case as '_sh'): what happened to a str operand's text before it is used


def _str_operand(text: str, bits: str) -> str:
    """A str operand means its bits whatever was done before with objects made from the same text.  For a share of the cases the
    text is first used to build a MUTABLE object which is then changed in place (1), and / or it is spelt as several tokens (2, 3)."""
    if not STR_HISTORY:
        return text
    if STR_HISTORY == 4:
        # white space (line breaks included) is insignificant anywhere in such a string
        k = max(len(text) // 2, 3)
        return text[:k] + ('\n', '\r\n', ' \n ', '\t', '\n\n')[len(bits) % 5] + text[k:] if len(text) > 3 else ' ' + text + '\n'
    if STR_HISTORY in (2, 3) and len(bits) >= 2:
        k = len(bits) // 2
        text = f'0b{bits[:k]}, 0b{bits[k:]}' if STR_HISTORY == 2 else f'0b{bits[:k]},0b{bits[k:k + 1]}, 0b{bits[k + 1:]}' if len(bits) > k + 1 else text
    elif STR_HISTORY in (5, 6) and len(bits) >= 3:
        # bracketed groups: a plain group that is not at the start, a plain group nested in a repeated one
        k = len(bits) // 3
        a, b, c = bits[:max(k, 1)], bits[max(k, 1):max(2 * k, 2)], bits[max(2 * k, 2):]
        text = f'0b{a}, (0b{b}), 0b{c}' if STR_HISTORY == 5 else f'1*(0b{a}, (0b{b})), 0b{c}'
    try:
        import bitstring as _bs
        # the text as the first item of a list of formats (the items of such a list are parsed one by one) - before anything else parses it
        _bs.pack([text, '0b1'])
        _bs.pack([text, text, '0b0'])
        for cls in (BitArray, BitStream):
            t = cls(text)
            t.append('0b1')
            if len(t) > 1:
                t.invert()
            t2 = cls()
            t2 += text
            t2.prepend('0b10')
            t3 = cls()
            t3.bits = text              # the property setter route
            t3.append('0b1')
            t3.invert()
    except Exception:  # noqa: BLE001 - whatever the library thinks of this text is the judge's business, not this helper's
        pass
    return text


def build_operand(spec, receiver=None):
    k, bits = spec[0], spec[1] if len(spec) > 1 else ''
    if k == 'self':
        return receiver
    if k in CLASSES:
        return mk(CLASSES[k], bits)
    if k == 'str':
        return _str_operand(('0b' + bits) if bits else '', bits)
    if k == 'hexstr':
        return _str_operand('0x' + format(int(bits, 2), f'0{len(bits) // 4}x'), bits)
    if k in ('bytes', 'bytearray', 'memoryview'):
        raw = int(bits, 2).to_bytes(len(bits) // 8, 'big') if bits else b''
        return {'bytes': bytes, 'bytearray': bytearray, 'memoryview': memoryview}[k](raw)
    if k == 'list':
        return [int(c) for c in bits]
    if k == 'tuple':
        return tuple(c == '1' for c in bits)
    if k == 'gen':
        return (int(c) for c in bits)
    if k == 'str-sub':
        return StrSub(('0b' + bits) if bits else '')
    if k == 'str-enum':
        return str_enum_member(('0b' + bits) if bits else '')
    if k in ('bytes-sub', 'bytearray-sub', 'memoryview-ro'):
        raw = int(bits, 2).to_bytes(len(bits) // 8, 'big') if bits else b''
        return BytesSub(raw) if k == 'bytes-sub' else BytearraySub(raw) if k == 'bytearray-sub' else memoryview(bytearray(raw)).toreadonly()
    if k in ('memoryview-strided', 'memoryview-reversed'):
        # views that are not contiguous in memory: every second byte of a longer buffer, a buffer seen backwards
        raw = int(bits, 2).to_bytes(len(bits) // 8, 'big') if bits else b''
        if k == 'memoryview-reversed':
            return memoryview(raw[::-1])[::-1]
        return memoryview(bytes(b for x in raw for b in (x, 0xa5)))[::2]
    if k == 'list-sub':
        return ListSub(int(c) for c in bits)
    if k == 'tuple-sub':
        return TupleSub(c == '1' for c in bits)
    if k == 'frozenbitarray':
        return bitarray.frozenbitarray(bits)
    if k == 'frozenbitarray-little':      # the bit-endianness of a bitarray says how ITS buffer is laid out, not which bits it holds
        return bitarray.frozenbitarray(bits, endian='little')
    if k == 'bitarray-little':
        return bitarray.bitarray(bits, endian='little')
    if k == 'failing-iter':
        return FailingIter(bits)
    if k == 'truthy':               # arbitrary objects: an iterable is promoted item by item through bool()
        return truthy_items(bits)
    if k == 'truthy-iter':          # ... and handed over as an iterator that can be consumed once only
        items = truthy_items(bits)
        return iter(items) if len(bits) % 2 else (x for x in items)
    if k == 'bitarray':
        return bitarray.bitarray(bits)
    if k == 'BytesIO':
        return io.BytesIO(int(bits, 2).to_bytes(len(bits) // 8, 'big') if bits else b'')
    if k in ('BytesIO-used', 'BytesIO-written'):
        # an in-memory file that is not at its start: read before, or filled by write() - its VALUE is what it stands for
        raw = int(bits, 2).to_bytes(len(bits) // 8, 'big') if bits else b''
        if k == 'BytesIO-used':
            f = io.BytesIO(raw)
            f.read(len(raw) // 2 + 1)
        else:
            f = io.BytesIO()
            f.write(raw)
        return f
    if k == 'array':
        return array.array('B', int(bits, 2).to_bytes(len(bits) // 8, 'big') if bits else b'')
    raise KeyError(k)


# ---- outcome capture -------------------------------------------------------------------------
def exc_name(e: BaseException) -> str:
    return type(e).__name__


def call(f):
    """('ok', value) or ('exc', exception instance)."""
    try:
        return 'ok', f()
    except Exception as e:  # noqa: BLE001 - the class is the observation
        return 'exc', e


def exc_class(name: str):
    return getattr(bitstring, name, None) or globals().get(name) or getattr(builtins, name)


def exc_matches(e: BaseException, names) -> bool:
    if isinstance(names, str):
        names = (names,)
    return any(isinstance(e, exc_class(n)) for n in names)


def enc_slice(s):
    return [s.start, s.stop, s.step]


def dec_slice(v):
    return slice(*v)


# ---- options -------------------------------------------------------------------------------
def get_options():
    o = bitstring.options
    return (o.lsb0, o.bytealigned, o.mxfp_overflow, o.no_color)


def set_options(t):
    o = bitstring.options
    o.lsb0, o.bytealigned, o.mxfp_overflow = t[0], t[1], t[2]
    if len(t) > 3:
        o.no_color = t[3]


# Ambient configuration: option values a property does not depend on, switched to their non-default value for a share of
# the cases of the modules that declare AMBIENT (set per case by Ctx.run_case and recorded in the case as '_amb').
AMBIENT: dict = {}


LSB0_ON = 0


def lsb0_on_value():
    """True, or (for a share of the cases, chosen by Ctx.run_case and recorded in the case as '_on') another truthy value."""
    if not LSB0_ON:
        return True
    if LSB0_ON == 4:
        try:
            import numpy
            return numpy.bool_(True)
        except Exception:  # noqa: BLE001
            return 1
    return (True, 1, 2, 'yes')[LSB0_ON]


@contextlib.contextmanager
def options(lsb0=None, bytealigned=None, mxfp_overflow=None, no_color=None):
    before = get_options()
    o = bitstring.options
    if AMBIENT:
        if AMBIENT.get('bytealigned') and not bytealigned:
            bytealigned = True
        if AMBIENT.get('mxfp_overflow') and mxfp_overflow is None:
            mxfp_overflow = AMBIENT['mxfp_overflow']
    try:
        if lsb0 is not None:
            o.lsb0 = lsb0_on_value() if lsb0 is True else lsb0
        if bytealigned is not None:
            o.bytealigned = bytealigned
        if mxfp_overflow is not None:
            o.mxfp_overflow = mxfp_overflow
        if no_color is not None:
            o.no_color = no_color
        yield
    finally:
        set_options(before)


def lbucket(L: int) -> str:
    for b in (0, 1, 8, 64, 256, 1024, 4096, 8192):
        if L <= b:
            return f'<={b}'
    return '>8192'


def find_caches():
    """Every lru_cache-like object reachable from the package's modules and classes."""
    import sys
    out, seen = [], set()
    for mname, mod in sorted(sys.modules.items()):
        if not (mname == 'bitstring' or mname.startswith('bitstring.')) or mod is None:
            continue
        for n, o in list(vars(mod).items()):
            cands = [(n, o)]
            if isinstance(o, type) and getattr(o, '__module__', '').startswith('bitstring'):
                cands += [(f'{n}.{k}', getattr(v, '__func__', v)) for k, v in vars(o).items()]
            for nm, c in cands:
                if hasattr(c, 'cache_clear') and hasattr(c, 'cache_info') and id(c) not in seen:
                    seen.add(id(c))
                    out.append((f'{mname}.{nm}', c))
    return out
